#!/bin/sh
true
