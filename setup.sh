#!/bin/bash
set -e
cd "$(dirname "$0")"
./build.sh
