"""harness/wiring_gen.py — regenerate coq/Generated/Wiring.v from the CURRENT /repo/src.

A fail-closed `ast` reader for the thin wrapper classes, constructor defaults and the quota
formulas: it emits, for every wrapper class, the arguments its __init__ forwards to its parent's
__init__ as a Gallina term over the hand-written model's constructors.  Theorems in
Proofs/C13_wiring.v / Properties/C13.v / C05.v are stated over these generated definitions, so a
source change to what a wrapper forwards changes the generated file and breaks the proof
obligation itself.  Any AST shape this reader does not recognise aborts generation (exit 2).
Prints the file to stdout.
"""
import ast, sys, os

SRC = "/repo/src/votekit/elections"


class Unrecognised(Exception):
    pass


def parse(path):
    return ast.parse(open(path, encoding="utf8").read())


def find_class(tree, name):
    for n in tree.body:
        if isinstance(n, ast.ClassDef) and n.name == name:
            return n
    raise Unrecognised(f"class {name} not found")


def find_method(cls, name):
    for n in cls.body:
        if isinstance(n, ast.FunctionDef) and n.name == name:
            return n
    raise Unrecognised(f"{cls.name}.{name} not found")


def is_docstring(stmt):
    return isinstance(stmt, ast.Expr) and isinstance(stmt.value, ast.Constant) and isinstance(stmt.value.value, str)


def params_with_defaults(fn):
    """[(name, default_ast_or_None)] excluding self."""
    a = fn.args
    if a.vararg or a.kwarg or a.kwonlyargs or a.posonlyargs:
        raise Unrecognised(f"{fn.name}: unsupported signature")
    names = [x.arg for x in a.args][1:]
    defaults = [None] * (len(names) - len(a.defaults)) + list(a.defaults)
    return list(zip(names, defaults))


# ---- Gallina types of the parameters we know about
TYPES = {
    ("STV", "m"): "Z", ("STV", "transfer"): "transfer", ("STV", "quota"): "quota",
    ("STV", "simultaneous"): "bool", ("STV", "tiebreak"): "tb",
    ("IRV", "quota"): "quota", ("IRV", "tiebreak"): "tb",
    ("SequentialRCV", "m"): "Z", ("SequentialRCV", "quota"): "quota",
    ("SequentialRCV", "simultaneous"): "bool", ("SequentialRCV", "tiebreak"): "tb",
    ("Plurality", "m"): "Z", ("Plurality", "tiebreak"): "tb",
    ("SNTV", "m"): "Z", ("SNTV", "tiebreak"): "tb",
    ("GeneralRating", "m"): "Z", ("GeneralRating", "L"): "Q", ("GeneralRating", "k"): "optQ",
    ("GeneralRating", "tiebreak"): "tb",
    ("Rating", "m"): "Z", ("Rating", "L"): "Q", ("Rating", "tiebreak"): "tb",
    ("Limited", "m"): "Z", ("Limited", "k"): "Q", ("Limited", "tiebreak"): "tb",
    ("Cumulative", "m"): "Z", ("Cumulative", "tiebreak"): "tb",
    ("Approval", "m"): "Z", ("Approval", "tiebreak"): "tb",
    ("BlocPlurality", "m"): "Z", ("BlocPlurality", "k"): "optZ", ("BlocPlurality", "tiebreak"): "tb",
}
GTYPE = {"Z": "Z", "Q": "Q", "optQ": "option Q", "optZ": "option Z", "tb": "option tb_kind",
         "quota": "quota_kind", "bool": "bool", "transfer": "transfer_kind"}


def coerce(term, src, dst):
    if src == dst:
        return term
    table = {
        ("Z", "Q"): f"(inject_Z {term})",
        ("Z", "optQ"): f"(Some (inject_Z {term}))",
        ("Q", "optQ"): f"(Some {term})",
        ("optZ", "optQ"): f"(option_map inject_Z {term})",
        ("none", "optQ"): "None", ("none", "optZ"): "None", ("none", "tb"): "None",
        ("int", "Z"): f"{term}%Z", ("int", "Q"): f"(inject_Z {term}%Z)",
        ("int", "optQ"): f"(Some (inject_Z {term}%Z))",
    }
    if (src, dst) in table:
        return table[(src, dst)]
    raise Unrecognised(f"cannot coerce {term} : {src} to {dst}")


def is_full_weight_lambda(e):
    """lambda winner, fpv, ballots, threshold: remove_cand(winner, tuple(ballots))"""
    if not isinstance(e, ast.Lambda):
        return False
    if [a.arg for a in e.args.args] != ["winner", "fpv", "ballots", "threshold"]:
        return False
    b = e.body
    return (isinstance(b, ast.Call) and isinstance(b.func, ast.Name) and b.func.id == "remove_cand"
            and len(b.args) == 2 and not b.keywords
            and isinstance(b.args[0], ast.Name) and b.args[0].id == "winner"
            and isinstance(b.args[1], ast.Call) and isinstance(b.args[1].func, ast.Name)
            and b.args[1].func.id == "tuple" and len(b.args[1].args) == 1
            and isinstance(b.args[1].args[0], ast.Name) and b.args[1].args[0].id == "ballots")


def expr(e, env, dst):
    """Translate a Python expression to a Gallina term of Gallina-type tag dst.
    env: name -> (term, type tag)."""
    if isinstance(e, ast.Name):
        if e.id in env:
            t, ty = env[e.id]
            return coerce(t, ty, dst)
        if e.id == "fractional_transfer" and dst == "transfer":
            return "TFractional"
        if e.id == "random_transfer" and dst == "transfer":
            return "TRandom"
        raise Unrecognised(f"unknown name {e.id}")
    if isinstance(e, ast.Constant):
        v = e.value
        if v is None:
            return coerce("None", "none", dst)
        if isinstance(v, bool):
            if dst != "bool":
                raise Unrecognised("bool constant in non-bool position")
            return "true" if v else "false"
        if isinstance(v, int):
            return coerce(str(v), "int", dst)
        if isinstance(v, str) and dst == "quota":
            return {"droop": "QDroop", "hare": "QHare"}.get(v, "QBad")
        raise Unrecognised(f"constant {v!r}")
    if is_full_weight_lambda(e) and dst == "transfer":
        return "TFullWeight"
    raise Unrecognised("expression " + ast.dump(e)[:200])


def super_init_call(stmt):
    """match  super().__init__(...)"""
    if not (isinstance(stmt, ast.Expr) and isinstance(stmt.value, ast.Call)):
        return None
    c = stmt.value
    f = c.func
    if (isinstance(f, ast.Attribute) and f.attr == "__init__" and isinstance(f.value, ast.Call)
            and isinstance(f.value.func, ast.Name) and f.value.func.id == "super" and not f.value.args):
        return c
    return None


def wrapper(cls_name, cls, parent_name, parent_cls, out):
    init = find_method(cls, "__init__")
    pinit = find_method(parent_cls, "__init__")
    cparams = params_with_defaults(init)
    pparams = params_with_defaults(pinit)
    if cparams[0][0] != "profile" or pparams[0][0] != "profile":
        raise Unrecognised(f"{cls_name}: first parameter is not profile")
    env = {}
    binders = []
    for name, _ in cparams[1:]:
        ty = TYPES.get((cls_name, name))
        if ty is None:
            raise Unrecognised(f"{cls_name}: unknown parameter {name}")
        env[name] = (name, ty)
        binders.append(f"({name} : {GTYPE[ty]})")
    guards = []
    call = None
    for stmt in init.body:
        if is_docstring(stmt):
            continue
        c = super_init_call(stmt)
        if c is not None:
            if call is not None:
                raise Unrecognised(f"{cls_name}: two super().__init__ calls")
            call = c
            continue
        if call is not None:
            raise Unrecognised(f"{cls_name}: statement after super().__init__")
        # guard:  if a > b: raise ValueError(...)
        if (isinstance(stmt, ast.If) and not stmt.orelse and len(stmt.body) == 1
                and isinstance(stmt.body[0], ast.Raise) and isinstance(stmt.test, ast.Compare)
                and len(stmt.test.ops) == 1 and isinstance(stmt.test.ops[0], ast.Gt)):
            exc = stmt.body[0].exc
            if not (isinstance(exc, ast.Call) and isinstance(exc.func, ast.Name) and exc.func.id == "ValueError"):
                raise Unrecognised(f"{cls_name}: guard raises something else")
            lhs = expr(stmt.test.left, env, "Q")
            rhs = expr(stmt.test.comparators[0], env, "Q")
            guards.append(f"Qlt_bool {rhs} {lhs}")
            continue
        # rebind:  if not k: k = m
        if (isinstance(stmt, ast.If) and not stmt.orelse and len(stmt.body) == 1
                and isinstance(stmt.test, ast.UnaryOp) and isinstance(stmt.test.op, ast.Not)
                and isinstance(stmt.test.operand, ast.Name) and isinstance(stmt.body[0], ast.Assign)
                and len(stmt.body[0].targets) == 1 and isinstance(stmt.body[0].targets[0], ast.Name)
                and stmt.body[0].targets[0].id == stmt.test.operand.id):
            v = stmt.test.operand.id
            t, ty = env[v]
            if ty != "optZ":
                raise Unrecognised(f"{cls_name}: falsy rebind of non-optional {v}")
            alt = expr(stmt.body[0].value, env, "Z")
            env[v] = (f"(match {t} with Some x => if Z.eqb x 0 then {alt} else x | None => {alt} end)", "Z")
            continue
        raise Unrecognised(f"{cls_name}.__init__: unrecognised statement {ast.dump(stmt)[:160]}")
    if call is None:
        raise Unrecognised(f"{cls_name}: no super().__init__ call")
    # bind the parent's parameters
    pnames = [n for n, _ in pparams]
    bound = {}
    if not call.args or not (isinstance(call.args[0], ast.Name) and call.args[0].id == "profile"):
        raise Unrecognised(f"{cls_name}: profile is not forwarded first")
    for i, a in enumerate(call.args[1:], start=1):
        bound[pnames[i]] = a
    for kw in call.keywords:
        if kw.arg is None or kw.arg not in pnames or kw.arg in bound:
            raise Unrecognised(f"{cls_name}: bad keyword {kw.arg}")
        bound[kw.arg] = kw.value
    args = {}
    for name, default in pparams[1:]:
        ty = TYPES.get((parent_name, name))
        if ty is None:
            raise Unrecognised(f"{parent_name}: unknown parameter {name}")
        if name in bound:
            args[name] = expr(bound[name], env, ty)
        elif default is not None:
            args[name] = expr(default, {}, ty)
        else:
            raise Unrecognised(f"{cls_name}: parent parameter {name} unbound")
    out.append((cls_name, parent_name, binders, guards, args))


CTOR = {
    "STV": lambda a: f"RSTV (mkStv {a['m']} {a['quota']} {a['simultaneous']} {a['transfer']} {a['tiebreak']})",
    "Plurality": lambda a: f"RPlurality {a['m']} {a['tiebreak']}",
    "GeneralRating": lambda a: f"RRating {a['m']} {a['L']} {a['k']} {a['tiebreak']}",
    "Limited": lambda a: f"RLimited {a['m']} {a['k']} {a['tiebreak']}",
}


def defaults_of(cls_name, cls, out):
    init = find_method(cls, "__init__")
    for name, default in params_with_defaults(init)[1:]:
        ty = TYPES.get((cls_name, name))
        if ty is None:
            raise Unrecognised(f"{cls_name}: unknown parameter {name}")
        if default is not None:
            out.append(f"Definition default_{cls_name}_{name} : {GTYPE[ty]} := {expr(default, {}, ty)}.")


def threshold_formulas(stv_cls, out):
    """get_threshold: int(total/(m+1)+1) for droop, int(total/m) for hare, ValueError otherwise."""
    fn = find_method(stv_cls, "get_threshold")
    src = ast.unparse(fn)
    want_droop = "int(total_ballot_wt / (self.m + 1) + 1)"
    want_hare = "int(total_ballot_wt / self.m)"
    if want_droop not in src or want_hare not in src:
        raise Unrecognised("get_threshold: quota formulas changed")
    # exact shape of the if-chain
    body = [s for s in fn.body if not is_docstring(s)]
    if len(body) != 1 or not isinstance(body[0], ast.If):
        raise Unrecognised("get_threshold: body shape")
    outer = body[0]
    if ast.unparse(outer.test) != "self.threshold == 0":
        raise Unrecognised("get_threshold: outer test")
    inner = outer.body
    if len(inner) != 1 or not isinstance(inner[0], ast.If):
        raise Unrecognised("get_threshold: inner shape")
    i1 = inner[0]
    if ast.unparse(i1.test) != "self.quota == 'droop'" or ast.unparse(i1.body[0]) != "return " + want_droop:
        raise Unrecognised("get_threshold: droop branch")
    i2 = i1.orelse[0] if i1.orelse and isinstance(i1.orelse[0], ast.If) else None
    if i2 is None or ast.unparse(i2.test) != "self.quota == 'hare'" or ast.unparse(i2.body[0]) != "return " + want_hare:
        raise Unrecognised("get_threshold: hare branch")
    if not (i2.orelse and isinstance(i2.orelse[0], ast.Raise) and "ValueError" in ast.unparse(i2.orelse[0])):
        raise Unrecognised("get_threshold: unknown-quota branch")
    out.append("Definition wired_threshold (q : quota_kind) (m : Z) (total : Q) : res Q :=\n"
               "  match q with\n"
               "  | QDroop => ok (inject_Z (Qtrunc (total / inject_Z (m + 1) + 1)))\n"
               "  | QHare => ok (inject_Z (Qtrunc (total / inject_Z m)))\n"
               "  | QBad => err EValue\n  end.")


def main():
    stv_t = parse(os.path.join(SRC, "election_types/ranking/stv.py"))
    plu_t = parse(os.path.join(SRC, "election_types/ranking/plurality.py"))
    rat_t = parse(os.path.join(SRC, "election_types/scores/rating.py"))
    app_t = parse(os.path.join(SRC, "election_types/approval/approval.py"))
    classes = {
        "STV": find_class(stv_t, "STV"), "IRV": find_class(stv_t, "IRV"),
        "SequentialRCV": find_class(stv_t, "SequentialRCV"),
        "Plurality": find_class(plu_t, "Plurality"), "SNTV": find_class(plu_t, "SNTV"),
        "GeneralRating": find_class(rat_t, "GeneralRating"), "Rating": find_class(rat_t, "Rating"),
        "Limited": find_class(rat_t, "Limited"), "Cumulative": find_class(rat_t, "Cumulative"),
        "Approval": find_class(app_t, "Approval"), "BlocPlurality": find_class(app_t, "BlocPlurality"),
    }
    expected_parent = {"IRV": "STV", "SequentialRCV": "STV", "SNTV": "Plurality", "Rating": "GeneralRating",
                       "Limited": "GeneralRating", "Cumulative": "Limited", "Approval": "GeneralRating",
                       "BlocPlurality": "GeneralRating"}
    wrappers = []
    for c, p in expected_parent.items():
        bases = [b.id for b in classes[c].bases if isinstance(b, ast.Name)]
        if bases != [p]:
            raise Unrecognised(f"{c}: bases {bases} != [{p}]")
        wrapper(c, classes[c], p, classes[p], wrappers)
    lines = ["(* GENERATED by harness/wiring_gen.py from /repo/src — do not edit.  What each thin",
             "   wrapper class forwards to its parent's __init__, constructor defaults, quota formulas. *)",
             "From VK Require Import Base Core STV Rules.", ""]
    defs = []
    for c in ("STV", "Plurality", "GeneralRating", "Limited", "IRV", "SequentialRCV", "BlocPlurality", "Rating"):
        defaults_of(c, classes[c], defs)
    lines += defs + [""]
    for cls_name, parent, binders, guards, args in wrappers:
        g = " || ".join(f"({x})" for x in guards) if guards else "false"
        lines.append(f"(* {cls_name}(...) -> {parent}(...) ; the guard raises ValueError before the parent is built *)")
        lines.append(f"Definition guard_{cls_name} {' '.join(binders)} : bool := {g}.")
        lines.append(f"Definition wire_{cls_name} {' '.join(binders)} : rule := {CTOR[parent](args)}.")
        lines.append("")
    th = []
    threshold_formulas(classes["STV"], th)
    lines += th
    print("\n".join(lines))


if __name__ == "__main__":
    try:
        main()
    except Unrecognised as e:
        sys.stderr.write("WIRING-GENERATION-FAILED: " + str(e) + "\n")
        sys.exit(2)
