"""Worker started with a specific PYTHONHASHSEED: runs election / utility cases from stdin (JSON
list) on the implementation and prints their canonical outputs (JSON list) with candidate NAMES."""
import sys, json, os
sys.path.insert(0, os.path.dirname(os.path.abspath(__file__)))
sys.path.insert(0, os.path.join(os.path.dirname(os.path.abspath(__file__)), "props"))
import common
common.load_impl()
import rules, vk
from common import Err
from recorder import Recorder, installed


def named_states(el):
    out = []
    for s in el.election_states:
        out.append([s.round_number,
                    [sorted(map(str, g)) for g in s.remaining], [sorted(map(str, g)) for g in s.elected],
                    [sorted(map(str, g)) for g in s.eliminated],
                    sorted([sorted(map(str, k)), [sorted(map(str, g)) for g in v]] for k, v in s.tiebreaks.items()),
                    sorted([str(c), str(v)] for c, v in s.scores.items())])
    return out


def main():
    cases = json.load(sys.stdin)
    res = []
    for case in cases:
        prof = common.call_impl(vk.mk_profile, case["profile"])
        if isinstance(prof, Err):
            res.append({"err": repr(prof)})
            continue
        with installed(Recorder(case.get("seed", 0))):
            el = common.call_impl(rules.build_election, case, prof)
        if isinstance(el, Err):
            res.append({"err": repr(el)})
        else:
            res.append({"states": named_states(el)})
    json.dump(res, sys.stdout)


if __name__ == "__main__":
    main()
