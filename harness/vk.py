"""harness/vk.py — conversions between JSON cases, VoteKit objects and model values.

A JSON ballot is {"r": [[name,...],...], "w": "n/d", "s": {name: "n/d"} or null,
"id": name or null, "vs": [name,...] or null}; a JSON profile is
{"ballots": [...], "cands": [names] or null}.
"""
from fractions import Fraction
from common import S, Err, Names, frac, fstr, load_impl


# ---------- JSON -> VoteKit
def mk_ballot(jb):
    load_impl()
    from votekit import Ballot
    kw = {}
    if jb.get("r"):
        kw["ranking"] = tuple(frozenset(g) for g in jb["r"])
    elif jb.get("empty_tuple"):
        kw["ranking"] = ()            # an explicitly empty ranking: same content as no ranking at all
    if jb.get("s"):
        kw["scores"] = {c: frac(v) for c, v in jb["s"].items()}
    if jb.get("id") is not None:
        kw["id"] = jb["id"]
    if jb.get("vs") is not None:
        kw["voter_set"] = set(jb["vs"])
    return Ballot(weight=frac(jb.get("w", "1")), **kw)


def mk_profile(jp):
    load_impl()
    from votekit import PreferenceProfile
    bs = tuple(mk_ballot(b) for b in jp["ballots"])
    if jp.get("cands") is not None:
        return PreferenceProfile(ballots=bs, candidates=tuple(jp["cands"]))
    return PreferenceProfile(ballots=bs)


# ---------- JSON -> model value
def jb_val(nm: Names, jb):
    return [
        [S([nm.id(c) for c in g]) for g in (jb.get("r") or [])],
        frac(jb.get("w", "1")),
        # Ballot stores every score as Fraction(s).limit_denominator() and drops zeros
        S([[nm.id(c), frac(v).limit_denominator()] for c, v in (jb.get("s") or {}).items()
           if frac(v).limit_denominator() != 0]),
        None if jb.get("id") is None else nm.id("id:" + str(jb["id"])),
        None if jb.get("vs") is None else S([nm.id("v:" + str(x)) for x in jb["vs"]]),
    ]


def jp_val(nm: Names, jp, cands=None):
    """cands: the candidate tuple the implementation's profile actually has (needed when the
    JSON leaves it to be inferred)."""
    cs = jp.get("cands")
    if cs is None:
        cs = cands if cands is not None else []
    return [[jb_val(nm, b) for b in jp["ballots"]], [nm.id(c) for c in cs]]


# ---------- VoteKit -> model value
def ranking_val(nm, r):
    if not r:
        return []
    return [S([nm.id(c) for c in g]) for g in r]


def scores_val(nm, d):
    if not d:
        return S([])
    return S([[nm.id(c), Fraction(v)] for c, v in d.items()])


def ballot_val(nm, b):
    return [
        ranking_val(nm, b.ranking),
        Fraction(b.weight),
        scores_val(nm, b.scores),
        None if b.id is None else nm.id("id:" + str(b.id)),
        None if b.voter_set is None else S([nm.id("v:" + str(x)) for x in b.voter_set]),
    ]


def ballots_val(nm, bs):
    return S([ballot_val(nm, b) for b in bs])


def profile_val(nm, p):
    return [ballots_val(nm, p.ballots), S([nm.id(c) for c in p.candidates])]


def state_val(nm, st):
    return [
        st.round_number,
        ranking_val(nm, st.remaining),
        ranking_val(nm, st.elected),
        ranking_val(nm, st.eliminated),
        S([[S([nm.id(c) for c in k]), ranking_val(nm, v)] for k, v in st.tiebreaks.items()]),
        scores_val(nm, st.scores),
    ]


def states_val(nm, sts):
    return [state_val(nm, s) for s in sts]


TB_CODE = {None: None, "random": 1, "first_place": 2, "borda": 3}


def tb_val(tb):
    if tb in TB_CODE:
        return TB_CODE[tb]
    return 9
