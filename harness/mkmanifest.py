"""Regenerate /verif/MANIFEST.json from the table below (run by hand when checks are added)."""
import json, os

VERIF = os.path.dirname(os.path.dirname(os.path.abspath(__file__)))
props = [json.loads(l) for l in open(os.path.join(VERIF, "properties.jsonl"))]
titles = {p["id"]: p["title"] for p in props}

# id -> (design ref, level text, level note)
CLAIMED = {}
NOT_YET = {}


def statement_files(pid):
    """The statement files of the property that are part of the development (listed in _CoqProject)."""
    listed = [l.strip() for l in open(os.path.join(VERIF, "coq", "_CoqProject")) if l.strip().startswith("Properties/")]
    mine = [f for f in listed if os.path.basename(f) == pid + ".v" or os.path.basename(f).startswith(pid + "_")]
    n = 0
    import re
    for f in mine:
        src = re.sub(r"\(\*.*?\*\)", "", open(os.path.join(VERIF, "coq", f), encoding="utf8").read(), flags=re.S)
        n += len(re.findall(r"^\s*Theorem\s", src, flags=re.M))
    return f" Statement files ({n} theorems; summaries in DESIGN.md section 7): " + ", ".join(mine) + "."


def claim(pid, text, note, technique="machine-checked Coq theorems about a hand-written Gallina model + per-run differential correspondence (extracted OCaml vs /repo/src, cross-checked by vm_compute)"):
    CLAIMED[pid] = dict(text=text, note=note, technique=technique)


COMMON_NOTE = ("Trusted: Coq 8.16.1 kernel (+vm_compute for reflective steps and the kernel cross-check; no native_compute), "
               "no axioms (Print Assumptions under every property theorem is parsed into the evidence), the hand-written model "
               "tied to /repo/src only by this run's correspondence (generators bound its reach), ExtrOcamlBasic extraction + "
               "ocaml/driver.ml (cross-checked against vm_compute on a sample each run), the harness (canonicalisation, recorder "
               "shim). Modelled, not verified: CPython/numpy/pandas semantics. ")

claim("C03", "Coq theorems for all piles/weights/draws: fractional, random and full-weight transfers never mention the winner, keep order, "
      "carry exactly the stated per-ranking weights / a sub-collection of size tally-threshold, error characterisation; exact accounting of the random transfer (drawn weight = tally - threshold) and of whole runs (C03_random.v); model tied to the code by "
      "per-run correspondence on generated piles and whole STV runs with per-round weight accounting.",
      COMMON_NOTE + "The 'equally likely' clause reduces to the law of random.sample (trusted) once the population and k handed to it are proved/validated. "
      "Recorded known findings: random-transfer shortage, Hare/SequentialRCV over-election, Hare zero quota.")
claim("C04", "Coq theorems for all profiles, vectors, m: score = weight-summed positional points with shared means (definition), totals = weight x vector total, "
      "special cases fpv/borda/mentions, ranking groups iff equal score, top-m election spec incl. exact ValueError characterisation; per-run correspondence on "
      "utilities and Plurality/SNTV/Borda.",
      COMMON_NOTE + "Float score-vector entries are read as their exact dyadic value.")
claim("C06", "Coq theorems for all untied profiles: head-to-head margins (listed beats unlisted, unlisted split evenly), reachability soundness/completeness, "
      "tiers partition/dominate/minimal, Smith set, Condorcet iff, DominatingSets and CondoBorda; per-run correspondence on pairwise_dict, tiers and both rules.",
      COMMON_NOTE + "networkx.has_path is modelled as reachability (proved equal to the reflexive-transitive closure).")
claim("C10", "Coq theorems for every rule: outcomes depend only on the consumed prefix of the random script; for deterministic rules no recorded tiebreak implies no draw and "
      "identical outcome from every script; recorded tiebreaks are genuine, strict, obeyed; scored tiebreaks sorted with random fallback only inside equal-score groups; "
      "per-run correspondence with recorded/poisoned primitives.",
      COMMON_NOTE + "The two clauses Properties/C10.v proves with an extra premise (_partial) are proved at full strength in Properties/C10_closed.v. Known finding: Alaska re-draws tiebreaks in its get_profile replay.")
claim("C11", "Coq theorems for all ballots/profiles: condense preserves per-content weight, distinct, order-independent, idempotent; equality iff equal content weights "
      "(no hypotheses), reflexive/symmetric/transitive; addition adds weights; derived fields; duplicate candidates rejected; limit_denominator port (bound, identity on small denominators); "
      "per-run correspondence on construction, condense, ==, +.",
      COMMON_NOTE + "Attribute immutability is decided by direct run-time tests (no counterpart in a language of immutable values); 'closest fraction' is CPython's (oracle).")
claim("C12", "Coq theorems for all inputs: strip/remove_cand (profile, tuple, single ballot; both flags) no removed candidate, order and grouping kept, per-ranking weights, loss = exhausted weight; "
      "add_missing; tie expansion = all linear orders once, equal weights, positional scores and pairwise shares preserved (C12_pairwise.v); per-run correspondence incl. the cleaning-module functions.",
      COMMON_NOTE + "Cleaning-module functions (remove_noncands, deduplicate_profiles, remove_empty_ballots) are modelled and validated by correspondence; their theorems are listed in the evidence when present.")

claim("C05", "Coq theorems for all score profiles, m, L, k: validation passes iff arguments and every ballot respect the limits (EValue for arguments, EType for ballots, precedence and first-offender order), totals = sum of weight x score, top-m election spec with exact ValueError characterisation, and the five wrapper classes equal GeneralRating at the documented (L,k) -- the wrapper theorems are stated over Generated/Wiring.v, which is regenerated from /repo/src on every build; per-run correspondence with boundary-violating ballots.",
      COMMON_NOTE + "Wiring generator (harness/wiring_gen.py, fail-closed ast reader) is trusted to render what the wrappers forward.")
claim("C09", "Coq theorems on arbitrary state lists: negative indices, IndexError exactly out of range, cumulative elected/eliminated/remaining/ranking/status closed forms and monotonicity, get_profile determined by the consumed script prefix and script-independent when no draw is consumed, one-shot rules, STV, IRV, SequentialRCV, wrapper classes, TopTwo and Alaska: the recorded states are a valid trace, get_profile(i) replays it, has exactly the remaining candidates and re-scores to the recorded tallies (C09_replay.v); get_step modelled (Election2.v); per-run correspondence of random query histories (incl. get_step) on every rule with before/after deep comparison.",
      COMMON_NOTE + "profile-candidates / re-scoring for multi-round rules are decided by the per-run oracle and correspondence (theorem proved for one-shot rules only). Known findings: PluralityVeto replay mutates the object; Alaska replay re-draws tiebreaks.")
claim("C13", "Coq theorems over Generated/Wiring.v (regenerated from /repo/src each build): IRV = STV(m=1), SNTV = Plurality, SequentialRCV = STV with the full-weight transfer, STV defaults and quota formulas; TopTwo and Alaska unfolded into their documented compositions (iff), TopTwo winner = head-to-head first-preference winner of the top two, Alaska = Plurality(m_1) then STV(m_2) with consecutive round numbers; per-run correspondence plus differential runs inside the implementation under the same recorded random stream.",
      COMMON_NOTE + "Known finding: Alaska's internal get_profile replay re-draws random tiebreaks and can raise KeyError.")
claim("C20", "Coq theorems: one exact (iff) characterisation per documented precondition of the first error returned -- missing ranking, tied position, non-integer weights (PluralityVeto, random transfer), missing scores, m range (m = n accepted), Alaska stage order, score vector, rating limits, quota name, duplicate candidates -- and no partial result (sum type); generator-side checks (bloc proportions, cohesion rows, bloc names, overlapping intervals) are modelled and validated by correspondence; malformed-stream correspondence on every rule.",
      COMMON_NOTE + "round(sum, 8) != 1 is modelled as |sum - 1| >= 5e-9 with generated cases kept clear of the boundary; the generator-side clauses have a model + correspondence but no separate theorem (they are direct boolean tests).")

claim("C01", "Coq theorems for the STV family on every valid profile, m, configuration and script: round invariant (partition of the candidates, weight bound), exactly m distinct winners, permanent status, termination (never out of fuel), no over-election and exact error characterisation under Droop with the fractional/random transfer, plus machine-checked refutations (Hare / SequentialRCV over-election, random-transfer shortage, Hare zero quota) that are recorded known findings; run-level outcome theorems for every other rule (C01_rules.v: one-shot rules, DominatingSets, CondoBorda, TopTwo, Alaska, RandomDictator, BoostedRandomDictator, PluralityVeto: round structure, exactly m winners, partition, permanent status, exact ValueError-iff without a tiebreak, exhaustive error kinds, never out of fuel for every loop-free rule, machine-checked PluralityVeto non-termination); per-run correspondence of all 21 election classes incl. PluralityVeto, RandomDictator and BoostedRandomDictator under recorded random streams.",
      COMMON_NOTE + "count/partition for TopTwo, Alaska, the dictators and PluralityVeto are decided by the per-run oracle + correspondence (their models have no separate run-level theorem). Known findings listed in known_findings.json.")
claim("C02", "Coq theorems for all valid profiles and scripts: threshold = floor(N/(m+1))+1 / floor(N/m), computed once; every successful step is exactly one of election (simultaneous: exactly the reachers; one-by-one: a maximal-tally candidate, ties only via a recorded tiebreak, ValueError without one), default election, or elimination of a minimal-tally candidate (ties by lowest initial first-place tally, then recorded random order); per-ranking transfer law weight*(tally-t)/tally (full weight for SequentialRCV) for any number of simultaneous winners; reported tallies/order are the first-place weights of the resulting ballots. Per-run: model correspondence and an independent reference count written from the property text, compared round by round.",
      COMMON_NOTE)
claim("C08", "Coq theorems: neutrality of EVERY rule and utility as an exact commutation with any equality-respecting renaming (free theorem obtained with Paramcoq, re-checked by the kernel, no axioms); anonymity/representation independence (reordering, splitting, merging, condensing, candidate order) for scoring utilities, one-shot rules and whole STV runs on the deterministic path; per-run correspondence plus metamorphic re-runs (hostile renamings, shuffles, splits, merges, candidate tuples) and re-runs in fresh interpreters under other PYTHONHASHSEED values.",
      COMMON_NOTE + "Hash-seed independence is decided by differential execution across interpreters (no counterpart in the model). Anonymity theorems for TopTwo/Alaska/DominatingSets/CondoBorda at rule level are not stated (only their building blocks); the metamorphic oracle covers them.")

claim("C07", "Coq theorem c07_droop_pc for ALL valid profiles, m, candidate subsets S, k, tie-break settings and scripts: under the Droop quota with the fractional or random transfer, a solid coalition worth k thresholds elects at least min(k,|S|,m) members of S (invariant over rounds: coalition weight >= (k - elected) * t while members stand; a member is eliminated only when more stand than thresholds remain), and IRV majority as a corollary; built on the proved STV round invariants (C01/C02/C03); per-run correspondence of the STV model plus an oracle that enumerates every candidate subset of every generated run.",
      COMMON_NOTE + "Known finding: random-transfer shortage (ValueError) is outside the theorem's 'run returns states' hypothesis.")
claim("C15", "Coq theorems for any number of candidates: interval normalisation (zero supports set aside, shares = s/sum, sum to one, exact error characterisation), combination = proportion x share, name-Bradley-Terry table = normalised product over ordered pairs of x/(x+y) (via permutation-invariance of prod (x_i+x_j)), slate-Bradley-Terry table over all distinct arrangements with exponents own-above-other / other-above-own summing to a*b, both tables sum to one; per-run comparison of the implementation's float tables with the exact rational model within 1e-9.",
      COMMON_NOTE + "numpy/Python float rounding is trusted to stay below the 1e-9 tolerance; inputs are dyadic floats so their exact value is known.")
claim("C17", "Coq theorems over finite rational distributions: RandomDictator step law = share of current first-place weight with ties split evenly (and the population of the law is literally the logged random.choices argument), multi-seat law = product along the path with mass 1, BoostedRandomDictator = (1/(c-1)) squares rule + (1 - 1/(c-1)) RandomDictator with the branch condition u <= 1/(c-1), uniform random tiebreak: every order 1/n!, every position 1/n, k contested seats k/n, eliminated 1/n; per-run correspondence of the recorded primitive ARGUMENTS (population, weights, p) and outcomes.",
      COMMON_NOTE + "Laws of the primitives themselves (random.choices, random.sample, random.uniform, numpy choice) are trusted. Known finding: exhausted ballots.")
claim("C18", "Coq theorems from the parsed table: one ballot per distinct row pattern of the selected rank columns in column order, weight = row count / summed weight column, total = rows, voter sets, blank cells, exact error order (empty data, blank id, duplicate id); Scottish format: declared seats/ward/candidates/parties, per-ranking weights = declared multiplicities, metadata errors; to_csv rows; cleaning-module functions (C12_cleaning). Per-run end-to-end correspondence on generated CSV and Scottish files (csv.writer quoting, delimiters, column subsets/orders, id/weight columns anywhere) and the malformed variants.",
      COMMON_NOTE + "pandas.read_csv / csv.reader parsing of well-formed files is exercised end-to-end but not modelled.")
claim("C19", "Coq theorems: Lp sum = p-norm^p of the difference of normalised ranking distributions (independent of the key order), symmetry, zero iff same distribution, invariance under reordering/condensing/rescaling, triangle inequality for p=1, inf (over Q), p=2 (Cauchy-Schwarz, root-free) and every natural p (Minkowski over R via convexity); ballot graph: node and edge sets for n = 2..6 by kernel-checked reflection against all-n characterisations of the spec, node weights add up to the total. Per-run correspondence (exact sums; floats within 1e-9) and exact graph comparison for n = 2..6.",
      COMMON_NOTE + "Only c19_triangle_p / c19_minkowski* / c19_pow_convex depend on axioms: ClassicalDedekindReals.sig_forall_dec and FunctionalExtensionality.functional_extensionality_dep (Coq.Reals). The graph theorems use vm_compute (n=6: ~90 s).")

claim("C14", "Coq theorems for every draw ('every stream'): Plackett-Luce / short PL ballots (length, no repeats, declared candidates, zero-support candidates only as the final tied group, completeness for name-PL), cumulative ballots distribute exactly num_votes points, table samplers, slate ballot types are arrangements of the slate multiset and slate ballots are complete, MCMC chain states are permutations of the seed, spatial ballots are stable sorts, AlternatingCrossover truncation characterised; common tail: per-bloc condense preserves weights, by-bloc profiles add up to the aggregate, total weight = sum of pool sizes, positive whole weights; per-bloc sizes exactly the apportioned sizes and aggregate exactly N under the run-checked contract of apportionment.compute (C14_sizes.v). Per-run correspondence of all 16 generator classes (IC/IAC through the recorded Dirichlet table, CambridgeSampler through its historical type table) under recorded numpy/random streams + well-formedness oracle.",
      COMMON_NOTE + "apportionment.compute (Huntington-Hill) is an external oracle: checked per run to be called with the documented proportions and N, to sum to N and to equal an independent call. ImpartialCulture/IAC (Dirichlet table) and CambridgeSampler (pickled data) have no Gallina model: oracle only. Known findings: AlternatingCrossover truncation, MCMC corner cases.")
claim("C16", "Coq theorems over finite rational distributions: Plackett-Luce law (mass 1, closed-form probability, support = what the model's core accepts), iid law for cumulative ballots, slate-type sampler = cohesion-weighted draws renormalised when a slate is used up (bin characterisation), exact samplers draw from the C15 tables, name-BT MCMC detailed balance and stationarity for all sizes, slate-BT MCMC detailed balance exactly for cohesion >= 1/2 (machine-checked refutation below 1/2), spatial ballots sorted by distance for every stream, AlternatingCrossover misalignment refuted with a witness. Per-run: the ARGUMENTS handed to the primitives (population aligned with p, size, replace, tables) are compared with the model's and with the documented parameters.",
      COMMON_NOTE + "Laws of numpy.random.choice / uniform / random.* and the Dirichlet mean (Impartial Culture) are trusted; no frequency test is used as a verdict. Known findings: AlternatingCrossover internal order, slate-BT MCMC below cohesion 1/2, CambridgeSampler at cohesion 0/1.")

PENDING_REASON = "check under construction in this round (model/proofs being built); will be claimed once its check is live"

checks = []
for pid in sorted(CLAIMED):
    c = CLAIMED[pid]
    checks.append({
        "property_id": pid,
        "quick_cmd": f"./check {pid} --tier quick",
        "thorough_cmd": f"./check {pid} --tier thorough",
        "evidence_file": f"/verif/evidence/{pid}.json",
        "replay_cmd_template": f"./check {pid} --replay {{path}}",
        "engine": "coq-model+correspondence",
        "level_claimed": {"category": "proof", "text": c["text"] + statement_files(pid), "design_ref": f"DESIGN.md section 7 ({pid})"},
        "level_note": c["note"],
        "technique": c["technique"],
    })
manifest = {
    "version": 1,
    "setup_cmd": "./setup.sh",
    "hooks": {"guard": "MGGG_VOTEKIT_VERIF",
              "enable": "no source hooks are used: checks import /repo/src directly (PYTHONPATH=/repo/src) and patch random/numpy.random from the harness",
              "baseline_off_cmd": "cd /repo && /venv/bin/python -m pytest -ra -q -p no:cacheprovider --timeout=900 --continue-on-collection-errors",
              "source_commits": [], "add_only": True},
    "engines": [{"name": "coq-model+correspondence", "path": "/verif/check",
                 "serves_properties": sorted(CLAIMED),
                 "kind_free_text": "Coq 8.16 development (coq/), extracted OCaml driver (ocaml/), Python differential harness (harness/)"}],
    "checks": checks,
    "not_applicable": [{"property_id": p["id"], "reason": PENDING_REASON} for p in props if p["id"] not in CLAIMED],
    "notes": "Genuine defects repaired in /repo by 'fix:' commits are listed as fixed in known_findings.json; recorded (unrepaired) ones as known.",
}
json.dump(manifest, open(os.path.join(VERIF, "MANIFEST.json"), "w"), indent=1)
print("claimed:", sorted(CLAIMED))
