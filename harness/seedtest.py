"""harness/seedtest.py <Cxx> [<Cyy> ...] — confirm a seeded change and run the checks against it.
For each id: collect patch/demo/notes from /tmp/wt_<id> into /verif/seeded/<id>/, confirm the demo
(exit 0 on /repo/src, exit 1 on the changed tree), apply the patch to /repo, run ./check <id> (and any
extra checks given as --also), undo the patch, and write meta.json."""
import sys, os, subprocess, json, shutil, argparse, time

ap = argparse.ArgumentParser()
ap.add_argument("ids", nargs="+")
ap.add_argument("--also", default="")
ap.add_argument("--tier", default="quick")
ap.add_argument("--wt", default=None)
ap.add_argument("--suffix", default="", help="store under seeded/<id><suffix>/ and read /tmp/wt<suffix-digit>_<id>")
a = ap.parse_args()
VERIF = os.path.dirname(os.path.dirname(os.path.abspath(__file__)))
props = {json.loads(l)["id"]: json.loads(l) for l in open(os.path.join(VERIF, "properties.jsonl"))}


def sh(cmd, **kw):
    return subprocess.run(cmd, shell=True, capture_output=True, text=True, **kw)


for pid in a.ids:
    wt = a.wt or {"_b": f"/tmp/wt2_{pid}", "_c": f"/tmp/wt3_{pid}", "_d": f"/tmp/wt4_{pid}", "_e": f"/tmp/wt5_{pid}", "_f": f"/tmp/wt6_{pid}"}.get(a.suffix, f"/tmp/wt_{pid}")
    d = os.path.join(VERIF, "seeded", pid + a.suffix)
    os.makedirs(d, exist_ok=True)
    if os.path.isdir(wt):
        diff = subprocess.run(f"git -C {wt} diff --binary -- src", shell=True, capture_output=True).stdout
        open(os.path.join(d, "patch.diff"), "wb").write(diff)      # bytes: some sources have CRLF line ends
        for f in (f"demo_{pid}.py", f"NOTES_{pid}.md"):
            if os.path.exists(os.path.join(wt, f)):
                shutil.copy(os.path.join(wt, f), os.path.join(d, f))
    patch = os.path.join(d, "patch.diff")
    demo = os.path.join(d, f"demo_{pid}.py")
    res = {"property": pid, "title": props[pid]["title"]}
    assert sh("git -C /repo status --porcelain").stdout.strip() == "", "/repo not clean"
    r0 = sh(f"VK_SRC=/repo/src MPLBACKEND=Agg timeout 600 /venv/bin/python {demo}")
    res["demo_on_original_exit"] = r0.returncode
    chk = sh(f"git -C /repo apply --check {patch}")
    if chk.returncode != 0:
        res["error"] = "patch does not apply: " + chk.stderr[-300:]
        json.dump(res, open(os.path.join(d, "meta.json"), "w"), indent=1)
        print(pid, res)
        continue
    sh(f"git -C /repo apply {patch}")
    try:
        r1 = sh(f"VK_SRC=/repo/src MPLBACKEND=Agg timeout 600 /venv/bin/python {demo}")
        res["demo_on_changed_exit"] = r1.returncode
        res["demo_output_changed"] = (r1.stdout + r1.stderr)[-600:]
        res["checks"] = {}
        for c in [pid] + [x for x in a.also.split(",") if x]:
            t0 = time.time()
            r = sh(f"cd {VERIF} && timeout 3000 ./check {c} --tier {a.tier}")
            lines = [l for l in r.stdout.split("\n") if l.startswith("VIOLATION")]
            res["checks"][c] = {"exit": r.returncode, "violation_lines": lines, "wall_s": round(time.time() - t0, 1)}
            for l in lines:
                rp = l.split("replay=")[1].split()[0]
                if os.path.exists(rp):
                    pl = json.load(open(rp))
                    res["checks"][c]["replay_kind"] = pl.get("kind")
                    res["checks"][c]["replay_failure"] = str(pl.get("failure") or pl.get("broken"))[:400]
                    shutil.copy(rp, os.path.join(d, f"replay_{c}.json"))
    finally:
        sh("git -C /repo checkout -- .")
    res["needs_to_manifest"] = "see NOTES"
    res["what_ran"] = f"demo with VK_SRC=/repo/src before/after `git -C /repo apply patch.diff`; ./check {pid} --tier {a.tier}" + (f" and {a.also}" if a.also else "")
    res["detected"] = any(v["exit"] == 1 and v["violation_lines"] for v in res["checks"].values())
    json.dump(res, open(os.path.join(d, "meta.json"), "w"), indent=1)
    print(pid, json.dumps({k: v for k, v in res.items() if k in ("demo_on_original_exit", "demo_on_changed_exit", "detected")}),
          {c: (v["exit"], v.get("replay_kind"), v.get("replay_failure", "")[:150]) for c, v in res["checks"].items()})
