#!/bin/bash
# run every claimed check once (quick tier) and summarise; development aid
cd "$(dirname "$0")/.."
for p in $(python3 -c "import json;print(' '.join(c['property_id'] for c in json.load(open('MANIFEST.json'))['checks']))") "$@"; do
  s=$(date +%s)
  out=$(./check $p --tier ${TIER:-quick} 2>&1)
  rc=$?
  e=$(( $(date +%s) - s ))
  v=$(echo "$out" | grep -c "^VIOLATION")
  k=$(echo "$out" | grep -c "^KNOWN-FINDING")
  echo "$p rc=$rc violations=$v known=$k ${e}s $(echo "$out" | grep '^VIOLATION' | head -1)"
done
