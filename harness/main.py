"""harness/main.py — entry point behind ./check."""
import sys, os, argparse, json
sys.setrecursionlimit(100000)
import common, engine


def main():
    ap = argparse.ArgumentParser()
    ap.add_argument("prop")
    ap.add_argument("--tier", default=os.environ.get("VERIF_TIER", "quick"), choices=["quick", "thorough"])
    ap.add_argument("--replay")
    ap.add_argument("--seed", type=int, default=int(os.environ.get("VERIF_SEED", "20260930")))
    a = ap.parse_args()
    common.load_impl()
    modname = a.prop
    if a.replay:
        import importlib
        mod = importlib.import_module(modname)
        payload = json.load(open(a.replay))
        case = payload.get("case") or (payload.get("disagreements") or [{}])[0].get("case")
        if case is None:
            print(json.dumps(payload, indent=1)); return 0
        r = engine._worker((modname, case))
        print("case:", json.dumps(case, default=str))
        print("oracle failures:", r.get("oracle"))
        mc = [(m["op"], m["arg"]) for m in r.get("model", [])]
        outs = common.run_model(mc)
        for m, o in zip(r.get("model", []), outs):
            post = getattr(mod, "model_post", None)
            o2 = post(m, o) if post else o
            print("--", m.get("what"))
            print("   impl :", common.show(m["expect"]))
            print("   model:", common.show(o2))
            print("   agree:", common.canon(o2) == common.canon(m["expect"]))
        return 1 if r.get("oracle") else 0
    chk = engine.Check(a.prop, modname, a.tier, a.seed)
    return chk.run()


if __name__ == "__main__":
    sys.exit(main())
