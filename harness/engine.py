"""harness/engine.py — the decision procedure shared by all property checks (DESIGN.md §4).

    build+proof step ok?  --no-->  obligation broken --+
    correspondence agrees? --no--> tie broken ---------+--> SEARCH (oracle on all cases)
    oracle fails on a case (impl violates the property text) --> VIOLATION with that replay
    otherwise exit 0
"""
from __future__ import annotations
import os, sys, re, json, time, subprocess, random, importlib, traceback, fcntl
from collections import Counter
from fractions import Fraction
import multiprocessing as mp

import common
from common import VERIF, COQDIR, WORK, canon, show, Err, S

FORBIDDEN = re.compile(
    r"\b(Admitted|admit|Axiom|Axioms|Parameter|Parameters|Conjecture|Hypothesis|Variables?)\b"
    r"|Unset\s+Guard|bypass_check|type-in-type|impredicative-set|Admit\s+Obligations")


# ------------------------------------------------------------------ build + proof step
def build(log):
    """(Re)build the Coq development, extraction and the OCaml driver.  Returns (ok, message)."""
    os.makedirs(WORK, exist_ok=True)
    with open(os.path.join(WORK, "build.lock"), "w") as lock:
        fcntl.flock(lock, fcntl.LOCK_EX)
        p = subprocess.run([os.path.join(VERIF, "build.sh")], capture_output=True, text=True,
                           timeout=3600)
        log.append(p.stdout[-3000:] + p.stderr[-3000:])
        return p.returncode == 0, (p.stdout + p.stderr)[-3000:]


def strip_coq_comments(text):
    """Blank out (possibly nested, possibly multi-line) Coq comments, keeping the line structure; string
    literals are left alone (a "(*" inside a string does not open a comment)."""
    out, depth, i, n, in_str = [], 0, 0, len(text), False
    while i < n:
        ch = text[i]
        if depth == 0 and ch == '"':
            in_str = not in_str
            out.append(ch)
            i += 1
        elif not in_str and text.startswith("(*", i):
            depth += 1
            out.append("  ")
            i += 2
        elif not in_str and depth > 0 and text.startswith("*)", i):
            depth -= 1
            out.append("  ")
            i += 2
        else:
            out.append(ch if depth == 0 or ch == "\n" else " ")
            i += 1
    return "".join(out)


def scan_forbidden():
    """grep the development for declarations that would add to the trusted base."""
    hits = []
    listed = {l.strip() for l in open(os.path.join(COQDIR, "_CoqProject"), encoding="utf8") if l.strip().endswith(".v")}
    for root, _, files in os.walk(COQDIR):
        for fn in files:
            if not fn.endswith(".v"):
                continue
            path = os.path.join(root, fn)
            rel = os.path.relpath(path, COQDIR)
            if rel not in listed and not rel.startswith(("Extract", "Generated")):
                continue            # not part of the development (work in progress, never built)
            in_section = 0
            for i, code in enumerate(strip_coq_comments(open(path, encoding="utf8").read()).split("\n"), 1):
                line = code
                if re.match(r"\s*Section\b", code):
                    in_section += 1
                if re.match(r"\s*End\b", code) and in_section:
                    in_section -= 1
                m = FORBIDDEN.search(code)
                if m:
                    word = m.group(0)
                    # Variable/Hypothesis are fine inside a Section
                    if re.match(r"Variables?|Hypothesis", word) and in_section:
                        continue
                    if word.startswith("Axioms"):  # "Axioms:" only appears in comments/outputs
                        continue
                    hits.append(f"{os.path.relpath(path, COQDIR)}:{i}: {line.strip()}")
    return hits


def proof_step(prop_id):
    """Compile Properties/<id>.v and Properties/<id>_*.v on their own and parse Print Assumptions.
    Returns dict(obligations, discharged, theorems, assumptions, ok, output)."""
    import glob
    paths = sorted(glob.glob(os.path.join(COQDIR, "Properties", prop_id + ".v")) +
                   glob.glob(os.path.join(COQDIR, "Properties", prop_id + "_*.v")))
    # only the statement files that are part of the development (listed in _CoqProject, hence built and
    # checked by `make`); a file that exists on disk but is not listed is work in progress
    listed = {l.strip() for l in open(os.path.join(COQDIR, "_CoqProject"), encoding="utf8") if l.strip().endswith(".v")}
    paths = [x for x in paths if os.path.relpath(x, COQDIR) in listed]
    if not paths:
        return dict(ok=False, obligations=0, discharged=0, theorems=[], assumptions={},
                    output="missing Properties/%s.v" % prop_id, files=[])
    theorems, assumptions, outputs, ok_all, discharged = [], {}, [], True, 0
    for path in paths:
        src = open(path, encoding="utf8").read()
        src_nc = re.sub(r"\(\*.*?\*\)", "", src, flags=re.S)
        ths = re.findall(r"^\s*(?:Theorem|Lemma|Corollary)\s+([A-Za-z0-9_']+)", src_nc, flags=re.M)
        p = subprocess.run(["coqc", "-Q", COQDIR, "VK", path], capture_output=True, text=True,
                           timeout=1800, cwd=COQDIR)
        blocks = re.split(r"(?=Closed under the global context|Axioms:)", p.stdout)
        printed = [b for b in blocks if b.startswith("Closed") or b.startswith("Axioms:")]
        order = re.findall(r"Print\s+Assumptions\s+([A-Za-z0-9_']+)", src_nc)
        for name, blk in zip(order, printed):
            if blk.startswith("Closed"):
                assumptions[name] = []
            else:
                assumptions[name] = re.findall(r"^\s*([A-Za-z0-9_.']+)\s*:", blk[len("Axioms:"):], flags=re.M)
        theorems += ths
        ok = p.returncode == 0
        ok_all = ok_all and ok
        if ok:
            discharged += len(ths)
        else:
            outputs.append(os.path.basename(path) + ": " + (p.stdout + p.stderr)[-2500:])
    return dict(ok=ok_all, obligations=len(theorems), discharged=discharged, theorems=theorems,
                assumptions=assumptions, output="\n".join(outputs),
                files=[os.path.relpath(x, COQDIR) for x in paths])


# ------------------------------------------------------------------ worker side
_mod_cache = {}


def _worker(args):
    modname, case = args
    try:
        common.load_impl()
        mod = _mod_cache.get(modname)
        if mod is None:
            mod = importlib.import_module(modname)
            _mod_cache[modname] = mod
        return mod.run_case(case)
    except BaseException as e:  # noqa
        return {"infra_error": f"{type(e).__name__}: {e}\n{traceback.format_exc()[-1500:]}"}


def run_impl_cases(modname, cases, nproc=16):
    if len(cases) <= 4:
        return [_worker((modname, c)) for c in cases]
    ctx = mp.get_context("fork")
    with ctx.Pool(nproc) as pool:
        return pool.map(_worker, [(modname, c) for c in cases], chunksize=max(1, len(cases) // (nproc * 8)))


# ------------------------------------------------------------------ known findings
def load_known():
    path = os.path.join(VERIF, "known_findings.json")
    if not os.path.exists(path):
        return []
    return json.load(open(path))


# ------------------------------------------------------------------ the check
class Check:
    """One run of one property's check."""

    def __init__(self, prop_id, modname, tier, seed):
        self.prop_id, self.modname, self.tier, self.seed = prop_id, modname, tier, seed
        self.t0 = time.time()
        self.log = []
        self.violations = []     # list of (replay_path, suffix)
        self.known_seen = Counter()
        self.inconclusive = 0
        self.model_timeouts = 0
        self.mod = importlib.import_module(modname)

    # -- reporting
    def write_replay(self, kind, payload):
        d = os.path.join(VERIF, "replays", self.prop_id)
        os.makedirs(d, exist_ok=True)
        path = os.path.join(d, f"{kind}_{common.sha(payload)}.json")
        with open(path, "w") as f:
            json.dump(payload, f, indent=1, default=str)
        return path

    def run(self):
        prop_id, mod = self.prop_id, self.mod
        known = [k for k in load_known() if k.get("property") == prop_id and k.get("status") == "known"]
        known_ids = {k["id"]: k for k in known}
        broken = []          # names of obligations / correspondences that no longer check

        # 1. build + proof step
        ok, msg = build(self.log)
        if not ok:
            broken.append({"obligation": "build", "detail": msg[-1500:]})
        forb = scan_forbidden()
        if forb:
            broken.append({"obligation": "no-axioms-scan", "detail": forb[:20]})
        proof = proof_step(prop_id) if ok else dict(ok=False, obligations=0, discharged=0, theorems=[],
                                                     assumptions={}, output="build failed")
        if ok and not proof["ok"]:
            broken.append({"obligation": f"Properties/{prop_id}.v", "detail": proof["output"][-1500:]})
        if not os.path.exists(common.DRIVER):
            print("BROKEN-INFRASTRUCTURE: model driver missing and build failed:\n" + msg[-1500:])
            # without a driver no correspondence is possible
            self.finish(proof, {}, [], broken, fatal=True)
            return 1

        # 2. cases: corpus first, then generated
        rng = random.Random(self.seed)
        cases = list(mod.corpus_cases()) if hasattr(mod, "corpus_cases") else []
        n_corpus = len(cases)
        cases += mod.gen_cases(rng, self.tier)
        results = run_impl_cases(self.modname, cases)
        infra = [r for r in results if "infra_error" in r]
        if infra:
            # the harness could not evaluate these cases (typically: the implementation returned something of
            # an unexpected shape).  On the unchanged tree this never happens; when it does, the
            # correspondence is no longer established for those inputs: reported as a broken obligation
            # (VIOLATION ... no-failing-input-found unless an oracle failure is found elsewhere), and
            # the remaining cases are still evaluated.
            print("HARNESS-ERROR on %d cases; first:\n%s" % (len(infra), infra[0]["infra_error"][-1500:]))
            bad_idx = [k for k, r in enumerate(results) if "infra_error" in r]
            broken.append({"obligation": "correspondence harness could not evaluate %d case(s)" % len(infra),
                           "detail": infra[0]["infra_error"][-1500:], "first_case": cases[bad_idx[0]]})
            results = [r if "infra_error" not in r else {"model": [], "oracle": [], "tags": ["harness-error"], "nontrivial": False}
                       for r in results]

        # 3. model side
        mcases, owner = [], []
        for i, r in enumerate(results):
            for j, mc in enumerate(r.get("model", [])):
                mcases.append((mc["op"], mc["arg"]))
                owner.append((i, j))
        mouts = common.run_model_parallel(mcases)
        disagreements = []
        n_compared = 0
        for (i, j), mo in zip(owner, mouts):
            exp = results[i]["model"][j]
            if isinstance(mo, str) and mo == common.MODEL_TIMEOUT:
                self.model_timeouts += 1
                continue
            n_compared += 1
            post = getattr(mod, "model_post", None)
            mo2 = post(exp, mo) if post else mo
            if canon(mo2) != canon(exp["expect"]):
                # the implementation raised while iterating a tied group in hash order before making
                # all the draws the model (list order) needs: the recorded script is too short to
                # decide; counted, never an alarm (DESIGN.md, "inconclusive replays")
                if exp.get("inconclusive_ok") and isinstance(exp["expect"], Err) and mo2 == Err("EScript"):
                    self.inconclusive += 1
                    continue
                kf = mod.known_finding(cases[i], "disagree", exp.get("what", "")) if hasattr(mod, "known_finding") else None
                if kf and kf in known_ids:
                    self.known_seen[kf] += 1
                    continue
                disagreements.append({"case": cases[i], "what": exp.get("what", ""),
                                      "impl": show(exp["expect"]), "model": show(mo2)})

        # 4. oracle failures (the property text evaluated on the implementation)
        failures = []
        for c, r in zip(cases, results):
            for f in r.get("oracle", []):
                kf = mod.known_finding(c, "oracle", f) if hasattr(mod, "known_finding") else None
                if kf and kf in known_ids:
                    self.known_seen[kf] += 1
                    continue
                failures.append({"case": c, "failure": f})

        # 5. kernel cross-check on a sample
        kc_n = 60 if self.tier == "quick" else 300
        sample_idx = sorted(rng.sample(range(len(mcases)), min(kc_n, len(mcases)))) if mcases else []
        kc_checked, kc_bad, kc_detail = common.kernel_crosscheck([mcases[i] for i in sample_idx], prop_id)
        if kc_bad:
            broken.append({"obligation": "kernel-crosscheck (extraction vs vm_compute)", "detail": kc_detail or f"{kc_bad} mismatches"})

        # 6. verdict
        rc = 0
        if failures:
            f0 = self.shrink_failure(failures[0])
            path = self.write_replay("violation", {"property": prop_id, "kind": "property-fails-on-implementation",
                                                   "failure": f0["failure"], "case": f0["case"],
                                                   "n_failing_cases": len(failures)})
            print(f"VIOLATION property={prop_id} replay={path}")
            rc = 1
        elif disagreements or broken:
            payload = {"property": prop_id, "kind": "obligation-or-correspondence-broken",
                       "broken": broken, "n_disagreements": len(disagreements),
                       "disagreements": disagreements[:5],
                       "note": "the property oracle held on every generated input; the theorem/correspondence named here no longer checks"}
            path = self.write_replay("broken", payload)
            print(f"VIOLATION property={prop_id} replay={path} no-failing-input-found")
            rc = 1
        for kid, n in sorted(self.known_seen.items()):
            print(f"KNOWN-FINDING: property={prop_id} {kid}: {known_ids[kid]['what']} (seen on {n} cases)")
        for kid in known_ids:
            if kid not in self.known_seen:
                # still print the listed finding if its recorded witness reproduces
                pass
        stats = dict(n_cases=len(cases), n_corpus=n_corpus, n_compared=n_compared,
                     n_disagreements=len(disagreements), n_oracle_failures=len(failures),
                     kc_checked=kc_checked, kc_bad=kc_bad)
        self.finish(proof, stats, list(zip(cases, results)), broken, violations=1 if rc else 0)
        return rc

    def shrink_failure(self, f):
        shr = getattr(self.mod, "shrink", None)
        if not shr:
            return f
        try:
            best = f
            for _ in range(200):
                progressed = False
                for cand_case in shr(best["case"]):
                    r = _worker((self.modname, cand_case))
                    fs = r.get("oracle", []) if isinstance(r, dict) else []
                    if fs:
                        best = {"case": cand_case, "failure": fs[0]}
                        progressed = True
                        break
                if not progressed:
                    break
            return best
        except Exception:
            return f

    def finish(self, proof, stats, pairs, broken, violations=0, fatal=False):
        mod = self.mod
        hist = Counter()
        distinct = set()
        for c, r in pairs:
            for t in r.get("tags", []):
                hist[t] += 1
            if r.get("nontrivial"):
                distinct.add(common.sha(c))
        samples = []
        for c, r in pairs[:3]:
            samples.append({"case": c, "tags": r.get("tags", []),
                            "impl_vs_model": [m.get("what", "") for m in r.get("model", [])]})
        for name in proof.get("theorems", [])[:40]:
            samples.append({"theorem": name, "assumptions": proof.get("assumptions", {}).get(name, "not printed")})
        axioms = sorted({a for l in proof.get("assumptions", {}).values() for a in l})
        tb = ["Coq 8.16.1 kernel (coqc); vm_compute used in reflective proofs and the kernel cross-check; no native_compute",
              "axioms reported by Print Assumptions under the property theorems: " + (", ".join(axioms) if axioms else "none (Closed under the global context)"),
              "hand-written Gallina model tied to /repo/src by this run's correspondence (extraction via ExtrOcamlBasic + ocaml/driver.ml, cross-checked against vm_compute)",
              "harness: generators, canonicalisation, recorder shim (harness/*.py)"]
        tb += getattr(mod, "TRUSTED", [])
        ev = {
            "property_id": self.prop_id, "tier": self.tier, "seed": self.seed, "level": "proof",
            "coverage": {
                "obligations": max(1, proof.get("obligations", 0)),
                "discharged": proof.get("discharged", 0),
                "checker_cmd": "./build.sh (full make of coq/_CoqProject) && " + " && ".join("coqc -Q coq VK coq/" + f for f in proof.get("files", [f"Properties/{self.prop_id}.v"])),
                "trusted_base": tb,
                "theorems": proof.get("theorems", []),
                "assumptions_per_theorem": proof.get("assumptions", {}),
                "evaluations": stats.get("n_cases", 0),
                "traces_validated_against_impl": stats.get("n_compared", 0),
                "distinct_nontrivial": len(distinct),
                "rule": getattr(mod, "RULE", ""),
                "input_histogram": dict(hist.most_common(60)),
                "samples": samples,
                "kernel_crosscheck": {"checked": stats.get("kc_checked", 0), "mismatches": stats.get("kc_bad", 0)},
                "disagreements": stats.get("n_disagreements", 0),
                "oracle_failures": stats.get("n_oracle_failures", 0),
                "broken_obligations": broken,
                "known_findings_seen": dict(self.known_seen),
                "oracle_only_subclaims": getattr(mod, "ORACLE_ONLY", []),
                "corpus_cases": stats.get("n_corpus", 0),
                "inconclusive_replays": self.inconclusive,
                "model_timeouts": self.model_timeouts,
            },
            "assumptions": getattr(mod, "ASSUMPTIONS", []),
            "wall_s": round(time.time() - self.t0, 2),
            "violations": violations,
        }
        os.makedirs(os.path.join(VERIF, "evidence"), exist_ok=True)
        with open(os.path.join(VERIF, "evidence", self.prop_id + ".json"), "w") as f:
            json.dump(ev, f, indent=1, default=str)
