"""C16 — generated ballots follow the documented model distributions."""
from __future__ import annotations
from fractions import Fraction
import itertools
import numpy as np
import common, vk, gen, ref, genlib, C14
from common import S, Err, Names, call_impl

RULE = ("the parameter sets of C14 x seeded random streams recorded at the numpy/random primitives; the verdict is on the "
        "ARGUMENTS each generator hands to the primitives (population, probability vector aligned with the population, "
        "size, with/without replacement, tables) compared with the model's and with the documented distribution's "
        "parameters, and on the deterministic core applied to the recorded results; the spatial claim is checked for every "
        "voter of every stream. No frequency test is used as a verdict. Non-trivial = at least one recorded primitive call "
        "with >= 2 outcomes of positive probability; distinct by canonical JSON")
TRUSTED = ["laws of numpy.random.choice (p, replace), numpy.random.uniform, random.random/choices/shuffle; Dirichlet mean for Impartial Culture"]
ORACLE_ONLY = ["ImpartialCulture / ImpartialAnonymousCulture: the Dirichlet draw is a trusted primitive; checked: its parameter vector (alpha = 1e20 / 1 over all n! rankings), 'uniform up to 1e-6' (IC), and that the recorded draw is the table handed to the sampler (model)",
               "CambridgeSampler with the packaged data: the table reaches the model compressed"]
model_post = C14.model_post


def known_finding(case, kind, detail):
    d = str(detail)
    g = case["gen"]
    k = C14.known_finding(case, kind, detail)
    if k:
        return k
    if g == "CambridgeSampler" and "bloc-first ballots" in d and any(case["cohesion"][b][b] in (0.0, 1.0) for b in case["blocs"]):
        return "cambridge-cohesion-endpoints"
    if g == "AlternatingCrossover" and "misaligned" in d:
        return "ac-internal-order-misaligned"
    if g == "slate_BT_MCMC" and "acceptance probability above 1" in d:
        return "slate-bt-mcmc-cohesion-below-half"
    return None


def gen_cases(rng, tier):
    n = 450 if tier == "quick" else 6000
    return [genlib.gen_case(rng) for _ in range(n)]


def close(x, q):
    return abs(float(x) - float(q)) <= 1e-9 * max(1.0, abs(float(q)))


def check_pl_call(e, interval, what, oracle, replace=False, size=None):
    """np.random.choice(cands, k, p, replace): population = the interval's candidates, p aligned."""
    if e["kind"] != "np_choice" or e["p"] is None:
        oracle.append(f"{what}: expected a weighted numpy choice, got {e['kind']}")
        return
    if bool(e["replace"]) != replace:
        oracle.append(f"{what}: sampling {'with' if e['replace'] else 'without'} replacement")
    pop = [str(c) for c in e["a"]]
    if set(pop) != set(interval) or len(pop) != len(set(pop)):
        oracle.append(f"{what}: population {sorted(pop)} is not the supported candidates {sorted(interval)}")
        return
    for c, p in zip(pop, e["p"]):
        if c not in interval or not close(p, interval[c]):
            oracle.append(f"{what}: probability vector misaligned with the population ({c} drawn with {p}, its support share is {float(interval[c])})")
            return
    if size is not None and (e["size"] if e["size"] is not None else 1) != size:
        oracle.append(f"{what}: draws {e['size']} items instead of {size}")


def run_case(case):
    common.load_impl()
    run = genlib.run_generator(case)
    g = case["gen"]
    tags = ["gen:" + g, f"N:{case['N']}"]
    oracle, model = [], []
    if isinstance(run["gen"], Err) or isinstance(run.get("out"), Err):
        o = run["gen"] if isinstance(run["gen"], Err) else run["out"]
        if g != "CambridgeSampler":
            oracle.append(f"generate_profile raised {o}" if not isinstance(run["gen"], Err) else f"valid parameters rejected at construction: {o}")
        return {"model": [], "oracle": oracle, "tags": tags, "nontrivial": False}
    try:
        mc = genlib.model_call(case, run)
    except (IndexError, KeyError, StopIteration, ValueError) as e:
        mc = None
        oracle.append(f"the recorded primitive calls do not have the documented shape for {g}: {type(e).__name__} {e}")
    if mc:
        mc.pop("names", None)
        model.append(mc)
    log = run["log"]
    choices = [e for e in log if e["kind"] == "np_choice"]
    nontrivial = any(e.get("p") is not None and sum(1 for x in e["p"] if x > 0) >= 2 for e in choices)
    out = run["out"]
    if g in ("name_PL", "short_name_PL", "name_Cumulative"):
        sizes = run["apportion"][0]["result"]
        pos = 0
        bl = case.get("ballot_length", sum(len(v) for v in case["slates"].values()))
        for b, n in zip(case["blocs"], sizes):
            iv, zero = genlib.exact_combined(case, b)
            for _ in range(n):
                if g == "name_Cumulative":
                    check_pl_call(choices[pos], iv, f"bloc {b}", oracle, replace=True, size=case["num_votes"])
                    pos += 1
                else:
                    check_pl_call(choices[pos], iv, f"bloc {b}", oracle, replace=False, size=min(bl, len(iv)))
                    pos += 1
                    if bl > len(iv):
                        e = choices[pos]
                        if e["p"] is not None or e["replace"] or set(map(str, e["a"])) != set(zero):
                            oracle.append("zero-support candidates are not drawn uniformly without replacement from the zero set")
                        pos += 1
                if oracle:
                    break
    elif g in ("slate_PL", "slate_BT", "slate_BT_MCMC"):
        for e in choices:
            if isinstance(e["a"], int):
                continue
            pop = set(map(str, e["a"]))
            owner = None
            for b in case["blocs"]:
                for b2 in case["blocs"]:
                    iv, _ = genlib.exact_interval(case["intervals"][b][b2])
                    if pop == set(iv) and all(str(c) in iv and close(p, iv[str(c)]) for c, p in zip(e["a"], e["p"])):
                        owner = (b, b2)
            if owner is None:
                oracle.append("a within-slate order was not drawn by Plackett-Luce from a voter bloc's interval for that slate (population/probabilities misaligned)")
                break
            if e["replace"] or e["size"] != len(pop):
                oracle.append("within-slate order is not a full sample without replacement")
                break
        if g == "slate_PL":
            un = [e for e in log if e["kind"] == "np_uniform"]
            sizes = run["apportion"][0]["result"]
            for b, n, e in zip(case["blocs"], sizes, un):
                zero = {c for b2 in case["blocs"] for c, v in case["intervals"][b][b2].items() if v == 0}
                ncand = sum(1 for b2 in case["blocs"] for c in case["slates"][b2] if c not in zero)
                if int(e["size"]) != ncand * n or e["low"] != 0.0 or e["high"] != 1.0:
                    oracle.append("slate pattern flips are not one U(0,1) draw per ballot position")
        if g == "slate_BT":
            for b in case["blocs"]:
                tbl = run["gen"].ballot_type_pdf[b]
                opp = [x for x in case["blocs"] if x != b][0]
                c = Fraction(case["cohesion"][b][b])
                sz = {b2: sum(1 for v in case["intervals"][b][b2].values() if v > 0) for b2 in case["blocs"]}
                want = {}
                for t in set(itertools.permutations([b] * sz[b] + [opp] * sz[opp])):
                    s = sum(t[i + 1:].count(opp) for i, x in enumerate(t) if x == b)
                    want[t] = c ** s * (1 - c) ** (sz[b] * sz[opp] - s)
                z = sum(want.values())
                if z and (set(tbl) != set(want) or any(not close(tbl[t], want[t] / z) for t in want)):
                    oracle.append("slate-BT ballot types are not drawn from the documented table")
        if g == "slate_BT_MCMC":
            for b in case["blocs"]:
                c = case["cohesion"][b][b]
                if 0 < c < 0.5:
                    oracle.append("slate-BT MCMC uses an acceptance probability above 1 for cohesion < 1/2: its stationary distribution is not the documented one")
                    break
    elif g == "name_BT":
        for b, e in zip(case["blocs"], choices):
            iv, zero = genlib.exact_combined(case, b)
            keys = list(run["gen"].pdfs_by_bloc[b].keys())
            want = {}
            for perm in keys:
                p = Fraction(1)
                for i in range(len(perm)):
                    for j in range(i + 1, len(perm)):
                        p *= iv[perm[i]] / (iv[perm[i]] + iv[perm[j]])
                want[perm] = p
            z = sum(want.values())
            if set(keys) != set(itertools.permutations(list(iv))) or any(not close(p, want[k] / z) for k, p in zip(keys, e["p"])):
                oracle.append("exact name-BT rankings are not drawn from the documented probability table")
    elif g == "name_BT_MCMC":
        pass        # the chain's transitions are replayed by the model (correspondence); stationarity is the theorem
    elif g in ("ImpartialCulture", "from_point"):
        e = choices[0]
        k = len(case["cands"])
        if e["a"] != len(list(itertools.permutations(case["cands"]))):
            oracle.append("the table does not range over all complete rankings")
        if g == "ImpartialCulture" and any(abs(p - 1.0 / e["a"]) > 1e-6 for p in e["p"]):
            oracle.append("Impartial Culture does not draw uniformly over complete rankings")
    elif g == "ImpartialAnonymousCulture":
        e = choices[0]
        if abs(sum(e["p"]) - 1) > 1e-9 or any(p < 0 for p in e["p"]):
            oracle.append("IAC table is not a probability vector")
    if g in ("ImpartialCulture", "ImpartialAnonymousCulture") and choices:
        ds = [x for x in run["log"] if x["kind"] == "dirichlet"]
        nfact = len(list(itertools.permutations(case["cands"])))
        want_alpha = 1e20 if g == "ImpartialCulture" else 1.0
        if len(ds) != 1 or ds[0]["alpha"] != [want_alpha] * nfact:
            oracle.append(f"the ballot-simplex point is not one Dirichlet({want_alpha:g}, ..., {want_alpha:g}) draw over all {nfact} complete rankings")
        elif [float(x) for x in ds[0]["result"]] != [float(x) for x in choices[0]["p"]]:
            oracle.append("the probability table handed to the sampler is not the Dirichlet draw")
    elif g == "AlternatingCrossover":
        ap = run["apportion"][0]
        pos = 0
        for i, b in enumerate(case["blocs"]):
            n_bloc, n_cross = ap["result"][2 * i], ap["result"][2 * i + 1]
            opp = case["blocs"][(i + 1) % 2]
            ivb, _ = genlib.exact_interval(case["intervals"][b][b])
            ivo, _ = genlib.exact_interval(case["intervals"][b][opp])
            # bloc-first vs opposing-first ballots in the apportioned split
            by = (run.get("by_bloc") or {}).get(b)
            first_own = sum(bl.weight for bl in by.ballots if next(iter(bl.ranking[0])) in ivb) if by is not None else n_bloc
            if n_bloc + n_cross and first_own != n_bloc and len(ivb) and len(ivo):
                oracle.append(f"bloc {b}: {first_own} bloc-first ballots, apportioned {n_bloc}")
            for _ in range(n_bloc + n_cross):
                for e, iv in ((choices[pos], ivb), (choices[pos + 1], ivo)):
                    for c, p in zip(e["a"], e["p"]):
                        if str(c) not in iv or not close(p, iv[str(c)]):
                            oracle.append("within-slate Plackett-Luce draw misaligned: a candidate is drawn with another candidate's support (population reordered by the previous ballot)")
                            break
                pos += 2
                if oracle:
                    break
    elif g == "CambridgeSampler":
        # bloc-first versus opposing-first ballots in the apportioned cohesion split
        aps = run["apportion"]
        props = [x for b in case["blocs"] for x in (case["cohesion"][b][b] * case["props"][b], (1 - case["cohesion"][b][b]) * case["props"][b])]
        if len(aps) != 1 or [round(x, 12) for x in aps[0]["props"]] != [round(x, 12) for x in props] or aps[0]["n"] != case["N"]:
            oracle.append("bloc-first / opposing-first counts are not one Huntington-Hill apportionment of N by cohesion*share and (1-cohesion)*share")
        else:
            import apportionment.methods as A
            want = [int(x) for x in A.compute("huntington", props, case["N"])]
            for i, b in enumerate(case["blocs"]):
                own = set(case["slates"][b])
                by = (run.get("by_bloc") or {}).get(b)
                if by is None:
                    continue
                first_own = sum(bl.weight for bl in by.ballots if bl.ranking and next(iter(bl.ranking[0])) in own)
                total = by.total_ballot_wt
                if total != want[2 * i] + want[2 * i + 1]:
                    oracle.append(f"bloc {b}: {total} ballots, apportioned {want[2 * i] + want[2 * i + 1]}")
                elif first_own != want[2 * i] and all(len([c for c, v in case["intervals"][b][b2].items() if v > 0]) for b2 in case["blocs"]):
                    oracle.append(f"bloc {b}: {first_own} bloc-first ballots, the apportioned cohesion split gives {want[2 * i]}")
        nontrivial = True
    elif g in ("OneDimSpatial", "Spatial", "ClusteredSpatial"):
        pass        # decided by the model correspondence: ballots = candidates stably sorted by recorded distance
    return {"model": model, "oracle": oracle[:3], "tags": tags, "nontrivial": nontrivial}
