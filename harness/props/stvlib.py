"""Shared pieces for the STV-family properties (C01, C02, C03, C07, C13): case generation,
running a case on the implementation + building the model call, and an independent reference
count written from the property text (used as oracle / failing-input search)."""
from __future__ import annotations
from fractions import Fraction
import math
import common, vk, rules, gen
from common import S, Err, Names


def gen_stv_cases(rng, n, rules_=("STV", "STV", "STV", "IRV", "SequentialRCV"), transfers=("fractional", "fractional", "random"),
                  quotas=("droop", "droop", "droop", "hare"), tiebreaks=(None, None, "random", "borda", "first_place", "random")):
    cases = []
    for i in range(n):
        r = rng.random()
        if r < 0.45:
            jp, m, kind = gen.stv_boundary_profile(rng)
            fam = "boundary:" + kind
        elif r < 0.6:
            jp = next(gen.small_scope_profiles(rng, n_cands=3, n_distinct=3, count=1))
            m = rng.randint(1, 3)
            fam = "small"
        else:
            weights = "mixed"
            jp, names = gen.ranked_profile(rng, ties=False, weights=weights)
            ncand = len(names)
            m = rng.randint(1, ncand)
            fam = "random"
            if ncand >= 6:
                # the model's Q arithmetic is unreduced: denominators near 10^6 compounded over six or
                # more fractional transfers make one model run take minutes (the implementation is
                # unaffected); such weights stay in the profiles with at most five candidates
                for b in jp["ballots"]:
                    if b["w"] in gen.W_FINE:
                        b["w"] = rng.choice(gen.W_RAT)
        rule = rng.choice(rules_)
        cfg = {"quota": rng.choice(quotas), "tiebreak": rng.choice(tiebreaks)}
        if rule != "IRV":
            cfg["m"] = m
            cfg["simultaneous"] = rng.random() < 0.6
        if rule == "STV":
            cfg["transfer"] = rng.choice(transfers)
            if cfg["transfer"] == "random":
                # integer weights only (the documented domain of the random transfer)
                for b in jp["ballots"]:
                    w = Fraction(b["w"])
                    b["w"] = str(min(40, max(1, math.ceil(w))))
        cases.append({"rule": rule, "cfg": cfg, "profile": jp, "seed": rng.randrange(1 << 30), "family": fam})
    return cases


def run_stv_case(case):
    """Run on the implementation; return (info dict, model call)."""
    info = rules.run_election(case)
    nm, rec, el, prof = info["nm"], info["rec"], info["election"], info["profile"]
    if isinstance(prof, Err):
        return info, None
    script, calls = rules.script_from_log(nm, rec.log, order=list(prof.candidates))
    arg = [rules.stv_cfg_val(case["rule"], case["cfg"]), vk.jp_val(nm, case["profile"], cands=list(prof.candidates)), script]
    if isinstance(el, Err):
        expect = el
    else:
        expect = [vk.states_val(nm, el.election_states), calls, 0]
    info["script"], info["calls"] = script, calls
    inc = case["cfg"].get("transfer") == "random" and case["cfg"].get("simultaneous", True)
    return info, {"op": rules.OP_STV, "arg": arg, "expect": expect, "what": "election_states+random calls",
                  "inconclusive_ok": inc}


def model_post(exp, mo):
    """Normalise the model's call log the same way as the recorder's."""
    if exp.get("what", "").startswith("election_states") and isinstance(mo, list) and len(mo) == 3 and isinstance(mo[1], list):
        return [mo[0], rules.norm_calls(mo[1]), mo[2]]
    return mo


def tags_for(case, el):
    t = [f"rule:{case['rule']}", f"family:{case.get('family')}", f"quota:{case['cfg'].get('quota')}",
         f"tiebreak:{case['cfg'].get('tiebreak')}", f"transfer:{case['cfg'].get('transfer', '-')}",
         f"ncands:{len(rules.all_names(case['profile']))}", f"nballots:{len(case['profile']['ballots'])}"]
    if isinstance(el, Err):
        t.append("outcome:" + repr(el))
    else:
        t.append("rounds:%d" % (len(el.election_states) - 1))
        if any(s.tiebreaks for s in el.election_states):
            t.append("has_tiebreak")
    return t
