"""C15 — closed-form model probabilities equal their definitions."""
from __future__ import annotations
from fractions import Fraction
import itertools, math, warnings
import common, vk, gen, ref
from common import S, Err, Names, call_impl

RULE = ("preference intervals with 1-7 candidates, supports spanning six orders of magnitude (dyadic floats so the "
        "exact rational value of every input is known), zero supports; combinations of 1-3 intervals with "
        "proportions incl. 0 and 1; name-Bradley-Terry tables for 1-6 candidates; slate-Bradley-Terry ballot-type "
        "tables for all slate-size combinations with <= 7 candidates and cohesion in (0,1) and at the ends. The "
        "implementation's floats are compared with the exact model value within 1e-9 relative. Non-trivial = >= 2 "
        "candidates with different supports, or a zero support / zero proportion; distinct by canonical JSON")
TRUSTED = ["numpy/Python float arithmetic: rounding error below the 1e-9 comparison tolerance"]
ORACLE_ONLY = ["float tables vs exact rational tables within 1e-9"]

SUPPORTS = [1.0, 2.0, 0.5, 0.25, 3.0, 0.125, 1024.0, 0.0009765625, 5.0, 7.0, 0.0, 0.0, 100.0, 1.5]
COHESION = [0.5, 0.75, 0.25, 0.875, 0.625, 0.9375, 1.0, 0.0, 0.125]


def close(x, q, tol=1e-9):
    q = float(q)
    return abs(float(x) - q) <= tol * max(1e-300, abs(q)) or abs(float(x) - q) <= 1e-15


def gen_cases(rng, tier):
    n = 400 if tier == "quick" else 5000
    cases = []
    for i in range(n):
        r = rng.random()
        if r < 0.3:
            k = rng.randint(1, 7)
            cases.append({"kind": "interval", "supports": {f"c{j}": rng.choice(SUPPORTS) for j in range(k)}})
        elif r < 0.55:
            nb = rng.randint(1, 3)
            ints, j = [], 0
            for b in range(nb):
                k = rng.randint(1, 3)
                ints.append({f"c{j + t}": rng.choice(SUPPORTS) for t in range(k)})
                j += k
            props = rng.choice([[1.0], [0.5, 0.5], [0.25, 0.75], [1.0, 0.0], [0.0, 1.0], [0.5, 0.25, 0.25],
                                [0.125, 0.0, 0.875], [0.75, 0.25]])
            if len(props) != nb:
                props = [1.0 / nb] * nb if nb != 3 else [0.5, 0.25, 0.25]
            cases.append({"kind": "combine", "intervals": ints, "props": props})
        elif r < 0.8:
            k = rng.randint(1, 6 if tier == "thorough" else 5)
            sup = {f"c{j}": rng.choice([s for s in SUPPORTS if s > 0]) for j in range(k)}
            case = {"kind": "bt", "supports": sup}
            if k >= 2 and rng.random() < 0.4:
                # a second bloc over the same candidates: either plainly different supports, or supports that
                # differ only far below the 1e-8 at which PreferenceInterval.__eq__ stops telling them apart
                if rng.random() < 0.5:
                    sup2 = {c: rng.choice([s for s in SUPPORTS if s > 0]) for c in sup}
                else:
                    # (three candidates at most: the exact rational value of 1e-9 has a 2^83 denominator and
                    # the model's unreduced arithmetic over n! x n^2 products of them is slow)
                    cs_ = list(sup)[:3]
                    sup = {c: 1.0 for c in cs_}
                    sup2 = dict(sup)
                    sup[cs_[-1]], sup2[cs_[-1]] = 1e-9, 2e-9
                    if k >= 3:
                        sup[cs_[-2]], sup2[cs_[-2]] = 2e-9, 1e-9
                    case["supports"] = sup
                case["supports2"] = sup2
            cases.append(case)
        else:
            a = rng.randint(1, 4)
            b = rng.randint(1, min(4, 7 - a))
            case = {"kind": "slate_bt", "sizes": {"A": a, "B": b}, "cohesion": rng.choice(COHESION)}
            if rng.random() < 0.4:
                # zero-support candidates, differently per voter bloc: each bloc's table ranges over ITS non-zero counts
                case["zero"] = {X: {Y: rng.randint(0, case["sizes"][Y] - 1) for Y in "AB"} for X in "AB"}
            cases.append(case)
    return cases


def run_case(case):
    common.load_impl()
    from votekit.pref_interval import PreferenceInterval, combine_preference_intervals
    kind = case["kind"]
    tags, oracle, model = ["kind:" + kind], [], []
    if kind == "interval":
        sup = case["supports"]
        nm = Names(list(sup.keys()))
        out = call_impl(PreferenceInterval, dict(sup))
        exact = {c: Fraction(v) for c, v in sup.items()}
        tot = sum(v for v in exact.values() if v > 0)
        want_int = {c: v / tot for c, v in exact.items() if v > 0} if tot else None
        want_zero = {c for c, v in exact.items() if v == 0}
        mexp = Err("EZeroDiv") if tot == 0 else [S([[nm.id(c), v] for c, v in want_int.items()]), S([nm.id(c) for c in want_zero])]
        model.append({"op": 90, "arg": S([[nm.id(c), v] for c, v in exact.items()]), "expect": mexp,
                      "what": "PreferenceInterval: exact normalised interval (the float interval is compared by the oracle)"})
        if tot == 0:
            if not common.is_err(out, "EZeroDiv"):
                oracle.append(f"all-zero interval: expected ZeroDivisionError, got {out}")
        elif isinstance(out, Err):
            oracle.append(f"valid interval rejected: {out}")
        else:
            if set(out.interval.keys()) != set(want_int) or set(out.zero_cands) != want_zero:
                oracle.append("zero-support candidates not set aside exactly")
            elif not all(close(out.interval[c], want_int[c]) for c in want_int):
                oracle.append("interval is not support / sum of supports")
            if not close(sum(out.interval.values()), 1):
                oracle.append("interval does not sum to one")
        nontriv = len(set(sup.values())) > 1
        return {"model": model, "oracle": oracle, "tags": tags, "nontrivial": nontriv}
    if kind == "combine":
        ints = case["intervals"]
        props = case["props"]
        names = [c for d in ints for c in d]
        nm = Names(names)
        pis = [call_impl(PreferenceInterval, dict(d)) for d in ints]
        if any(isinstance(p, Err) for p in pis):
            return {"model": [], "oracle": [], "tags": tags + ["zero-interval"], "nontrivial": False}
        out = call_impl(combine_preference_intervals, pis, list(props))

        def exact_pi(d):
            ex = {c: Fraction(v) for c, v in d.items()}
            tot = sum(v for v in ex.values() if v > 0)
            return {c: v / tot for c, v in ex.items() if v > 0}, {c for c, v in ex.items() if v == 0}
        eints = [exact_pi(d) for d in ints]
        arg = [[[S([[nm.id(c), v] for c, v in i.items()]), S([nm.id(c) for c in z])] for i, z in eints], [Fraction(p) for p in props]]
        want = {}
        zero = set()
        for (i, z), p in zip(eints, props):
            zero |= z
            for c, v in i.items():
                if Fraction(p) == 0:
                    zero.add(c)
                else:
                    want[c] = v * Fraction(p)
        tot = sum(want.values())
        mexp = Err("EZeroDiv") if tot == 0 else [S([[nm.id(c), v / tot] for c, v in want.items()]), S([nm.id(c) for c in zero])]
        model.append({"op": 91, "arg": arg, "expect": mexp, "what": "combine_preference_intervals: exact combined interval"})
        if isinstance(out, Err):
            if tot != 0:
                oracle.append(f"valid combination rejected: {out}")
        else:
            if set(out.interval.keys()) != set(want) or set(out.zero_cands) != zero:
                oracle.append("combined candidates / zero candidates are wrong")
            elif not all(close(out.interval[c], want[c]) for c in want):
                oracle.append("combined value is not proportion x interval value")
        return {"model": model, "oracle": oracle, "tags": tags, "nontrivial": True}
    if kind == "bt":
        from votekit.ballot_generator import name_BradleyTerry
        sup = case["supports"]
        cs = list(sup.keys())
        nm = Names(cs)
        ex = {c: Fraction(v) for c, v in sup.items()}
        tot = sum(ex.values())
        x = {c: v / tot for c, v in ex.items()}
        sup2 = case.get("supports2")
        with warnings.catch_warnings():
            warnings.simplefilter("ignore")
            if sup2 is None:
                g = call_impl(lambda: name_BradleyTerry(candidates=cs, pref_intervals_by_bloc={"W": {"W": PreferenceInterval(dict(sup))}},
                                                        bloc_voter_prop={"W": 1.0}, cohesion_parameters={"W": {"W": 1.0}}))
            else:
                # two blocs whose combined intervals range over the same candidates (the second slate is one
                # extra candidate that both blocs give cohesion 0)
                g = call_impl(lambda: name_BradleyTerry(
                    candidates=cs + ["zz"],
                    pref_intervals_by_bloc={"W": {"W": PreferenceInterval(dict(sup)), "C": PreferenceInterval({"zz": 1.0})},
                                            "C": {"W": PreferenceInterval(dict(sup2)), "C": PreferenceInterval({"zz": 1.0})}},
                    bloc_voter_prop={"W": 0.5, "C": 0.5},
                    # the inner dictionaries of the two arguments list the blocs in different orders
                    cohesion_parameters={"W": {"C": 0.0, "W": 1.0}, "C": {"W": 1.0, "C": 0.0}}))
        if isinstance(g, Err):
            oracle.append(f"name_BradleyTerry construction failed: {g}")
            return {"model": [], "oracle": oracle, "tags": tags, "nontrivial": False}
        if sup2 is not None:
            tags.append("two-blocs")
            ex2 = {c: Fraction(v) for c, v in sup2.items()}
            x2 = {c: v / sum(ex2.values()) for c, v in ex2.items()}
            t2 = g.pdfs_by_bloc["C"]
            want2 = {}
            for perm in itertools.permutations(cs):
                pr = Fraction(1)
                for i in range(len(perm)):
                    for j in range(i + 1, len(perm)):
                        pr *= x2[perm[i]] / (x2[perm[i]] + x2[perm[j]])
                want2[perm] = pr
            z2 = sum(want2.values())
            if set(t2.keys()) != set(want2.keys()) or not all(close(t2[k], want2[k] / z2) for k in want2):
                oracle.append("second bloc's BT table is not proportional to the product over ordered pairs of x/(x+y) of ITS interval")
        table = g.pdfs_by_bloc["W"]
        want = {}
        for perm in itertools.permutations(cs):
            p = Fraction(1)
            for i in range(len(perm)):
                for j in range(i + 1, len(perm)):
                    p *= x[perm[i]] / (x[perm[i]] + x[perm[j]])
            want[perm] = p
        z = sum(want.values())
        want = {k: v / z for k, v in want.items()}
        model.append({"op": 92, "arg": S([[nm.id(c), v] for c, v in x.items()]),
                      "expect": S([[[nm.id(c) for c in k], v] for k, v in want.items()]),
                      "what": "_BT_pdf table: exact values proportional to prod_{i<j} x_i/(x_i+x_j)"})
        if set(table.keys()) != set(want.keys()):
            oracle.append("BT table is not indexed by all permutations")
        elif not all(close(table[k], want[k]) for k in want):
            oracle.append("BT probability is not proportional to the product over ordered pairs of x/(x+y)")
        if not close(sum(table.values()), 1):
            oracle.append("BT table does not sum to one")
        cp = g._calc_prob(list(want.keys())[:6], {c: float(v) for c, v in x.items()})
        for k, v in cp.items():
            model.append({"op": 93, "arg": [S([[nm.id(c), q] for c, q in x.items()]), [nm.id(c) for c in k]],
                          "expect": want[k] * z, "what": "_calc_prob: exact product"})
            if not close(v, want[k] * z):
                oracle.append("_calc_prob is not prod_{i<j} x_i/(x_i+x_j)")
        return {"model": model, "oracle": oracle, "tags": tags + [f"n:{len(cs)}"], "nontrivial": len(set(sup.values())) > 1}
    # slate BT
    from votekit.ballot_generator import slate_BradleyTerry
    a, b = case["sizes"]["A"], case["sizes"]["B"]
    coh = case["cohesion"]
    s2c = {"A": [f"a{i}" for i in range(a)], "B": [f"b{i}" for i in range(b)]}
    zero = case.get("zero") or {X: {Y: 0 for Y in "AB"} for X in "AB"}
    pib = {X: {Y: PreferenceInterval({c: (0.0 if i < zero[X][Y] else 1.0) for i, c in enumerate(s2c[Y])}) for Y in "AB"} for X in "AB"}
    with warnings.catch_warnings():
        warnings.simplefilter("ignore")
        g = call_impl(lambda: slate_BradleyTerry(slate_to_candidates=s2c, pref_intervals_by_bloc=pib,
                                                 bloc_voter_prop={"A": 0.5, "B": 0.5},
                                                 cohesion_parameters={"A": {"A": coh, "B": 1 - coh}, "B": {"B": coh, "A": 1 - coh}}))
    if isinstance(g, Err):
        oracle.append(f"slate_BradleyTerry construction failed: {g}")
        return {"model": [], "oracle": oracle, "tags": tags, "nontrivial": False}
    bid = {"A": 1, "B": 2}
    c = Fraction(coh)
    for own, opp in (("A", "B"), ("B", "A")):
        table = g.ballot_type_pdf[own]
        na, nb = case["sizes"][own] - zero[own][own], case["sizes"][opp] - zero[own][opp]      # the bloc's non-zero counts
        types = set(itertools.permutations([own] * na + [opp] * nb))
        want = {}
        for t in types:
            succ = sum(t[i + 1:].count(opp) for i, x in enumerate(t) if x == own)
            want[t] = c ** succ * (1 - c) ** (na * nb - succ)
        z = sum(want.values())
        if z == 0:
            continue
        want = {k: v / z for k, v in want.items()}
        model.append({"op": 94, "arg": [[[bid[own], na], [bid[opp], nb]] if own == "A" else [[bid[opp], nb], [bid[own], na]], bid[own], bid[opp], c],
                      "expect": S([[[bid[x] for x in k], v] for k, v in want.items()]),
                      "what": "slate-BT ballot-type table: exact values"})
        if set(table.keys()) != set(want.keys()):
            oracle.append("slate-BT table is not indexed by all distinct slate orderings")
        elif not all(close(table[k], want[k]) for k in want):
            oracle.append("slate-BT probability is not proportional to cohesion^(own-above-other) (1-cohesion)^(other-above-own)")
        if not close(sum(table.values()), 1):
            oracle.append("slate-BT table does not sum to one")
    return {"model": model, "oracle": oracle, "tags": tags + [f"sizes:{a}x{b}"], "nontrivial": True}
