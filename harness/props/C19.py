"""C19 — Lp profile distance is a true metric; the ballot graph is complete and exact."""
from __future__ import annotations
from fractions import Fraction
import itertools, math
import common, vk, gen, ref, rules
from common import S, Err, Names, call_impl

RULE = ("random triples of profiles over a common candidate set (untied rankings, partial ballots, rational "
        "weights, repeated ballots) x p in {1,2,3,5,'inf'}; BallotGraph(n) for n = 2..6 (node and edge sets "
        "compared exactly); BallotGraph(profile) node weights. Non-trivial = the triple has three pairwise "
        "different distributions, or the graph case has n >= 3; distinct by canonical JSON")
TRUSTED = ["numpy float arithmetic: the implementation's value is compared with the exact rational model value within 1e-9 relative"]
ORACLE_ONLY = ["float value of lp_dist vs the exact S_p^(1/p) within 1e-9"]
ASSUMPTIONS = ["profiles have positive total weight; fix_short=True (the default)"]


def gen_cases(rng, tier):
    n = 500 if tier == "quick" else 6000
    cases = []
    for n_ in ([2, 3, 4, 5] if tier == "quick" else [2, 3, 4, 5, 6]):
        cases.append({"kind": "graph", "n": n_})
    for i in range(n):
        r = rng.random()
        if r < 0.75:
            k = rng.choice([2, 3, 3, 4])
            names = gen.pick_names(rng, k)
            profs = []
            for _ in range(3):
                jp, _ = gen.ranked_profile(rng, n_cands=k, ties=False, zero_vote=0)
                # rename onto the common candidate set
                m = dict(zip(sorted({c for b in jp["ballots"] for g in b["r"] for c in g} | set(jp["cands"] or [])), names))
                jp = {"ballots": [{"r": [[m[c] for c in g] for g in b["r"]], "w": b["w"]} for b in jp["ballots"]], "cands": list(names)}
                profs.append(jp)
            mode = rng.choice(["independent", "independent", "same_dist", "rescaled", "reordered"])
            if mode == "same_dist":
                profs[1] = {"ballots": list(reversed(profs[0]["ballots"])) + [], "cands": list(names)}
            elif mode == "rescaled":
                profs[1] = {"ballots": [dict(b, w=common.fstr(Fraction(b["w"]) * 3 / 7)) for b in profs[0]["ballots"]], "cands": list(names)}
            elif mode == "reordered":
                bs = list(profs[0]["ballots"])
                rng.shuffle(bs)
                j = rng.randrange(len(bs))
                w = Fraction(bs[j]["w"])
                bs[j] = dict(bs[j], w=common.fstr(w / 2))
                bs.append(dict(bs[j]))
                profs[1] = {"ballots": bs, "cands": list(names)}
            cases.append({"kind": "lp", "profiles": profs, "p": rng.choice([1, 1, 2, 2, 3, 5, "inf"]), "mode": mode})
        else:
            k = rng.choice([2, 3, 4, 5])
            jp, names = gen.ranked_profile(rng, n_cands=k, ties=False, zero_vote=0.2)
            jp["cands"] = jp["cands"] or list(names)
            cases.append({"kind": "weights", "profile": jp})
    return cases


def ndist(jp):
    tot = ref.total_weight(jp)
    d = ref.weight_by_ranking((b["r"], b["w"]) for b in jp["ballots"])
    return {k: v / tot for k, v in d.items()}


def exact_sum(j1, j2, p):
    a, b = ndist(j1), ndist(j2)
    diffs = [abs(a.get(k, Fraction(0)) - b.get(k, Fraction(0))) for k in set(a) | set(b)]
    if p == "inf":
        return max(diffs)
    return sum((d ** p for d in diffs), Fraction(0))


def close(x, y):
    return abs(x - y) <= 1e-9 * max(1.0, abs(x), abs(y))


def run_case(case):
    common.load_impl()
    from votekit.metrics import lp_dist
    from votekit.graphs import BallotGraph
    kind = case["kind"]
    tags, oracle, model = ["kind:" + kind], [], []
    if kind == "graph":
        n = case["n"]
        g = BallotGraph(n).graph
        nodes = [tuple(k) if isinstance(k, tuple) else (k,) for k in g.nodes]
        edges = [(tuple(a) if isinstance(a, tuple) else (a,), tuple(b) if isinstance(b, tuple) else (b,)) for a, b in g.edges]
        expect = [S([list(k) for k in nodes]), S([S([list(a), list(b)]) for a, b in edges])]
        model.append({"op": 82, "arg": n, "expect": expect, "what": f"BallotGraph({n}) nodes and edges"})
        want_nodes = {p for ln in range(1, n + 1) if ln != n - 1 or n == 1 for p in itertools.permutations(range(1, n + 1), ln)}
        if set(nodes) != want_nodes or len(nodes) != len(want_nodes):
            oracle.append("nodes are not exactly the rankings of length 1..n except n-1")

        def adj(a, b):
            if len(a) == len(b):
                d = [i for i in range(len(a)) if a[i] != b[i]]
                return len(d) == 2 and d[1] == d[0] + 1 and a[d[0]] == b[d[1]] and a[d[1]] == b[d[0]]
            if len(a) > len(b):
                a, b = b, a
            return b[:len(a)] == a and (len(b) == len(a) + 1 or (len(a) == n - 2 and len(b) == n))
        es = {frozenset(e) for e in edges}
        bad = 0
        for a, b in itertools.combinations(sorted(want_nodes), 2):
            if (frozenset((a, b)) in es) != adj(a, b):
                bad += 1
        if bad:
            oracle.append(f"{bad} node pairs are joined/not joined contrary to the adjacency rule")
        tags.append(f"n:{n}")
        return {"model": model, "oracle": oracle, "tags": tags, "nontrivial": n >= 3}
    if kind == "weights":
        jp = case["profile"]
        nm = Names(rules.all_names(jp))
        prof = vk.mk_profile(jp)
        bg = call_impl(BallotGraph, prof)
        if isinstance(bg, Err):
            oracle.append(f"BallotGraph(profile) raised {bg}")
            expect = bg
        else:
            nw = {k: v for k, v in bg.node_weights.items() if v != 0}
            expect = S([[list(k), Fraction(v)] for k, v in nw.items()])
            if sum(nw.values(), Fraction(0)) != prof.total_ballot_wt:
                oracle.append("node weights do not add up to the profile's total weight")
            cs = list(prof.candidates)
            want = {}
            for b in jp["ballots"]:
                node = [cs.index(g[0]) + 1 for g in b["r"]]
                if len(node) == len(cs) - 1:
                    node += [i for i in range(1, len(cs) + 1) if i not in node]
                want[tuple(node)] = want.get(tuple(node), Fraction(0)) + Fraction(b["w"])
            if nw != want:
                oracle.append("a cast ballot's weight is not on its node")
            # the same weights as the graph's own node attributes carry them (`weight`, `cast`)
            g = getattr(bg, "graph", None)
            if g is not None:
                gw = {k: Fraction(d.get("weight", 0)) for k, d in g.nodes(data=True) if d.get("weight", 0) != 0}
                if gw != want:
                    oracle.append("the graph's node attribute `weight` does not carry exactly the cast ballots' weights")
                gc = {k for k, d in g.nodes(data=True) if d.get("cast")}
                if gc != set(want):
                    oracle.append("the graph's node attribute `cast` does not mark exactly the cast ballots' nodes")
        model.append({"op": 83, "arg": [vk.jp_val(nm, jp, cands=list(prof.candidates)), True], "expect": expect,
                      "what": "BallotGraph(profile).node_weights (non-zero entries)"})
        return {"model": model, "oracle": oracle, "tags": tags, "nontrivial": True}
    # lp
    js = case["profiles"]
    p = case["p"]
    names = js[0]["cands"]
    nm = Names(names)
    P = [vk.mk_profile(j) for j in js]
    vals = {}
    for i, j in [(0, 1), (1, 0), (1, 2), (0, 2)]:
        vals[(i, j)] = call_impl(lp_dist, P[i], P[j], p)
    tags += [f"p:{p}", "mode:" + case["mode"]]
    pv = [vk.jp_val(nm, j, cands=list(pp.candidates)) for j, pp in zip(js, P)]
    if any(isinstance(v, Err) for v in vals.values()):
        oracle.append(f"lp_dist raised {vals}")
        return {"model": [], "oracle": oracle, "tags": tags, "nontrivial": False}
    for (i, j) in [(0, 1), (1, 2)]:
        ex = exact_sum(js[i], js[j], p)
        if p == "inf":
            model.append({"op": 81, "arg": [pv[i], pv[j]], "expect": ex, "what": "lp_dist inf: exact maximum (oracle compares the float)"})
            want = float(ex)
        else:
            model.append({"op": 80, "arg": [pv[i], pv[j], p], "expect": ex, "what": f"lp_dist^{p}: exact sum (oracle compares the float)"})
            want = float(ex) ** (1.0 / p)
        if not close(float(vals[(i, j)]), want):
            oracle.append(f"lp_dist={vals[(i, j)]} differs from the p-norm of the normalised difference {want}")
    if not close(float(vals[(0, 1)]), float(vals[(1, 0)])):
        oracle.append("lp_dist is not symmetric")
    same = ndist(js[0]) == ndist(js[1])
    if same != (abs(float(vals[(0, 1)])) < 1e-12):
        oracle.append(f"distance {vals[(0, 1)]} but distributions are {'equal' if same else 'different'}")
    if float(vals[(0, 2)]) > float(vals[(0, 1)]) + float(vals[(1, 2)]) + 1e-9:
        oracle.append("triangle inequality violated")
    nontrivial = len({tuple(sorted(ndist(j).items(), key=repr)) for j in js}) == 3
    return {"model": model, "oracle": oracle, "tags": tags, "nontrivial": nontrivial}
