"""Shared pieces for properties that run whole elections of every rule (C01, C05, C08, C09, C10,
C13): case generation, running on the implementation + building the model call."""
from __future__ import annotations
from fractions import Fraction
import math
import common, vk, rules, gen
from common import S, Err, Names
import stvlib

RANK_RULES = ["STV", "IRV", "SequentialRCV", "Plurality", "SNTV", "Borda", "TopTwo", "Alaska",
              "DominatingSets", "CondoBorda", "RandomDictator", "BoostedRandomDictator", "PluralityVeto"]
SCORE_RULES = ["Rating", "Limited", "Cumulative", "Approval", "BlocPlurality", "GeneralRating"]
TIED_OK = {"Plurality", "SNTV", "Borda", "RandomDictator", "BoostedRandomDictator", "PluralityVeto"}
LARGE_OK = {"Plurality", "SNTV", "Borda", "TopTwo", "RandomDictator", "BoostedRandomDictator"}
DETERMINISTIC = {"STV", "IRV", "SequentialRCV", "Plurality", "SNTV", "Borda", "TopTwo", "Alaska",
                 "DominatingSets", "CondoBorda", "Rating", "Limited", "Cumulative", "Approval",
                 "BlocPlurality", "GeneralRating"}


def rule_val(rule, cfg):
    """Encoding of a public election class + constructor arguments as the model's `wrule`."""
    tb = vk.tb_val(cfg.get("tiebreak"))
    q = rules.QUOTA.get(cfg.get("quota", "droop"), 9)
    if rule == "STV":
        return [1, rules.stv_cfg_val(rule, cfg)]
    if rule == "IRV":
        return [101, q, tb]
    if rule == "SequentialRCV":
        return [102, cfg.get("m", 1), q, cfg.get("simultaneous", True), tb]
    if rule == "Plurality":
        return [2, cfg["m"], tb]
    if rule == "SNTV":
        return [103, cfg["m"], tb]
    if rule == "Borda":
        v = cfg.get("score_vector")
        return [3, cfg["m"], None if v is None else [common.frac(x) for x in v], tb]
    if rule == "GeneralRating":
        return [4, cfg["m"], common.frac(cfg.get("L", 1)), None if cfg.get("k") is None else common.frac(cfg["k"]), tb]
    if rule == "Rating":
        return [104, cfg["m"], common.frac(cfg.get("L", 1)), tb]
    if rule == "Approval":
        return [105, cfg["m"], tb]
    if rule == "Limited":
        return [5, cfg["m"], common.frac(cfg.get("k", 1)), tb]
    if rule == "Cumulative":
        return [106, cfg["m"], tb]
    if rule == "BlocPlurality":
        return [6, cfg["m"], cfg.get("k"), tb]
    if rule == "DominatingSets":
        return [7]
    if rule == "CondoBorda":
        return [8, cfg["m"]]
    if rule == "TopTwo":
        return [9, tb]
    if rule == "Alaska":
        c = dict(cfg)
        c["m"] = cfg["m_2"]
        return [10, cfg["m_1"], cfg["m_2"], rules.stv_cfg_val("STV", c)]
    if rule == "RandomDictator":
        return [11, cfg["m"]]
    if rule == "BoostedRandomDictator":
        return [12, cfg["m"]]
    if rule == "PluralityVeto":
        return [107, cfg["m"], tb]
    raise ValueError(rule)


def score_profile(rng, L=None, k=None, violate=None):
    """A profile of score ballots within per-candidate limit L and budget k (Fractions), optionally
    violating exactly one limit by the smallest margin in the first or last ballot."""
    n = rng.choice([2, 3, 3, 4, 5])
    names = gen.pick_names(rng, n)
    voted = names if rng.random() < 0.7 else names[:-1]
    nb = rng.choice([1, 2, 3, 4, 6])
    L = Fraction(L) if L is not None else Fraction(1)
    palette = [Fraction(0), L, L, L / 2, L / 3, Fraction(1), Fraction(1, 2), L / 5000, L * Fraction(999983, 1000000)]
    ballots = []
    for _ in range(nb):
        while True:
            s = {}
            for c in voted:
                if rng.random() < 0.6:
                    v = min(rng.choice(palette), L)
                    if v > 0:
                        s[c] = v
            if not s:
                s[rng.choice(voted)] = min(Fraction(1), L)
            if k is not None and sum(s.values()) > k:
                # scale down to the budget exactly (boundary) or below
                tot = sum(s.values())
                f = Fraction(k) / tot if rng.random() < 0.5 else Fraction(k) / tot / 2
                # keep every score exactly representable by Ballot (denominator <= 10^6): floor to 1e-4
                s = {c: Fraction(math.floor(v * f * 10000), 10000) for c, v in s.items()}
                s = {c: v for c, v in s.items() if v > 0} or {rng.choice(voted): min(Fraction(1, 10000), L)}
            break
        ballots.append({"r": None, "s": {c: common.fstr(v) for c, v in s.items()},
                        "w": gen.rand_weight(rng, "mixed")})
    if rng.random() < 0.15:
        # a zero-weight ballot (counts for nothing, but is still validated)
        ballots[rng.randrange(len(ballots))]["w"] = "0"
    if violate:
        i = 0 if rng.random() < 0.5 else len(ballots) - 1
        b = ballots[i]
        if rng.random() < 0.3:
            b["w"] = "0"            # the offending ballot carries no weight: it must be refused all the same
        eps = rng.choice([Fraction(1, 1000000), Fraction(1, 7), Fraction(3)])
        c0 = next(iter(b["s"]))
        if violate == "over_L":
            b["s"][c0] = common.fstr(L + eps)
        elif violate == "negative":
            b["s"][c0] = common.fstr(-eps)
        elif violate == "over_k" and k is not None:
            tot = sum(Fraction(v) for v in b["s"].values())
            b["s"][c0] = common.fstr(Fraction(b["s"][c0]) + (Fraction(k) - tot) + eps)
        elif violate == "no_scores":
            b["s"] = None
            b["r"] = [[c0]]
        elif violate == "all_zero":
            b["s"] = {c0: "0"}
    cands = list(names)
    rng.shuffle(cands)
    return {"ballots": ballots, "cands": cands}, names


def gen_rule_cases(rng, n, rule_pool=None, with_scores=True):
    cases = []
    pool = rule_pool or (RANK_RULES + (SCORE_RULES if with_scores else []))
    for i in range(n):
        rule = rng.choice(pool)
        tb = rng.choice([None, None, "random", "random", "borda", "first_place"])
        if rule in ("STV", "IRV", "SequentialRCV"):
            cases += stvlib.gen_stv_cases(rng, 1, rules_=(rule,))
            continue
        if rule in SCORE_RULES:
            m_guess = rng.choice([1, 1, 2, 3])
            L, k = Fraction(1), None
            cfg = {"m": m_guess, "tiebreak": rng.choice([None, None, "random"])}
            if rule == "GeneralRating":
                L = rng.choice([Fraction(1), Fraction(2), Fraction(5), Fraction(1, 2)])
                k = rng.choice([None, L, 2 * L, 3 * L])
                cfg.update(L=common.fstr(L), k=None if k is None else common.fstr(k))
            elif rule == "Rating":
                L = rng.choice([Fraction(1), Fraction(3), Fraction(5, 2)])
                cfg["L"] = common.fstr(L)
            elif rule == "Limited":
                kk = rng.randint(1, m_guess)
                L, k = Fraction(kk), Fraction(kk)
                cfg["k"] = common.fstr(k)
            elif rule == "Cumulative":
                L, k = Fraction(m_guess), Fraction(m_guess)
            elif rule == "BlocPlurality":
                kk = rng.choice([None, 1, 2, m_guess])
                cfg["k"] = kk
                L, k = Fraction(1), Fraction(kk if kk else m_guess)
            violate = rng.choice([None] * 6 + ["over_L", "negative", "over_k", "no_scores", "all_zero"])
            jp, names = score_profile(rng, L=L, k=k, violate=violate)
            cases.append({"rule": rule, "cfg": cfg, "profile": jp, "seed": rng.randrange(1 << 30),
                          "family": "scores:" + str(violate)})
            continue
        ties = rule in TIED_OK and rng.random() < 0.4
        r = rng.random()
        if r < 0.3:
            jp, m, kind = gen.stv_boundary_profile(rng)
            fam = "boundary:" + kind
            ncand = len(jp["cands"])
        elif r < 0.45:
            jp = next(gen.small_scope_profiles(rng, n_cands=3, n_distinct=3, count=1))
            ncand, fam = 3, "small"
        else:
            jp, names = gen.ranked_profile(rng, ties=ties, weights="mixed", allow_large=rule in LARGE_OK)
            ncand, fam = len(names), "random" + (":ties" if ties else "") + (":large" if len(names) > 7 else "")
        if rule in ("DominatingSets", "CondoBorda") and ncand > 6:
            continue
        m = rng.randint(1, ncand)
        if rule in ("Plurality", "SNTV") and rng.random() < 0.1:
            jp, names = gen.four_way_pair_tie(rng)
            ncand, fam, m, tb = len(names), "four-way-pair-tie", rng.randint(1, 3), "borda"
        elif rule in ("Plurality", "SNTV") and rng.random() < 0.04:
            jp, names = gen.fine_secondary_tie(rng)
            ncand, fam, m, tb = 3, "fine-secondary-tie", 1, "borda"
        if rng.random() < 0.04:
            m = rng.choice([0, ncand + 1])
        cfg = {"m": m, "tiebreak": tb}
        if rule == "Borda":
            cfg["tiebreak"] = rng.choice([None, None, "random", "first_place"])
            if rng.random() < 0.4:
                ln = rng.choice([ncand, ncand - 1, ncand + 2, 1])
                vec = sorted([rng.choice([0, 1, 2, 3, 5, Fraction(1, 2), Fraction(7, 3)]) for _ in range(max(1, ln))], reverse=True)
                cfg["score_vector"] = [common.fstr(x) for x in vec]
        if rule == "Alaska":
            m1 = rng.randint(1, ncand)
            m2 = rng.randint(1, m1)
            cfg = {"m_1": m1, "m_2": m2, "quota": rng.choice(["droop", "droop", "hare"]),
                   "simultaneous": rng.random() < 0.6, "tiebreak": tb}
        if rule in ("CondoBorda", "DominatingSets", "RandomDictator", "BoostedRandomDictator"):
            cfg.pop("tiebreak", None)
        if rule == "PluralityVeto":
            for b in jp["ballots"]:
                b["w"] = str(min(6, max(1, math.ceil(Fraction(b["w"])))))
            if ties and cfg["tiebreak"] is None:
                cfg["tiebreak"] = "random"
        cases.append({"rule": rule, "cfg": cfg, "profile": jp, "seed": rng.randrange(1 << 30), "family": fam})
    # engineered tie families are rare under the random choice above: a fixed handful in every run
    for rule in [r for r in ("Plurality", "SNTV") if r in pool]:
        for k in range(3):
            jp, names = gen.four_way_pair_tie(rng)
            cases.append({"rule": rule, "cfg": {"m": 1 + k, "tiebreak": "borda"}, "profile": jp,
                          "seed": rng.randrange(1 << 30), "family": "four-way-pair-tie"})
        for k in range(2):
            jp, names = gen.three_way_leader_tie(rng)
            cases.append({"rule": rule, "cfg": {"m": 2 + (k % 2) * 0, "tiebreak": "borda"}, "profile": jp,
                          "seed": rng.randrange(1 << 30), "family": "three-way-leader-tie"})
        for k in range(2):
            jp, names = gen.fine_secondary_tie(rng)
            cases.append({"rule": rule, "cfg": {"m": 1, "tiebreak": "borda"}, "profile": jp,
                          "seed": rng.randrange(1 << 30), "family": "fine-secondary-tie"})
    return cases


def approx_calls(calls):
    """np.random.choice probabilities are floats on the implementation side and exact rationals
    in the model: round both to 9 decimals."""
    out = []
    for c in calls:
        if c and c[0] == 5:
            c = [5, S([[x[0], Fraction(round(float(x[1]) * 10 ** 9))] for x in c[1]])]
        out.append(c)
    return out


def run_rule_case(case):
    info = rules.run_election(case)
    nm, rec, el, prof = info["nm"], info["rec"], info["election"], info["profile"]
    if isinstance(prof, Err):
        return info, None
    script, calls = rules.script_from_log(nm, rec.log, order=list(prof.candidates))
    arg = [rule_val(case["rule"], case["cfg"]), vk.jp_val(nm, case["profile"], cands=list(prof.candidates)), script]
    if isinstance(el, Err):
        expect = el
    else:
        expect = [vk.states_val(nm, el.election_states), approx_calls(calls), 0]
    info["script"], info["calls"] = script, calls
    inc = case["cfg"].get("transfer") == "random" and case["cfg"].get("simultaneous", True)
    return info, {"op": 22, "arg": arg, "expect": expect, "what": "election_states+random calls",
                  "inconclusive_ok": inc}


def model_post(exp, mo):
    if exp.get("what", "").startswith("election_states") and isinstance(mo, list) and len(mo) == 3 and isinstance(mo[1], list):
        return [mo[0], approx_calls(rules.norm_calls(mo[1])), mo[2]]
    return mo
