"""C05 — score-ballot elections enforce their limits and elect the top m totals."""
from __future__ import annotations
from fractions import Fraction
import common, vk, gen, ref, rules, ruleslib, stvlib
from common import S, Err, Names, call_impl

RULE = ("Rating, Approval, Limited, Cumulative, BlocPlurality (and GeneralRating) on score profiles with rational "
        "scores and weights, candidates scored by nobody, ballots violating exactly one limit (per-candidate "
        "limit, budget, negativity, missing scores) by the smallest margin (1e-6) and grossly, in the first or the "
        "last ballot, and ballots exactly at the limits. Non-trivial = a ballot sits exactly at or just beyond a "
        "limit, or >= 2 candidates have positive totals; distinct by canonical JSON")
model_post = ruleslib.model_post


def limits(case):
    rule, cfg = case["rule"], case["cfg"]
    m = cfg["m"]
    if rule == "GeneralRating":
        return Fraction(cfg.get("L", "1")), (None if cfg.get("k") is None else Fraction(cfg["k"]))
    if rule == "Rating":
        return Fraction(cfg.get("L", "1")), None
    if rule == "Approval":
        return Fraction(1), None
    if rule == "Limited":
        return Fraction(cfg.get("k", "1")), Fraction(cfg.get("k", "1"))
    if rule == "Cumulative":
        return Fraction(m), Fraction(m)
    if rule == "BlocPlurality":
        return Fraction(1), Fraction(cfg["k"] if cfg.get("k") else m)
    raise ValueError(rule)


def known_finding(case, kind, detail):
    if "Err(EType)" in str(detail) and case.get("family") == "scores:None+ranking" and \
            any(b.get("r") and b.get("s") for b in case["profile"]["ballots"]):
        return "score-rule-mixed-ballot-typeerror"
    return None


def gen_cases(rng, tier):
    n = 700 if tier == "quick" else 9000
    cases = ruleslib.gen_rule_cases(rng, n, rule_pool=ruleslib.SCORE_RULES)
    # score ballots that also carry a ranking (Ballot allows both; every score rule accepts them)
    for c in cases:
        if c.get("family") == "scores:None" and rng.random() < 0.08:
            names = sorted({x for b in c["profile"]["ballots"] for x in (b.get("s") or {})} | set(c["profile"].get("cands") or []))
            for b in c["profile"]["ballots"]:
                if b.get("s") and not b.get("r") and rng.random() < 0.6:
                    b["r"] = [[x] for x in rng.sample(names, rng.randint(1, len(names)))]
            c["family"] = "scores:None+ranking"
    # a budget overrun spread over FEW candidates (count <= k, every score <= L): only possible when L > 1
    # (Limited, Cumulative, GeneralRating with L > k/2); the sum, not the count, must decide (seeded C05_f)
    for _ in range(40 if tier == "quick" else 400):
        rule = rng.choice(["Limited", "Cumulative", "GeneralRating"])
        m = rng.choice([2, 3])
        cfg = {"m": m, "tiebreak": rng.choice([None, "random"])}
        if rule == "GeneralRating":
            L, k = rng.choice([(Fraction(2), Fraction(3)), (Fraction(2), Fraction(2)), (Fraction(5), Fraction(5)), (Fraction(3, 2), Fraction(2))])
            cfg.update(L=common.fstr(L), k=common.fstr(k))
        elif rule == "Limited":
            kk = rng.randint(2, m)
            L, k = Fraction(kk), Fraction(kk)
            cfg["k"] = common.fstr(k)
        else:
            L, k = Fraction(m), Fraction(m)
        over = rng.random() < 0.7
        jp, names = ruleslib.score_profile(rng, L=L, k=k, violate=None)
        i = 0 if rng.random() < 0.5 else len(jp["ballots"]) - 1
        a, b = rng.sample(names, 2)
        eps = rng.choice([Fraction(1, 1000000), Fraction(1, 7), Fraction(1, 2)]) if over else Fraction(0)
        hi = min(L, k)
        lo = k - hi + eps
        if lo == 0:
            lo = Fraction(0)
        sc = {a: common.fstr(hi)}
        if lo > 0:
            sc[b] = common.fstr(min(lo, L))
        jp["ballots"][i]["s"] = sc
        jp["ballots"][i]["r"] = None
        cases.append({"rule": rule, "cfg": cfg, "profile": jp, "seed": rng.randrange(1 << 30),
                      "family": "scores:over_k_few" if over else "scores:at_k_few"})
    return cases


def run_case(case):
    common.load_impl()
    info, mc = ruleslib.run_rule_case(case)
    el, prof = info["election"], info["profile"]
    tags = stvlib.tags_for(case, el)
    oracle = []
    if isinstance(prof, Err):
        return {"model": [], "oracle": [], "tags": tags + ["profile-rejected"], "nontrivial": False}
    jp = case["profile"]
    L, k = limits(case)
    m = case["cfg"]["m"]
    args_ok = m >= 1 and L > 0 and (k is None or (k > 0 and L <= k))
    if case["rule"] == "Limited" and Fraction(case["cfg"].get("k", "1")) > m:
        args_ok = False

    def ballot_ok(b):
        sc = {c: Fraction(v).limit_denominator() for c, v in (b.get("s") or {}).items() if Fraction(v).limit_denominator() != 0}
        return bool(sc) and all(0 <= v <= L for v in sc.values()) and (k is None or sum(sc.values()) <= k)
    prof_ok = all(ballot_ok(b) for b in jp["ballots"])
    cs = list(prof.candidates)
    totals = {c: sum((Fraction((b.get("s") or {}).get(c, 0)).limit_denominator() * Fraction(b["w"]) for b in jp["ballots"]), Fraction(0)) for c in cs}
    sc_sorted = sorted(totals.values(), reverse=True)
    straddle = 1 <= m < len(cs) and sc_sorted[m - 1] == sc_sorted[m]
    if not args_ok:
        want = Err("EValue")
    elif not prof_ok:
        want = Err("EType")
    elif m > len(cs) or (straddle and case["cfg"].get("tiebreak") is None):
        want = Err("EValue")
    else:
        want = None
    tags.append("expected:" + (repr(want) if want else "accept"))
    if want is not None:
        if el != want:
            oracle.append(f"expected {want}, got {el if isinstance(el, Err) else 'a result'}")
    elif isinstance(el, Err):
        oracle.append(f"valid score profile rejected with {el}")
    else:
        st0, st1 = el.election_states[0], el.election_states[1]
        got = {c: Fraction(v) for c, v in st0.scores.items()}
        if got != totals:
            oracle.append("totals differ from the sum over ballots of weight x score")
        oracle += ref.check_top_m(st1.elected, st1.remaining, got, m, st1.tiebreaks)
    nontrivial = case.get("family", "") not in ("scores:None", "scores:None+ranking") or sum(1 for v in totals.values() if v > 0) >= 2
    return {"model": [mc] if mc else [], "oracle": oracle, "tags": tags, "nontrivial": nontrivial}
