"""C04 — positional scores follow the definition exactly; Plurality/SNTV/Borda elect the top m."""
from __future__ import annotations
from fractions import Fraction
import common, vk, gen, ref, ruleslib
from common import S, Err, Names, call_impl

RULE = ("structured random + boundary profiles with tied positions of any size, partial ballots, "
        "zero-vote candidates, rational weights; score vectors shorter/equal/longer than n with int, "
        "Fraction and float entries; utilities and Plurality/SNTV/Borda elections. Non-trivial = the "
        "profile has a tied position or an unlisted candidate, or the election has >= 2 candidates "
        "and returns states; distinct by canonical JSON of the case")
TRUSTED = ["float score-vector entries are read as their exact dyadic value (Fraction(float))"]
ASSUMPTIONS = ["candidates listed on ballots are declared; every ballot has a ranking (C20 covers the rest)"]
model_post = ruleslib.model_post


def vec_val(x):
    if isinstance(x, str) and x.startswith("f"):
        return float(x[1:])
    return common.frac(x)


def gen_vector(rng, n):
    ln = rng.choice([n, n, n - 1, n + 2, 1, max(1, n - 2)])
    ln = max(1, ln)
    kind = rng.choice(["int", "int", "frac", "float", "borda", "fpv", "mixed"])
    if kind == "borda":
        return [str(i) for i in range(n, 0, -1)]
    if kind == "fpv":
        return ["1"] + ["0"] * (ln - 1)
    pal = {"int": ["0", "1", "2", "3", "5", "7"], "frac": ["0", "1/2", "1/3", "7/3", "2", "5/7"],
           "float": ["f0.1", "f0.5", "f0.25", "f1.5", "f0.3", "f2.0", "f0.0"],
           "mixed": ["0", "1", "1/3", "f0.5", "2", "f0.1"]}[kind]
    v = [rng.choice(pal) for _ in range(ln)]
    v.sort(key=lambda s: Fraction(vec_val(s)), reverse=True)
    if rng.random() < 0.06:                      # malformed: increasing or negative
        if rng.random() < 0.5 and len(v) > 1:
            v[0], v[-1] = v[-1], v[0]
        else:
            v[-1] = "-1"
    return v


def corpus_cases():
    # the float-division defect (repaired by a fix: commit): three candidates tied for one point
    return [{"kind": "fpv", "profile": {"ballots": [{"r": [["A", "B", "C"]], "w": "1"}], "cands": ["A", "B", "C"]}},
            {"kind": "score", "vector": ["1", "0", "0"],
             "profile": {"ballots": [{"r": [["A"]], "w": "1"}], "cands": ["A", "B", "C", "D"]}},
            {"kind": "score", "vector": ["f0.1", "f0.1", "f0.1"],
             "profile": {"ballots": [{"r": [["A", "B", "C"]], "w": "1"}], "cands": ["A", "B", "C"]}}]


def gen_cases(rng, tier):
    n = 900 if tier == "quick" else 12000
    cases = []
    for i in range(n):
        r = rng.random()
        jp, names = gen.ranked_profile(rng, ties=rng.random() < 0.7, weights="mixed", allow_large=True)
        if r < 0.4:
            cases.append({"kind": "score", "profile": jp, "vector": gen_vector(rng, len(names))})
        elif r < 0.5:
            cases.append({"kind": rng.choice(["fpv", "borda", "mentions"]), "profile": jp})
        elif r < 0.6:
            k = rng.randint(1, 6)
            d = {nm: rng.choice(["0", "1", "2", "1/2", "1/3", "2/6", "5"]) for nm in names[:k]}
            cases.append({"kind": "ranking", "scores": d, "high_low": rng.random() < 0.8})
        else:
            rule = rng.choice(["Plurality", "SNTV", "Borda"])
            m = rng.randint(1, len(names))
            cfg = {"m": m, "tiebreak": rng.choice([None, None, "random", "borda" if rule != "Borda" else "first_place"])}
            if rule == "Borda" and rng.random() < 0.5:
                cfg["score_vector"] = [x for x in gen_vector(rng, len(names)) if not x.startswith("f")] or None
            cases.append({"rule": rule, "cfg": cfg, "profile": jp, "seed": rng.randrange(1 << 30), "kind": "election"})
    return cases


def shrink(case):
    jp = case.get("profile")
    if not jp:
        return
    bs = jp["ballots"]
    for i in range(len(bs)):
        if len(bs) > 1:
            c = dict(case)
            c["profile"] = dict(jp, ballots=bs[:i] + bs[i + 1:])
            yield c
    for i, b in enumerate(bs):
        if b["w"] != "1":
            c = dict(case)
            nb = list(bs)
            nb[i] = dict(b, w="1")
            c["profile"] = dict(jp, ballots=nb)
            yield c


def run_case(case):
    common.load_impl()
    from votekit import utils as U
    kind = case["kind"]
    tags = ["kind:" + kind]
    oracle, model = [], []
    nontrivial = False
    if kind == "ranking":
        nm = Names(list(case["scores"].keys()))
        d = {c: common.frac(v) for c, v in case["scores"].items()}
        out = call_impl(U.score_dict_to_ranking, d, case["high_low"])
        model.append({"op": 8, "arg": [S([[nm.id(c), v] for c, v in d.items()]), case["high_low"]],
                      "expect": out if isinstance(out, Err) else vk.ranking_val(nm, out), "what": "score_dict_to_ranking"})
        if not isinstance(out, Err) and case["high_low"]:
            oracle += ref.check_ranking_groups(out, d)
        nontrivial = len(set(d.values())) < len(d)
        return {"model": model, "oracle": oracle, "tags": tags, "nontrivial": nontrivial}
    jp = case["profile"]
    prof = call_impl(vk.mk_profile, jp)
    if isinstance(prof, Err):
        return {"model": [], "oracle": [], "tags": tags + ["profile-rejected"], "nontrivial": False}
    import rules as R
    nm = Names(R.all_names(jp))
    pv = vk.jp_val(nm, jp, cands=list(prof.candidates))
    has_tie = any(len(g) > 1 for b in jp["ballots"] for g in b["r"])
    ncand = len(prof.candidates)
    partial = any(sum(len(g) for g in b["r"]) < ncand for b in jp["ballots"])
    nontrivial = has_tie or partial
    tags += ["ties" if has_tie else "untied", "partial" if partial else "complete", f"ncands:{ncand}"]
    if kind in ("score", "fpv", "borda", "mentions"):
        if kind == "score":
            vec = [vec_val(x) for x in case["vector"]]
            out = call_impl(U.score_profile_from_rankings, prof, vec)
            exact = [Fraction(x) for x in vec]
            model.append({"op": 4, "arg": [pv, exact], "expect": out if isinstance(out, Err) else vk.scores_val(nm, out),
                          "what": "score_profile_from_rankings"})
            tags.append("veclen:%+d" % (len(vec) - ncand))
            tags.append("vec:" + ("float" if any(isinstance(x, float) for x in vec) else "exact"))
            valid = all(x >= 0 for x in exact) and all(exact[i] >= exact[i + 1] for i in range(len(exact) - 1))
            if valid:
                if isinstance(out, Err):
                    oracle.append(f"valid vector and profile rejected with {out}")
                else:
                    want = ref.positional_scores(jp, exact)
                    got = {str(c): Fraction(v) for c, v in out.items()}
                    if got != {str(c): v for c, v in want.items()}:
                        oracle.append("score differs from the definition: got %s want %s" % (
                            {c: str(v) for c, v in got.items()}, {c: str(v) for c, v in want.items()}))
                    tot = ref.total_weight(jp) * sum((exact + [Fraction(0)] * ncand)[:ncand], Fraction(0))
                    if sum(got.values(), Fraction(0)) != tot:
                        oracle.append(f"points handed out sum to {sum(got.values(), Fraction(0))}, not weight*vector total {tot}")
                    if not all(isinstance(v, Fraction) for v in out.values()):
                        oracle.append("scores are not exact rationals")
            else:
                tags.append("invalid-vector")
                if not (isinstance(out, Err) and out == Err("EValue")):
                    oracle.append(f"invalid score vector not rejected with ValueError: {out}")
        else:
            fn = {"fpv": U.first_place_votes, "borda": U.borda_scores, "mentions": U.mentions}[kind]
            out = call_impl(fn, prof)
            model.append({"op": {"fpv": 5, "borda": 6, "mentions": 7}[kind], "arg": pv,
                          "expect": out if isinstance(out, Err) else vk.scores_val(nm, out), "what": kind})
            if isinstance(out, Err):
                oracle.append(f"{kind} rejected a valid profile: {out}")
            else:
                got = {str(c): Fraction(v) for c, v in out.items()}
                if kind == "mentions":
                    want = {c: sum((Fraction(b["w"]) for b in jp["ballots"] if any(c in g for g in b["r"])), Fraction(0))
                            for c in ref.jp_candidates(jp)}
                else:
                    vec = [1] + [0] * ncand if kind == "fpv" else list(range(ncand, 0, -1))
                    want = ref.positional_scores(jp, vec)
                if got != {str(c): v for c, v in want.items()}:
                    oracle.append(f"{kind} differs from its definition: got {got} want {want}")
        return {"model": model, "oracle": oracle, "tags": tags, "nontrivial": nontrivial}
    # elections
    info, mc = ruleslib.run_rule_case(case)
    el = info["election"]
    if mc:
        model.append(mc)
    tags += [f"rule:{case['rule']}", f"tiebreak:{case['cfg'].get('tiebreak')}"]
    m = case["cfg"]["m"]
    vecj0 = case["cfg"].get("score_vector")
    if case["rule"] == "Borda":
        vec0 = [common.frac(x) for x in vecj0] if vecj0 else list(range(ncand, 0, -1))
    else:
        vec0 = [1] + [0] * ncand
    valid_vec = all(x >= 0 for x in vec0) and all(vec0[i] >= vec0[i + 1] for i in range(len(vec0) - 1))
    sc_sorted = sorted(ref.positional_scores(jp, vec0).values(), reverse=True) if valid_vec else []
    straddle = valid_vec and 1 <= m < ncand and sc_sorted[m - 1] == sc_sorted[m]
    must_raise = (not valid_vec) or m < 1 or m > ncand or (straddle and case["cfg"].get("tiebreak") is None)
    if isinstance(el, Err):
        tags.append("outcome:" + repr(el))
        if el != Err("EValue"):
            oracle.append(f"unexpected exception {el}")
        elif not must_raise:
            oracle.append("ValueError although m is in range and no untied boundary tie exists")
    elif must_raise:
        oracle.append("a result was returned although a boundary tie / invalid request requires ValueError")
    else:
        st0, st1 = el.election_states[0], el.election_states[1]
        vecj = case["cfg"].get("score_vector")
        if case["rule"] == "Borda":
            vec = [common.frac(x) for x in vecj] if vecj else list(range(ncand, 0, -1))
        else:
            vec = [1] + [0] * ncand
        want = {str(c): v for c, v in ref.positional_scores(jp, vec).items()}
        got = {str(c): Fraction(v) for c, v in st0.scores.items()}
        if got != want:
            oracle.append("round-0 scores differ from the definition")
        oracle += ref.check_ranking_groups(st0.remaining, {str(c): v for c, v in got.items()}, "round-0 ranking")
        oracle += ref.check_top_m(st1.elected, st1.remaining, got, m, st1.tiebreaks)
        if st1.tiebreaks:
            tags.append("has_tiebreak")
    nontrivial = nontrivial or (ncand >= 2 and not isinstance(el, Err))
    return {"model": model, "oracle": oracle, "tags": tags, "nontrivial": nontrivial}
