"""C02 — each STV/IRV/SequentialRCV round is a legal step of the documented count."""
from __future__ import annotations
from fractions import Fraction
import common, vk, gen, ref, rules, ruleslib, stvlib
from common import S, Err, Names, call_impl

RULE = ("STV, IRV, SequentialRCV on profiles of untied ranked ballots (boundary families: tallies at/around the "
        "threshold, ties at the top / at the elimination end / only on initial tallies, more reachers than seats, "
        "early exhaustion, zero-vote candidates; small-scope; random) x m x quota x simultaneous x tiebreak, with the "
        "fractional / full-weight transfer; every round compared with an independent reference count written from "
        "the property text (the implementation's recorded tiebreak resolutions are fed to it and checked for "
        "admissibility). Non-trivial = at least 2 rounds; distinct by canonical JSON")
model_post = ruleslib.model_post


def known_finding(case, kind, detail):
    d = str(detail)
    if "over-election" in d or "Err(EIndex)" in d:
        return "stv-over-election"
    if "Err(EZeroDiv)" in d:
        return "hare-zero-quota"
    return None


def gen_cases(rng, tier):
    n = 900 if tier == "quick" else 12000
    return stvlib.gen_stv_cases(rng, n, transfers=("fractional",))


def flat(groups):
    return [c for g in groups for c in g]


def run_case(case):
    common.load_impl()
    info, mc = ruleslib.run_rule_case(case)
    el, prof = info["election"], info["profile"]
    tags = stvlib.tags_for(case, el)
    oracle = []
    if isinstance(prof, Err):
        return {"model": [], "oracle": [], "tags": tags, "nontrivial": False}
    cfg, rule = case["cfg"], case["rule"]
    m = 1 if rule == "IRV" else cfg["m"]
    sim = True if rule == "IRV" else cfg.get("simultaneous", True)
    ncand = len(prof.candidates)
    model = [mc] if mc else []
    if not (1 <= m <= ncand):
        if el != Err("EValue"):
            oracle.append("m out of range not rejected with ValueError")
        return {"model": model, "oracle": oracle, "tags": tags, "nontrivial": False}
    sts = None if isinstance(el, Err) else el.election_states

    def choose(rnd, kind, tied, allowed):
        if sts is None or rnd >= len(sts):
            raise ref.NeedsTiebreak(kind)
        tb = sts[rnd].tiebreaks
        rec = None
        for k, v in tb.items():
            if set(k) == tied:
                rec = [c for g in v for c in g]
        if rec is None:
            raise ref.NeedsTiebreak(kind + ":unrecorded")
        x = rec[0] if kind == "elect" else rec[-1]
        if x not in allowed:
            oracle.append(f"round {rnd}: recorded tiebreak picks {x}, but only {sorted(map(str, allowed))} have the lowest initial first-place tally")
        return x
    try:
        t, rounds = ref.stv_reference(case["profile"], m, cfg.get("quota", "droop"), sim, rule == "SequentialRCV", choose)
        undefined = None
    except ref.NeedsTiebreak as e:
        t, rounds, undefined = None, None, "tie:" + str(e)
    except ref.SpecUndefined as e:
        t, rounds, undefined = None, None, "undefined:" + str(e)
    except ZeroDivisionError:
        t, rounds, undefined = None, None, "undefined:zero tally"
    if undefined:
        tags.append(undefined.split(":")[0])
        if undefined.startswith("tie"):
            if "unrecorded" in undefined:
                oracle.append("a genuine tie was resolved without a recorded tiebreak")
            elif sts is not None:
                pass
            elif el != Err("EValue"):
                oracle.append(f"a top tie without tiebreak raised {el} instead of ValueError")
        else:
            if sts is None:
                oracle.append(f"over-election / undefined count: implementation raised {el}")
        return {"model": model, "oracle": oracle, "tags": tags, "nontrivial": False}
    if sts is None:
        oracle.append(f"the documented count is defined (threshold {t}) but the implementation raised {el}")
        return {"model": model, "oracle": oracle, "tags": tags, "nontrivial": False}
    if el.threshold != t:
        oracle.append(f"threshold {el.threshold} is not the integer quota {t}")
    if len(sts) - 1 != len(rounds):
        oracle.append(f"{len(sts) - 1} rounds instead of {len(rounds)}")
    for r, (st, want) in enumerate(zip(sts[1:], rounds), start=1):
        got_el = [set(g) for g in st.elected if len(g)]
        got_elim = set(flat(st.eliminated))
        if got_el != want["elected"] and not (not sim and flat(got_el) == flat(want["elected"])):
            oracle.append(f"round {r}: elected {got_el}, the count elects {want['elected']}")
            break
        if got_elim != want["eliminated"]:
            oracle.append(f"round {r}: eliminated {got_elim}, the count eliminates {want['eliminated']}")
            break
        if {str(c): v for c, v in st.scores.items()} != {str(c): v for c, v in want["tallies"].items()}:
            oracle.append(f"round {r}: reported tallies are not the first-place weights of the resulting ballots")
            break
        oracle += ref.check_ranking_groups(st.remaining, {c: v for c, v in st.scores.items()}, f"round {r} order") if st.scores else []
    return {"model": model, "oracle": oracle, "tags": tags, "nontrivial": len(sts) > 2}
