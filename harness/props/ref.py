"""Reference computations written from the PROPERTY TEXTS (not from the code): used as oracles to
decide whether the implementation's output satisfies a property on a given input, and as the
search engine for failing inputs once a proof obligation or the correspondence has broken."""
from __future__ import annotations
from fractions import Fraction
import itertools


def jp_candidates(jp):
    """Declared candidates, or those cast on positive-weight ballots when left to be inferred."""
    if jp.get("cands") is not None:
        return list(jp["cands"])
    seen = []
    for b in jp["ballots"]:
        if Fraction(b.get("w", "1")) > 0:
            for g in (b.get("r") or []):
                for c in g:
                    if c not in seen:
                        seen.append(c)
            for c in (b.get("s") or {}):
                if c not in seen:
                    seen.append(c)
    return seen


def positional_scores(jp, vector):
    """C04: weight-summed points of the positions each candidate occupies; a tied position shares
    the mean of the points it spans; unlisted candidates share the remaining points equally."""
    cands = jp_candidates(jp)
    n = len(cands)
    v = [Fraction(x) for x in vector] + [Fraction(0)] * max(0, n - len(vector))
    out = {c: Fraction(0) for c in cands}
    for b in jp["ballots"]:
        w = Fraction(b.get("w", "1"))
        groups = [list(g) for g in b["r"]]
        listed = {c for g in groups for c in g}
        missing = [c for c in cands if c not in listed]
        if missing:
            groups = groups + [missing]
        i = 0
        for g in groups:
            k = len(g)
            share = sum(v[i:i + k], Fraction(0)) / k
            for c in g:
                out[c] += w * share
            i += k
    return out


def total_weight(jp):
    return sum((Fraction(b.get("w", "1")) for b in jp["ballots"]), Fraction(0))


def strip(ranking, removed):
    out = []
    for g in ranking or []:
        g2 = [c for c in g if c not in removed]
        if g2:
            out.append(g2)
    return out


def rk_key(r):
    return tuple(frozenset(g) for g in (r or []))


def weight_by_ranking(ballots):
    """ballots: iterable of (ranking, weight) -> dict ranking-key -> weight (zero totals dropped)."""
    d = {}
    for r, w in ballots:
        k = rk_key(r)
        d[k] = d.get(k, Fraction(0)) + Fraction(w)
    return {k: w for k, w in d.items() if w != 0}


def vk_weight_by_ranking(vk_ballots):
    return weight_by_ranking((b.ranking or (), b.weight) for b in vk_ballots)


def vk_weight_by_content(vk_ballots):
    d = {}
    for b in vk_ballots:
        k = (tuple(b.ranking) if b.ranking else (), frozenset(b.scores.items()) if b.scores else frozenset())
        d[k] = d.get(k, Fraction(0)) + b.weight
    return d


def check_ranking_groups(groups, scores, what="ranking"):
    """groups (tuple of frozensets) must partition the keys of scores, equal scores together,
    strictly decreasing between groups."""
    fails = []
    flat = [c for g in groups for c in g]
    if sorted(map(str, flat)) != sorted(map(str, scores.keys())):
        fails.append(f"{what}: groups do not partition the scored candidates")
        return fails
    prev = None
    for g in groups:
        vals = {scores[c] for c in g}
        if len(g) == 0 and len(scores) > 0:
            fails.append(f"{what}: empty group")
        if len(vals) > 1:
            fails.append(f"{what}: group {sorted(g)} mixes different scores")
        if vals:
            v = next(iter(vals))
            if prev is not None and not (v < prev):
                fails.append(f"{what}: groups not strictly decreasing")
            prev = v
    return fails


def check_top_m(elected, remaining, scores, m, tiebreaks, what="top-m"):
    """C04/C05: m winners, none lower than any loser, descending order, equal scores tied unless a
    recorded tiebreak separated them."""
    fails = []
    el = [c for g in elected for c in g]
    rem = [c for g in remaining for c in g]
    if len(el) != m:
        fails.append(f"{what}: {len(el)} elected instead of {m}")
    if sorted(map(str, el + rem)) != sorted(map(str, scores.keys())):
        fails.append(f"{what}: elected+remaining is not the candidate set")
        return fails
    if el and rem and min(scores[c] for c in el) < max(scores[c] for c in rem):
        fails.append(f"{what}: an elected candidate has a lower score than a non-elected one")
    seq = list(elected) + list(remaining)
    tb_sets = [set(k) for k in tiebreaks.keys()]
    prev = None
    for g in seq:
        vals = {scores[c] for c in g}
        if len(vals) > 1:
            fails.append(f"{what}: group {sorted(map(str, g))} mixes scores")
        for c in g:
            if prev is not None and scores[c] > prev:
                fails.append(f"{what}: not in descending score order")
        if vals:
            prev = min(vals)
    # equal scores must share a group unless a recorded tiebreak covers both
    pos = {c: i for i, g in enumerate(seq) for c in g}
    cs = list(scores.keys())
    for a, b in itertools.combinations(cs, 2):
        if scores[a] == scores[b] and pos[a] != pos[b]:
            if not any(a in t and b in t for t in tb_sets):
                fails.append(f"{what}: {a} and {b} have equal scores but are separated without a recorded tiebreak")
                break
    return fails


# ---------------------------------------------------------------------------- reference STV count
class NeedsTiebreak(Exception):
    """The documented count requires an order among tied candidates that was not supplied."""


class SpecUndefined(Exception):
    """The property text does not say what happens (e.g. more quota-reachers than seats)."""


def stv_reference(jp, m, quota="droop", simultaneous=True, full_weight=False, choose=None):
    """The count of C02, written from the property text.  `choose(round, kind, tied_set, allowed)`
    supplies the implementation's recorded resolution for a genuine tie (kind 'elect'/'eliminate');
    it must return a member of `allowed`.  Returns (threshold, rounds) where each round is
    dict(elected=[set,...], eliminated=set, tallies={c: w}, profile={ranking: w})."""
    cands = list(jp_candidates(jp))
    prof = {}
    for b in jp["ballots"]:
        k = tuple(g[0] for g in b["r"])
        prof[k] = prof.get(k, Fraction(0)) + Fraction(b["w"])
    N = sum(prof.values(), Fraction(0))
    import math
    t = math.floor(N / (m + 1)) + 1 if quota == "droop" else math.floor(N / m)

    def tally(p, cs):
        d = {c: Fraction(0) for c in cs}
        for r, w in p.items():
            d[r[0]] += w
        return d
    init = tally(prof, cands)
    remaining = list(cands)
    n_elected = 0
    rounds = []
    rnd = 0
    while n_elected < m:
        rnd += 1
        if rnd > len(cands) + 3:
            raise SpecUndefined("count does not terminate")
        tl = tally(prof, remaining)
        reach = [c for c in remaining if tl[c] >= t]
        elected, eliminated = [], set()
        if reach:
            if simultaneous:
                W = list(reach)
            else:
                top = max(tl[c] for c in reach)
                tied = [c for c in reach if tl[c] == top]
                if len(tied) > 1:
                    if choose is None:
                        raise NeedsTiebreak("elect")
                    W = [choose(rnd, "elect", set(tied), set(tied))]
                else:
                    W = tied
            if len(W) > m - n_elected:
                raise SpecUndefined("more candidates reach the threshold than seats remain")
            new = {}
            for r, w in prof.items():
                h = r[0]
                f = Fraction(1)
                if h in W and not full_weight:
                    f = (tl[h] - t) / tl[h]
                r2 = tuple(c for c in r if c not in W)
                if r2 and w * f > 0:
                    new[r2] = new.get(r2, Fraction(0)) + w * f
            by = {}
            for c in W:
                by.setdefault(tl[c], set()).add(c)
            elected = [by[k] for k in sorted(by, reverse=True)]
            prof = new
            remaining = [c for c in remaining if c not in W]
            n_elected += len(W)
        elif len(remaining) == m - n_elected:
            by = {}
            for c in remaining:
                by.setdefault(tl[c], set()).add(c)
            elected = [by[k] for k in sorted(by, reverse=True)]
            n_elected += len(remaining)
            remaining = []
            prof = {}
        else:
            low = min(tl[c] for c in remaining)
            L = [c for c in remaining if tl[c] == low]
            if len(L) > 1:
                lowi = min(init[c] for c in L)
                allowed = {c for c in L if init[c] == lowi}
                x = choose(rnd, "eliminate", set(L), allowed) if choose else None
                if x is None:
                    raise NeedsTiebreak("eliminate")
            else:
                x = L[0]
            eliminated = {x}
            new = {}
            for r, w in prof.items():
                r2 = tuple(c for c in r if c != x)
                if r2:
                    new[r2] = new.get(r2, Fraction(0)) + w
            prof = new
            remaining = [c for c in remaining if c != x]
        rounds.append(dict(elected=elected, eliminated=eliminated, tallies=tally(prof, remaining), profile=dict(prof)))
    return t, rounds
