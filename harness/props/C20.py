"""C20 — invalid requests are rejected up front with the documented error."""
from __future__ import annotations
from fractions import Fraction
import copy
import common, vk, gen, ref, rules, ruleslib, stvlib
from common import S, Err, Names, call_impl
from recorder import Recorder, installed

RULE = ("the malformed stream: for each documented precondition, inputs violating exactly that precondition (by "
        "the smallest margin and grossly, in the first and in the last ballot / entry) while satisfying the others, "
        "plus the valid neighbour just inside the boundary (m = n, sums within 1e-10 of 1): missing ranking, tied "
        "position (STV family), non-integer weight (PluralityVeto, random transfer), missing scores, m out of range, "
        "Alaska stage order, negative/increasing score vector, rating limits, unknown quota, bloc proportions, "
        "cohesion rows, bloc names, overlapping intervals, duplicate candidates. Non-trivial = every case (each "
        "exercises one guard or its boundary); distinct by canonical JSON")
ASSUMPTIONS = ["rounded comparisons round(sum, 8) != 1: generated sums are either within 1e-10 of 1 or at least 1e-7 away"]
model_post = ruleslib.model_post

RANK = ["STV", "IRV", "SequentialRCV", "Plurality", "SNTV", "Borda", "TopTwo", "Alaska", "DominatingSets",
        "CondoBorda", "RandomDictator", "BoostedRandomDictator", "PluralityVeto"]
STVFAM = ["STV", "IRV", "SequentialRCV", "Alaska"]


def base_case(rng, rule):
    n = rng.choice([2, 3, 4])
    jp, names = gen.ranked_profile(rng, n_cands=n, ties=False, zero_vote=0, explicit_cands=1.0, weights="int")
    for b in jp["ballots"]:
        b["w"] = str(min(5, int(Fraction(b["w"]))))
    cfg = {"m": rng.randint(1, n), "tiebreak": "random"}
    if rule in ("DominatingSets",):
        cfg = {}
    if rule in ("CondoBorda", "RandomDictator", "BoostedRandomDictator"):
        cfg = {"m": cfg["m"]}
    if rule == "TopTwo":
        cfg = {"tiebreak": "random"}
    if rule == "IRV":
        cfg = {"tiebreak": "random"}
    if rule == "Alaska":
        m1 = rng.randint(1, n)
        cfg = {"m_1": m1, "m_2": rng.randint(1, m1), "tiebreak": "random"}
    return {"rule": rule, "cfg": cfg, "profile": jp, "seed": rng.randrange(1 << 30)}, n


def gen_cases(rng, tier):
    n = 700 if tier == "quick" else 9000
    cases = []
    for i in range(n):
        r = rng.random()
        if r < 0.62:
            rule = rng.choice(RANK)
            c, nc = base_case(rng, rule)
            pos = rng.choice([0, -1])
            kinds = ["no_ranking", "m_zero", "m_over", "m_equal_n"]
            if rule in STVFAM:
                kinds += ["bad_quota"]
            if rule in ("STV", "IRV", "SequentialRCV"):     # Alaska's first stage is Plurality, which admits ties
                kinds += ["tied", "tied"]
            if rule == "PluralityVeto":
                kinds += ["frac_weight", "frac_weight", "pv_tie_no_tiebreak"]
            if rule == "STV":
                kinds += ["random_transfer_frac_weight"]
            if rule == "Alaska":
                kinds += ["alaska_order", "alaska_zero"]
            if rule == "Borda":
                kinds += ["vector_negative", "vector_increasing", "vector_ok_flat"]
            v = rng.choice(kinds)
            bs = c["profile"]["ballots"]
            if v == "no_ranking":
                bs[pos] = {"r": None, "s": {c["profile"]["cands"][0]: "1"}, "w": bs[pos]["w"]}
            elif v in ("m_zero", "m_over", "m_equal_n"):
                val = {"m_zero": 0, "m_over": nc + 1, "m_equal_n": nc}[v]
                if rule == "Alaska":
                    c["cfg"]["m_1"], c["cfg"]["m_2"] = (nc + 1, 1) if v == "m_over" else ((nc, nc) if v == "m_equal_n" else (0, 0))
                elif "m" in c["cfg"]:
                    c["cfg"]["m"] = val
                else:
                    v = "valid"
            elif v == "tied":
                if rule == "STV" and rng.random() < 0.5:
                    c["cfg"]["transfer"] = "random"        # the tie must be refused under every transfer rule
                    for b in bs:
                        b["w"] = str(max(1, int(Fraction(b["w"]))))
                r0 = bs[pos]["r"]
                if len(r0) >= 2:
                    j = rng.randrange(len(r0) - 1)          # a tie in ANY position, not only the first
                    bs[pos]["r"] = r0[:j] + [r0[j] + r0[j + 1]] + r0[j + 2:]
                else:
                    other = [x for x in c["profile"]["cands"] if x != r0[0][0]][0]
                    bs[pos]["r"] = [[r0[0][0], other]]
            elif v == "bad_quota":
                c["cfg"]["quota"] = "drop"
            elif v == "frac_weight":
                bs[pos]["w"] = rng.choice(["3/2", "1000001/1000000"])
            elif v == "pv_tie_no_tiebreak":
                c["cfg"]["tiebreak"] = None
                r0 = bs[pos]["r"]
                other = [x for x in c["profile"]["cands"] if x not in [g[0] for g in r0]]
                bs[pos]["r"] = r0[:-1] + [[r0[-1][0]] + other[:1]] if other else [[r0[0][0]]] + []
                if not other:
                    v = "valid"
            elif v == "random_transfer_frac_weight":
                c["cfg"]["transfer"] = "random"
                # any ballot, any seat count: the election must be refused whether or not a surplus of
                # that ballot would ever be moved (the check used to be lazy: known_findings `fixed`)
                bs[pos]["w"] = rng.choice(["3/2", "41/2", "1/3", "1000001/1000000"])
                if rng.random() < 0.3:
                    top = bs[0]["r"][0][0]
                    bs.insert(0, {"r": [[top]] + [[x] for x in c["profile"]["cands"] if x != top][:1], "w": "41/2"})
            elif v == "alaska_order":
                c["cfg"]["m_1"], c["cfg"]["m_2"] = 1, 2
            elif v == "alaska_zero":
                c["cfg"]["m_2"] = 0
            elif v == "vector_negative":
                c["cfg"]["score_vector"] = [str(x) for x in range(nc - 1, 0, -1)] + [rng.choice(["-1/1000000", "-3"])]
            elif v == "vector_increasing":
                c["cfg"]["score_vector"] = rng.choice([["1", rng.choice(["1000001/1000000", "5"])] + ["0"] * max(0, nc - 2),
                                                       ["1", "0", rng.choice(["2", "1/1000000"])],     # the increase comes right after a zero
                                                       ["0", "1"]])
            elif v == "vector_ok_flat":
                c["cfg"]["score_vector"] = ["1"] * nc
            c["violation"] = v
            c["kind"] = "rule"
            cases.append(c)
        elif r < 0.78:
            cs = ruleslib.gen_rule_cases(rng, 1, rule_pool=ruleslib.SCORE_RULES)
            for c in cs:
                v = rng.choice(["none", "L_zero", "k_zero", "k_negative", "L_over_k", "limited_k_over_m", "m_zero"])
                if v == "L_zero" and c["rule"] in ("GeneralRating", "Rating"):
                    c["cfg"]["L"] = rng.choice(["0", "-1"])
                elif v in ("k_zero", "k_negative") and c["rule"] in ("GeneralRating",):
                    c["cfg"]["k"] = "0" if v == "k_zero" else "-1"
                elif v == "L_over_k" and c["rule"] == "GeneralRating":
                    c["cfg"]["L"], c["cfg"]["k"] = "2", "1999999/1000000"
                elif v == "limited_k_over_m" and c["rule"] == "Limited":
                    c["cfg"]["k"] = common.fstr(Fraction(c["cfg"]["m"]) + Fraction(1, 1000000))
                elif v == "m_zero":
                    c["cfg"]["m"] = 0
                else:
                    v = "none"
                c["violation"] = "score:" + v
                c["kind"] = "rule"
                cases.append(c)
        elif r < 0.9:
            nb = rng.choice([1, 2, 3])
            blocs = ["W", "C", "X"][:nb]
            props = {b: Fraction(1, nb) for b in blocs}
            coh = {b: {b2: Fraction(1, nb) for b2 in blocs} for b in blocs}
            ikeys = list(blocs)
            v = rng.choice(["valid", "valid_near_one", "props_sum", "props_sum_small", "cohesion_sum", "names_intervals", "names_cohesion"])
            if v == "valid_near_one":
                props[blocs[0]] += Fraction(1, 10 ** 11)
            elif v == "props_sum":
                props[blocs[0]] += Fraction(1, 10)
            elif v == "props_sum_small":
                props[blocs[-1]] -= Fraction(1, 10 ** 7)
            elif v == "cohesion_sum":
                coh[blocs[-1]][blocs[0]] += Fraction(1, 10 ** 6)
            elif v == "names_intervals":
                ikeys[-1] = "other"
            elif v == "names_cohesion":
                coh["other"] = coh.pop(blocs[-1])
            cases.append({"kind": "blocs", "violation": v, "props": {b: common.fstr(x) for b, x in props.items()},
                          "interval_keys": ikeys, "cohesion": {b: {b2: common.fstr(x) for b2, x in row.items()} for b, row in coh.items()}})
        else:
            v = rng.choice(["valid", "overlap", "overlap_zero", "valid_zero", "props_sum", "dup_candidates", "dup_ok"])
            if v in ("dup_candidates", "dup_ok"):
                cands = ["A", "B", "C"] + (["A"] if v == "dup_candidates" else [])
                rng.shuffle(cands)
                cases.append({"kind": "dupcands", "violation": v, "cands": cands})
            else:
                ints = [["A", "B"], ["C", "D"]] if rng.random() < 0.5 else [["A", "B", "E"], ["C", "D"], ["F"]]
                props = [Fraction(1, len(ints))] * len(ints)
                sups = [[rng.choice([1.0, 2.0, 0.5]) for _ in cs] for cs in ints]
                if v == "overlap":
                    ints[1][0] = "B"
                if v == "overlap_zero":
                    # the shared candidate has zero support in one of the two intervals (or in both)
                    ints[1][0] = "B"
                    if rng.random() < 0.5:
                        sups[0][1] = 0.0
                    if rng.random() < 0.5 or sups[0][1] != 0.0:
                        sups[1][0] = 0.0
                if v == "valid_zero":
                    sups[0][0] = 0.0
                if v == "props_sum":
                    props[1] += Fraction(1, 10 ** 6)
                cases.append({"kind": "combine", "violation": "valid" if v == "valid_zero" else ("overlap" if v == "overlap_zero" else v),
                              "family": v, "intervals": ints, "supports": sups, "props": [common.fstr(x) for x in props]})
    return cases


EXPECT = {"no_ranking": "EType", "m_zero": "EValue", "m_over": "EValue", "tied": "EType", "bad_quota": "EValue",
          "frac_weight": "EType", "random_transfer_frac_weight": "EType", "alaska_order": "EValue",
          "alaska_zero": "EValue", "vector_negative": "EValue", "vector_increasing": "EValue",
          "score:L_zero": "EValue", "score:k_zero": "EValue", "score:k_negative": "EValue", "score:L_over_k": "EValue",
          "score:limited_k_over_m": "EValue", "score:m_zero": "EValue"}


def run_case(case):
    common.load_impl()
    kind, v = case["kind"], case["violation"]
    tags = ["kind:" + kind, "violation:" + v]
    oracle, model = [], []
    if kind == "rule":
        info, mc = ruleslib.run_rule_case(case)
        el, prof = info["election"], info["profile"]
        tags.append("rule:" + case["rule"])
        if isinstance(prof, Err):
            return {"model": [], "oracle": [], "tags": tags + ["profile-rejected"], "nontrivial": False}
        if mc:
            model.append(mc)
        want = EXPECT.get(v)
        if v == "no_ranking" and case["rule"] in ruleslib.SCORE_RULES:
            want = None
        if v == "pv_tie_no_tiebreak":
            tags.append("pv-attribute-error")
            if el != Err("EAttr"):
                oracle.append(f"PluralityVeto with ties and no tiebreak: expected AttributeError as documented, got {el if isinstance(el, Err) else 'a result'}")
        elif want:
            if el != Err(want):
                oracle.append(f"{v}: expected {want} before any result, got {el if isinstance(el, Err) else 'a result'}")
        elif v in ("m_equal_n", "vector_ok_flat", "valid", "score:none"):
            if isinstance(el, Err) and el not in (Err("EValue"), Err("EType")) and case["rule"] not in ("PluralityVeto", "RandomDictator", "BoostedRandomDictator"):
                oracle.append(f"valid request raised {el}")
            if v == "m_equal_n" and isinstance(el, Err) and el == Err("EValue") and case["rule"] in ("Plurality", "SNTV", "Borda", "CondoBorda"):
                oracle.append("m = number of candidates rejected")
        return {"model": model, "oracle": oracle, "tags": tags, "nontrivial": True}
    if kind == "blocs":
        from votekit.ballot_generator import name_PlackettLuce
        from votekit.pref_interval import PreferenceInterval
        blocs = list(case["props"].keys())
        slate = {b: [b + "1", b + "2"] for b in set(blocs) | set(case["interval_keys"]) | set(case["cohesion"].keys())}
        ints = {b: {b2: PreferenceInterval({c: 0.5 for c in slate[b2]}) for b2 in blocs} for b in case["interval_keys"]}
        out = call_impl(lambda: name_PlackettLuce(
            candidates=[c for b in blocs for c in slate[b]], pref_intervals_by_bloc=ints,
            bloc_voter_prop={b: float(Fraction(x)) for b, x in case["props"].items()},
            cohesion_parameters={b: {b2: float(Fraction(x)) for b2, x in row.items()} for b, row in case["cohesion"].items()}))
        allb = sorted(slate.keys())
        bid = {b: i + 1 for i, b in enumerate(allb)}
        arg = [S([[bid[b], Fraction(x)] for b, x in case["props"].items()]), [bid[b] for b in case["interval_keys"]],
               [[bid[b], S([[bid[b2], Fraction(x)] for b2, x in row.items()])] for b, row in case["cohesion"].items()]]
        model.append({"op": 65, "arg": arg, "expect": out if isinstance(out, Err) else None, "what": "BallotGenerator.__init__ bloc checks"})
        bad = v not in ("valid", "valid_near_one")
        if bad and not common.is_err(out, "EValue"):
            oracle.append(f"{v}: expected ValueError, got {out if isinstance(out, Err) else 'a generator'}")
        if not bad and isinstance(out, Err):
            oracle.append(f"valid bloc parameters rejected: {out}")
        return {"model": model, "oracle": oracle, "tags": tags, "nontrivial": True}
    if kind == "combine":
        from votekit.pref_interval import PreferenceInterval, combine_preference_intervals
        sups = case.get("supports") or [[1.0] * len(cs) for cs in case["intervals"]]
        ints = [PreferenceInterval(dict(zip(cs, ss))) for cs, ss in zip(case["intervals"], sups)]
        tags.append("family:" + case.get("family", v))
        out = call_impl(combine_preference_intervals, ints, [float(Fraction(x)) for x in case["props"]])
        ids = {c: i + 1 for i, c in enumerate(sorted({c for cs in case["intervals"] for c in cs}))}
        model.append({"op": 66, "arg": [[[ids[c] for c in cs] for cs in case["intervals"]], [Fraction(x) for x in case["props"]]],
                      "expect": out if isinstance(out, Err) else None, "what": "combine_preference_intervals checks"})
        if v != "valid" and not common.is_err(out, "EValue"):
            oracle.append(f"{v}: expected ValueError, got {out if isinstance(out, Err) else 'an interval'}")
        if v == "valid" and isinstance(out, Err):
            oracle.append(f"valid intervals rejected: {out}")
        return {"model": model, "oracle": oracle, "tags": tags, "nontrivial": True}
    # dupcands
    from votekit import PreferenceProfile
    out = call_impl(lambda: PreferenceProfile(candidates=tuple(case["cands"])))
    nm = Names(sorted(set(case["cands"])))
    model.append({"op": 51, "arg": [[], [nm.id(c) for c in case["cands"]]],
                  "expect": out if isinstance(out, Err) else [vk.profile_val(nm, out), 0, Fraction(0), S([])],
                  "what": "PreferenceProfile(candidates=...) uniqueness"})
    if v == "dup_candidates" and out != Err("EValue"):
        oracle.append("duplicate candidates not rejected with ValueError")
    if v == "dup_ok" and isinstance(out, Err):
        oracle.append(f"valid candidate list rejected: {out}")
    return {"model": model, "oracle": oracle, "tags": tags, "nontrivial": True}
