"""C11 — ballot and profile values are exact, immutable and condense/compare by content."""
from __future__ import annotations
from fractions import Fraction
import random as _random
import common, vk, gen, ref
from common import S, Err, Names, call_impl

RULE = ("ballots with ranking only / scores only / both / neither, ids and voter sets, int/float/Fraction "
        "weights and scores (zeros, tiny values, huge denominators); profiles built from them in "
        "shuffled orders incl. mixtures of ranked, scored and empty ballots; kinds: ctor, immutable, "
        "derived, dupcands, condense, eq, add. Non-trivial = at least two ballots share a content, or a "
        "conversion changes the value, or an attribute write is attempted; distinct by canonical JSON")
ORACLE_ONLY = ["attribute immutability (Python run-time behaviour; no counterpart in a language of immutable values)",
               "'closest fraction' for float inputs: checked as den <= 10^6 and error <= 1/(2*10^6); CPython's limit_denominator is the oracle"]
TRUSTED = ["CPython Fraction.limit_denominator returns a closest fraction (the Gallina port is validated against it on every run)"]
ASSUMPTIONS = ["ranking=None and ranking=() are identified (the library itself only produces None)"]

NAMES = ["A", "B", "C", "D"]
W_CTOR = [("i", "1"), ("i", "3"), ("i", "0"), ("q", "1/2"), ("q", "7/3"), ("q", "1/3000001"),
          ("q", "2000003/1000003"), ("f", "0.1"), ("f", "0.5"), ("f", "0.3333333333333333"),
          ("f", "2.675"), ("f", "1e-07"), ("f", "123456.789"), ("i", "1000000"), ("f", "0.0")]


def num(kind_val):
    k, v = kind_val
    if k == "i":
        return int(v)
    if k == "q":
        return Fraction(v)
    return float(v)


def pynum_val(kind_val):
    k, v = kind_val
    if k == "i":
        return [1, int(v)]
    if k == "q":
        return [2, Fraction(v)]
    return [3, Fraction(float(v))]


def rand_ballot(rng, names, allow_empty=True, allow_scores=True, ids=True, weights=None):
    kind = rng.choice(["r", "r", "r", "s", "rs", "none"] if allow_scores else ["r", "r", "r", "none"])
    if kind == "none" and not allow_empty:
        kind = "r"
    b = {"r": None, "s": None, "w": rng.choice(weights or ["1", "2", "1/2", "3", "7/3", "0", "1"])}
    if "r" in kind:
        b["r"] = gen.rand_ranking(rng, names, ties=rng.random() < 0.3)
    if "s" in kind:
        k = rng.randint(1, len(names))
        b["s"] = {c: rng.choice(["1", "2", "1/2", "3"]) for c in rng.sample(names, k)}
    if ids and rng.random() < 0.15:
        b["id"] = rng.choice(["x1", "x2"])
    if ids and rng.random() < 0.15:
        b["vs"] = rng.sample(["v1", "v2", "v3"], rng.randint(1, 2))
    return b


def rand_ballots(rng, n=None, **kw):
    names = NAMES[: rng.randint(2, 4)]
    n = n or rng.randint(1, 7)
    pool = [rand_ballot(rng, names, **kw) for _ in range(max(1, n // 2 + 1))]
    out = []
    for _ in range(n):
        b = dict(rng.choice(pool))
        if rng.random() < 0.5:
            b["w"] = rng.choice(["1", "2", "1/2", "5"])
        if not b.get("r") and rng.random() < 0.3:   # no ranking written as an empty tuple
            b["empty_tuple"] = True
        if rng.random() < 0.15:                      # weights whose sums need denominators near / above 10^6
            b["w"] = rng.choice(gen.W_FINE)
        if b.get("r") and rng.random() < 0.3:       # same content, groups written in another order
            b["r"] = [list(reversed(g)) for g in b["r"]]
        if b.get("s") and len(b["s"]) > 1 and rng.random() < 0.4:   # same scores, dict filled in another order
            b["s"] = dict(reversed(list(b["s"].items())))
        out.append(b)
    return out, names


def corpus_cases():
    A = [["A"]]
    return [
        # condense order dependence (repaired): unscored then scored ballot with the same ranking
        {"kind": "condense", "ballots": [{"r": A, "s": None, "w": "1"}, {"r": A, "s": {"A": "1"}, "w": "2"}], "shuffle_seed": 1},
        {"kind": "condense", "ballots": [{"r": A, "s": {"A": "1"}, "w": "2"}, {"r": A, "s": None, "w": "1"}], "shuffle_seed": 2},
        # empty ranking tuple vs no ranking (repaired)
        {"kind": "condense", "ballots": [{"r": None, "s": None, "w": "1"}, {"r": None, "s": None, "w": "2", "empty_tuple": True},
                                         {"r": None, "s": {"A": "0"}, "w": "3"}], "shuffle_seed": 3},
        {"kind": "eq", "p": {"ballots": [{"r": None, "s": None, "w": "1"}, {"r": None, "s": None, "w": "2", "empty_tuple": True}], "cands": ["A"]},
         "q": {"ballots": [{"r": None, "s": None, "w": "3"}], "cands": ["A"]}},
        # __eq__ wildcard (repaired)
        {"kind": "eq", "p": {"ballots": [{"r": A, "s": {"A": "1"}, "w": "1"}, {"r": A, "s": None, "w": "1"}], "cands": None},
         "q": {"ballots": [{"r": A, "s": {"A": "2"}, "w": "1"}, {"r": A, "s": None, "w": "1"}], "cands": None}},
        {"kind": "eq", "p": {"ballots": [{"r": A, "s": None, "w": "1"}], "cands": None},
         "q": {"ballots": [{"r": A, "s": None, "w": "1"}, {"r": [["B"]], "s": None, "w": "0"}], "cands": None}},
        # a score that rounds to zero (repaired)
        {"kind": "ctor", "r": A, "w": ["i", "1"], "s": {"A": ["q", "1/3000001"], "B": ["i", "2"]}},
    ]


def gen_cases(rng, tier):
    n = 700 if tier == "quick" else 10000
    cases = []
    for i in range(n):
        r = rng.random()
        if r < 0.2:
            names = NAMES[: rng.randint(1, 4)]
            sc = None
            if rng.random() < 0.6:
                sc = {c: list(rng.choice(W_CTOR)) for c in rng.sample(names, rng.randint(1, len(names)))}
            cases.append({"kind": "ctor", "r": gen.rand_ranking(rng, names, ties=True) if rng.random() < 0.7 else None,
                          "w": list(rng.choice(W_CTOR)), "s": sc})
        elif r < 0.27:
            bs, names = rand_ballots(rng, n=rng.randint(1, 3))
            cases.append({"kind": "immutable", "ballots": bs})
        elif r < 0.37:
            bs, names = rand_ballots(rng)
            cands = None
            if rng.random() < 0.6:
                cands = list(names) + (["Z"] if rng.random() < 0.3 else [])
                if rng.random() < 0.3:
                    cands.append(rng.choice(cands))     # duplicate
                rng.shuffle(cands)
            cases.append({"kind": "derived", "profile": {"ballots": bs, "cands": cands}})
        elif r < 0.62:
            bs, names = rand_ballots(rng)
            cases.append({"kind": "condense", "ballots": bs, "shuffle_seed": rng.randrange(1 << 20)})
        elif r < 0.85:
            bs, names = rand_ballots(rng, ids=False)
            mode = rng.choice(["same", "perm_split", "perturb", "independent", "zero_extra"])
            bs2 = [dict(b) for b in bs]
            if mode == "perm_split":
                rng.shuffle(bs2)
                j = rng.randrange(len(bs2))
                w = Fraction(bs2[j]["w"])
                bs2[j] = dict(bs2[j], w=common.fstr(w / 3))
                bs2.append(dict(bs2[j], w=common.fstr(2 * w / 3)))
            elif mode == "perturb":
                j = rng.randrange(len(bs2))
                what = rng.choice(["w", "s", "r"])
                if what == "w":
                    bs2[j] = dict(bs2[j], w=common.fstr(Fraction(bs2[j]["w"]) + 1))
                elif what == "s":
                    bs2[j] = dict(bs2[j], s=({"A": "5"} if not bs2[j].get("s") else None))
                else:
                    bs2[j] = dict(bs2[j], r=[["B"], ["A"]] if bs2[j].get("r") != [["B"], ["A"]] else [["A"]])
            elif mode == "independent":
                bs2, _ = rand_ballots(rng, ids=False)
            elif mode == "zero_extra":
                bs2.append({"r": [["D"]], "s": None, "w": "0"})
            cases.append({"kind": "eq", "mode": mode, "p": {"ballots": bs, "cands": None}, "q": {"ballots": bs2, "cands": None}})
        else:
            bs, _ = rand_ballots(rng, ids=False)
            bs2, _ = rand_ballots(rng, ids=False)
            cases.append({"kind": "add", "p": {"ballots": bs, "cands": None}, "q": {"ballots": bs2, "cands": None}})
    return cases


def content_weights_json(ballots):
    d = {}
    for b in ballots:
        sc = frozenset((c, Fraction(v)) for c, v in (b.get("s") or {}).items() if Fraction(v) != 0)
        k = (ref.rk_key(b.get("r")), sc)
        d[k] = d.get(k, Fraction(0)) + Fraction(b.get("w", "1"))
    return d


def content_weights_vk(vk_ballots):
    d = {}
    for b in vk_ballots:
        k = (ref.rk_key(b.ranking), frozenset((b.scores or {}).items()))
        d[k] = d.get(k, Fraction(0)) + b.weight
    return d


def run_case(case):
    common.load_impl()
    from votekit import Ballot, PreferenceProfile
    kind = case["kind"]
    tags, oracle, model, nontrivial = ["kind:" + kind], [], [], False
    if kind == "ctor":
        names = sorted({c for g in (case["r"] or []) for c in g} | set((case["s"] or {}).keys()))
        nm = Names(names)
        kw = {}
        if case["r"]:
            kw["ranking"] = tuple(frozenset(g) for g in case["r"])
        if case["s"] is not None:
            kw["scores"] = {c: num(v) for c, v in case["s"].items()}
        w = num(case["w"])
        b = call_impl(Ballot, weight=w, **kw)
        arg = [[S([nm.id(c) for c in g]) for g in (case["r"] or [])], pynum_val(case["w"]),
               S([[nm.id(c), pynum_val(v)] for c, v in (case["s"] or {}).items()]), None, None]
        model.append({"op": 50, "arg": arg, "expect": b if isinstance(b, Err) else vk.ballot_val(nm, b), "what": "Ballot(...)"})
        tags.append("w:" + case["w"][0])
        if isinstance(b, Err):
            oracle.append(f"valid ballot rejected: {b}")
        else:
            def check(x, stored, what):
                if not isinstance(stored, Fraction):
                    oracle.append(f"{what} is not a Fraction")
                    return
                exact = Fraction(x)
                if isinstance(x, (int, Fraction)) and exact.denominator <= 10 ** 6 and stored != exact:
                    oracle.append(f"{what}: {x} not stored unchanged ({stored})")
                if isinstance(x, float):
                    if stored.denominator > 10 ** 6:
                        oracle.append(f"{what}: denominator {stored.denominator} > 10^6")
                    if abs(stored - exact) > Fraction(1, 2 * 10 ** 6):
                        oracle.append(f"{what}: {stored} is not close to {x}")
            check(w, b.weight, "weight")
            for c, v in (case["s"] or {}).items():
                x = num(v)
                st = (b.scores or {}).get(c)
                if st is None:
                    if Fraction(x).limit_denominator() != 0:
                        oracle.append(f"non-zero score of {c} dropped")
                else:
                    if st == 0:
                        oracle.append(f"a zero score is stored for {c}")
                    check(x, st, f"score[{c}]")
            nontrivial = isinstance(w, float) or any(v[0] != "i" for v in (case["s"] or {}).values())
        return {"model": model, "oracle": oracle, "tags": tags, "nontrivial": nontrivial}
    if kind == "immutable":
        bs = [vk.mk_ballot(b) for b in case["ballots"]]
        prof = PreferenceProfile(ballots=tuple(bs))
        attempts = 0
        for obj, fields in [(bs[0], ["ranking", "weight", "voter_set", "id", "scores"]),
                            (prof, ["ballots", "candidates", "df", "candidates_cast", "num_ballots", "total_ballot_wt"])]:
            for f in fields:
                attempts += 1
                before = getattr(obj, f)
                try:
                    setattr(obj, f, None)
                    oracle.append(f"{type(obj).__name__}.{f} could be reassigned")
                except Exception:
                    pass
                try:
                    delattr(obj, f)
                    oracle.append(f"{type(obj).__name__}.{f} could be deleted")
                except Exception:
                    pass
                after = getattr(obj, f, "<<gone>>")
                same = (after is before) or (f == "df")
                if not same:
                    oracle.append(f"{type(obj).__name__}.{f} changed")
        tags.append(f"attempts:{attempts}")
        return {"model": [], "oracle": oracle, "tags": tags, "nontrivial": True}
    if kind == "derived":
        jp = case["profile"]
        prof = call_impl(vk.mk_profile, jp)
        names = sorted({c for b in jp["ballots"] for g in (b.get("r") or []) for c in g} |
                       {c for b in jp["ballots"] for c in (b.get("s") or {})} | set(jp["cands"] or []))
        nm = Names(names)
        bvals = [vk.jb_val(nm, b) for b in jp["ballots"]]
        cs = jp["cands"] or []
        dup = len(set(cs)) != len(cs)
        tags.append("dup" if dup else "nodup")
        if isinstance(prof, Err):
            expect = prof
            if not dup:
                oracle.append(f"valid profile rejected: {prof}")
            elif prof != Err("EValue"):
                oracle.append(f"duplicate candidates raise {prof}, not ValueError")
        else:
            if dup:
                oracle.append("candidate list with duplicates accepted")
            expect = [vk.profile_val(nm, prof), prof.num_ballots, Fraction(prof.total_ballot_wt),
                      S([nm.id(c) for c in prof.candidates_cast])]
            if prof.num_ballots != len(jp["ballots"]):
                oracle.append("num_ballots differs from the number of ballots")
            if prof.total_ballot_wt != ref.total_weight(jp):
                oracle.append("total_ballot_wt differs from the sum of the weights")
            cast = {c for b in jp["ballots"] if Fraction(b["w"]) > 0 for c in
                    [x for g in (b.get("r") or []) for x in g] + [c for c, v in (b.get("s") or {}).items() if Fraction(v) != 0]}
            if set(prof.candidates_cast) != cast:
                oracle.append("candidates_cast differs from the candidates on positive-weight ballots")
        model.append({"op": 51, "arg": [bvals, [nm.id(c) for c in cs]], "expect": expect, "what": "PreferenceProfile(...) derived fields"})
        return {"model": model, "oracle": oracle, "tags": tags, "nontrivial": True}
    if kind == "condense":
        bsj = case["ballots"]
        names = sorted({c for b in bsj for g in (b.get("r") or []) for c in g} | {c for b in bsj for c in (b.get("s") or {})})
        nm = Names(names)
        prof = PreferenceProfile(ballots=tuple(vk.mk_ballot(b) for b in bsj))
        out = call_impl(lambda: prof.condense_ballots())
        model.append({"op": 10, "arg": [vk.jb_val(nm, b) for b in bsj],
                      "expect": out if isinstance(out, Err) else [vk.ballot_val(nm, b) for b in out.ballots],
                      "what": "condense_ballots (in first-occurrence order)"})
        if isinstance(out, Err):
            oracle.append(f"condense failed: {out}")
        else:
            want = content_weights_json(bsj)
            got = content_weights_vk(out.ballots)
            if {k: v for k, v in got.items()} != {k: v for k, v in want.items()}:
                oracle.append("condensing changed the weight carried by some (ranking, scores) content")
            if len(got) != len(out.ballots):
                oracle.append("condensed ballots are not pairwise distinct")
            sh = list(bsj)
            _random.Random(case["shuffle_seed"]).shuffle(sh)
            out2 = PreferenceProfile(ballots=tuple(vk.mk_ballot(b) for b in sh)).condense_ballots()
            if content_weights_vk(out2.ballots) != got or len(out2.ballots) != len(out.ballots):
                oracle.append("condensing depends on ballot order")
            out3 = out.condense_ballots()
            if [vk.ballot_val(nm, b) for b in out3.ballots] != [vk.ballot_val(nm, b) for b in out.ballots] and \
                    common.canon([vk.ballot_val(nm, b) for b in out3.ballots]) != common.canon([vk.ballot_val(nm, b) for b in out.ballots]):
                oracle.append("condensing again changes the profile")
            nontrivial = len(got) < len(bsj)
            tags.append("merged" if nontrivial else "nomerge")
        return {"model": model, "oracle": oracle, "tags": tags, "nontrivial": nontrivial}
    # eq / add
    names = sorted({c for jp in (case["p"], case["q"]) for b in jp["ballots"] for g in (b.get("r") or []) for c in g} |
                   {c for jp in (case["p"], case["q"]) for b in jp["ballots"] for c in (b.get("s") or {})})
    nm = Names(names)
    P, Q = vk.mk_profile(case["p"]), vk.mk_profile(case["q"])
    pv = vk.jp_val(nm, case["p"], cands=list(P.candidates))
    qv = vk.jp_val(nm, case["q"], cands=list(Q.candidates))
    wp = {k: v for k, v in content_weights_json(case["p"]["ballots"]).items() if v != 0}
    wq = {k: v for k, v in content_weights_json(case["q"]["ballots"]).items() if v != 0}
    if kind == "eq":
        out = call_impl(lambda: P == Q)
        out2 = call_impl(lambda: Q == P)
        model.append({"op": 52, "arg": [pv, qv], "expect": out, "what": "profile == profile"})
        tags.append("mode:" + str(case.get("mode")))
        tags.append("equal" if out is True else "unequal")
        if out is not (wp == wq):
            oracle.append(f"== returned {out} but the content weights are {'equal' if wp == wq else 'different'}")
        if out != out2:
            oracle.append("== is not symmetric")
        nontrivial = True
    else:
        out = call_impl(lambda: P + Q)
        model.append({"op": 53, "arg": [pv, qv], "expect": out if isinstance(out, Err) else vk.profile_val(nm, out), "what": "profile + profile"})
        if isinstance(out, Err):
            oracle.append(f"addition failed: {out}")
        else:
            ws = {}
            for d in (wp, wq):
                for k, v in d.items():
                    ws[k] = ws.get(k, Fraction(0)) + v
            got = {k: v for k, v in content_weights_vk(out.ballots).items() if v != 0}
            if got != {k: v for k, v in ws.items() if v != 0}:
                oracle.append("addition does not add the content weights")
        nontrivial = True
    return {"model": model, "oracle": oracle, "tags": tags, "nontrivial": nontrivial}
