"""C09 — round-by-round queries on a finished election are consistent and pure."""
from __future__ import annotations
from fractions import Fraction
import copy
import common, vk, gen, ref, rules, ruleslib, stvlib
from common import S, Err, Names, call_impl
from recorder import Recorder, installed

RULE = ("finished elections of every rule x random query histories (length 4-12, with repetition, any order, "
        "positive, negative and out-of-range indices) of get_profile/get_step/get_elected/get_eliminated/"
        "get_remaining/get_ranking/get_status_df; election_states and public attributes are deep-compared "
        "before and after the history. Non-trivial = the election has >= 2 rounds and the history contains a "
        "get_profile and a negative index; distinct by canonical JSON")
ORACLE_ONLY = ["__str__/__len__ are not queried"]


def model_post(exp, mo):
    """get_status_df lists the candidates of a tied group in frozenset order: compare the rows as a set
    (the order of the groups is covered by get_ranking)."""
    qs = exp.get("queries")
    if qs and isinstance(mo, list) and len(mo) == 2 and isinstance(mo[1], list):
        ans = [S(a) if q[0] == 5 and isinstance(a, list) else a for q, a in zip(qs, mo[1])]
        return [mo[0], ans]
    return mo

STATUS = {"Remaining": 1, "Elected": 2, "Eliminated": 3}
QNAMES = {1: "get_elected", 2: "get_eliminated", 3: "get_remaining", 4: "get_ranking", 5: "get_status_df", 6: "get_profile", 7: "get_step"}


def known_finding(case, kind, detail):
    d = str(detail)
    if case["rule"] == "PluralityVeto" and ("get_profile" in d or "get_step" in d or "impure" in d or "history" in d):
        return "pv-replay-impure"
    if case["rule"] == "Alaska" and "Err(EKey)" in d:
        return "alaska-replay-redraw"
    return None


def gen_cases(rng, tier):
    n = 500 if tier == "quick" else 6000
    pool = [r for r in ruleslib.RANK_RULES + ruleslib.SCORE_RULES]
    cases = ruleslib.gen_rule_cases(rng, n, rule_pool=pool)
    out = []
    for c in cases:
        if c["cfg"].get("transfer") == "random":
            c["cfg"]["transfer"] = "fractional"
        if str(c.get("family", "")).startswith("scores:") and c["family"] != "scores:None":
            continue
        qs = []
        for _ in range(rng.randint(4, 12)):
            q = rng.choice([1, 2, 3, 4, 5, 6, 6, 7])
            idx = rng.choice([0, 1, 2, 3, -1, -1, -2, -3, 5, -7, 1, 2])
            qs.append([q, idx])
        if rng.random() < 0.5:
            qs.append(list(qs[0]))
        c["queries"] = qs
        out.append(c)
    return out


def snapshot(nm, el):
    return common.canon([vk.states_val(nm, el.election_states), el.length,
                         sorted((k, repr(v)) for k, v in vars(el).items()
                                if k in ("m", "m_1", "m_2", "tiebreak", "quota", "simultaneous", "threshold", "L", "k", "length"))])


def status_val(nm, df):
    rows = []
    for c, row in df.iterrows():
        rows.append([nm.id(c), STATUS.get(row["Status"], 0), int(row["Round"])])
    return rows


def score_fn_for(case, prof0):
    from votekit import utils as U
    rule = case["rule"]
    if rule in ruleslib.SCORE_RULES:
        return U.score_profile_from_ballot_scores
    if rule == "Borda":
        v = case["cfg"].get("score_vector")
        vec = [common.frac(x) for x in v] if v else list(range(len(prof0.candidates), 0, -1))
        return lambda p: U.score_profile_from_rankings(p, vec)
    if rule == "CondoBorda":
        return U.borda_scores
    if rule == "DominatingSets":
        return None
    return U.first_place_votes


def run_case(case):
    common.load_impl()
    nm = Names(rules.all_names(case["profile"]))
    rec = Recorder(case.get("seed", 0))
    prof = call_impl(vk.mk_profile, case["profile"])
    tags = [f"rule:{case['rule']}"]
    if isinstance(prof, Err):
        return {"model": [], "oracle": [], "tags": tags + ["profile-rejected"], "nontrivial": False}
    oracle = []
    with installed(rec):
        el = call_impl(rules.build_election, case, prof)
        if isinstance(el, Err):
            answers = None
        else:
            n_run_draws = len(rec.log)
            before = snapshot(nm, el)
            answers = []
            for kq, (q, i) in enumerate(case["queries"]):
                fn = getattr(el, QNAMES[q])
                style = (case.get("seed", 0) + kq) % 3
                if i == -1 and style == 0:
                    a = call_impl(fn)                      # the documented default round_number=-1
                elif style == 1:
                    a = call_impl(fn, round_number=i)
                else:
                    a = call_impl(fn, i)
                answers.append(a)
            after = snapshot(nm, el)
    script, calls = rules.script_from_log(nm, rec.log, order=list(prof.candidates))
    arg = [ruleslib.rule_val(case["rule"], case["cfg"]), vk.jp_val(nm, case["profile"], cands=list(prof.candidates)), script,
           [[q, i] for q, i in case["queries"]]]
    if isinstance(el, Err):
        tags.append("outcome:" + repr(el))
        return {"model": [{"op": 41, "arg": arg, "expect": el, "what": "election + query history"}], "oracle": [],
                "tags": tags, "nontrivial": False}
    nst = len(el.election_states)
    tags.append(f"rounds:{nst - 1}")
    random_rule = case["rule"] in ("RandomDictator", "BoostedRandomDictator", "PluralityVeto")
    recorded = any(s.tiebreaks for s in el.election_states)
    det = not random_rule and not recorded
    enc = []
    for (q, i), a in zip(case["queries"], answers):
        if isinstance(a, Err):
            enc.append(a)
        elif q in (1, 2, 3, 4):
            enc.append(vk.ranking_val(nm, a))
        elif q == 5:
            enc.append(S(status_val(nm, a)))
        elif q == 7:
            enc.append([vk.profile_val(nm, a[0]), vk.state_val(nm, a[1])])
        else:
            enc.append(vk.profile_val(nm, a))
    # a get_profile replay that fails midway has consumed an unknown number of draws: the model
    # cannot resynchronise the script after it, so the compared history stops at that query
    cut = len(case["queries"])
    for kq, ((q, i), a) in enumerate(zip(case["queries"], answers)):
        if q in (6, 7) and isinstance(a, Err) and -nst <= i <= nst - 1:
            cut = kq + 1
            break
    if cut < len(case["queries"]):
        arg = [arg[0], arg[1], arg[2], [[q, i] for q, i in case["queries"][:cut]]]
        enc = enc[:cut]
        tags.append("history-cut-at-failed-replay")
    model = []
    if case["rule"] != "PluralityVeto":
        model.append({"op": 41, "arg": arg, "expect": [vk.states_val(nm, el.election_states), enc], "what": "election + query history",
                      "queries": [list(q) for q in case["queries"][:cut]]})
    else:
        # PluralityVeto's get_profile mutates the object (known finding); compare the pure queries only
        keep = [k for k, (q, i) in enumerate(case["queries"]) if q not in (6, 7)]
        arg2 = list(arg)
        arg2[3] = [case["queries"][k] for k in keep]
        # the model needs the script of the run only
        s_run, _ = rules.script_from_log(nm, rec.log[:n_run_draws], order=list(prof.candidates))
        arg2[2] = s_run
        if not any(q in (6, 7) for q, i in case["queries"]):
            model.append({"op": 41, "arg": arg2, "expect": [vk.states_val(nm, el.election_states), [enc[k] for k in keep]],
                          "what": "election + pure query history", "queries": arg2[3]})
    # ---- oracle
    if before != after:
        oracle.append("the query history changed the recorded rounds or public attributes (impure)")
    for (q, i), a in zip(case["queries"], answers):
        inr = -nst <= i <= nst - 1
        if not inr:
            if a != Err("EIndex"):
                oracle.append(f"{QNAMES[q]}({i}) out of range did not raise IndexError: {a if isinstance(a, Err) else 'answer'}")
            continue
        if isinstance(a, Err):
            if q not in (6, 7) or det:
                oracle.append(f"{QNAMES[q]}({i}) raised {a}")
            continue
        r = i % nst
        sts = el.election_states
        if q == 1:
            want = tuple(g for s in sts[:r + 1] if s.elected != (frozenset(),) for g in s.elected)
            if tuple(a) != want:
                oracle.append("get_elected disagrees with the per-round records")
        if q == 2:
            want = tuple(g for s in sts[r::-1] if s.eliminated != (frozenset(),) for g in s.eliminated[::-1])
            if tuple(a) != want:
                oracle.append("get_eliminated disagrees with the per-round records")
        if q == 3 and tuple(a) != tuple(sts[r].remaining):
            oracle.append("get_remaining disagrees with the per-round record")
        if q == 5:
            el_c = {c: k for k, s in enumerate(sts[:r + 1]) for g in s.elected for c in g}
            elim_c = {c: k for k, s in enumerate(sts[:r + 1]) for g in s.eliminated for c in g}
            for c, row in a.iterrows():
                st = "Elected" if c in el_c else ("Eliminated" if c in elim_c else "Remaining")
                if row["Status"] != st:
                    oracle.append(f"status of {c} is {row['Status']}, records say {st}")
                    break
        if q == 7:
            if a[1] is not sts[r] and a[1] != sts[r]:
                oracle.append(f"get_step({i}) did not return the recorded state of round {r}")
            a = a[0]
        if q in (6, 7) and det:
            remaining = {c for g in sts[r].remaining for c in g}
            if set(a.candidates) != remaining and not (not remaining and not a.ballots):
                oracle.append(f"get_profile({i}) candidates {sorted(map(str, a.candidates))} are not the candidates remaining after round {r}")
            fn = score_fn_for(case, prof)
            if fn is not None and (a.ballots or a.candidates):
                sc = call_impl(fn, a)
                if isinstance(sc, Err) or {str(k): v for k, v in sc.items()} != {str(k): v for k, v in sts[r].scores.items()}:
                    oracle.append(f"re-scoring get_profile({i}) does not reproduce the tallies recorded for round {r}")
    # the same (query, index) asked twice gives the same answer on deterministic elections
    if det:
        seen = {}
        for (q, i), e in zip(case["queries"], enc):
            k = (q, i % nst if -nst <= i <= nst - 1 else i)
            ce = common.canon(e)
            if k in seen and seen[k] != ce:
                oracle.append(f"{QNAMES[q]}({i}) answered differently later in the history")
            seen[k] = ce
    nontrivial = nst > 2 and any(q in (6, 7) for q, i in case["queries"]) and any(i < 0 for q, i in case["queries"])
    tags.append("deterministic" if det else "random-or-tiebroken")
    return {"model": model, "oracle": oracle, "tags": tags, "nontrivial": nontrivial}
