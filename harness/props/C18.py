"""C18 — cast-vote-record loading and saving keep every vote."""
from __future__ import annotations
from fractions import Fraction
import os, csv, ast, tempfile, io
import common, vk, gen, ref
from common import S, Err, Names, call_impl, WORK

RULE = ("generated CSV files (csv.writer: quoting of names with spaces, quotes and commas; alternative "
        "delimiters; 1-6 rank columns in any subset/order via rank_cols; optional id and weight columns in any "
        "position; repeated rows; short ballots with blanks) and generated Scottish-format files (any candidate "
        "count, blank rows), plus the malformed variants named in the docstrings (missing file, empty data, "
        "blank/duplicate voter id, bad/inconsistent Scottish metadata); to_csv round trip. Non-trivial = two "
        "rows share a pattern, or a blank cell / optional column is present, or the file is malformed; "
        "distinct by canonical JSON")
TRUSTED = ["pandas.read_csv / csv.reader parse well-formed files as written by csv.writer (exercised end-to-end, not modelled)"]
ASSUMPTIONS = ["candidate names are non-numeric strings; header row present"]

NAMES = ["Ann", "Bob Lee", "C,D", 'E "q" F', "Ger", "H'i", "Jo"]
NONE = "<None>"


def gen_csv_case(rng):
    nrank = rng.randint(1, 6)
    k = rng.randint(2, 6)
    names = rng.sample(NAMES, k)
    has_id = rng.random() < 0.6
    has_w = rng.random() < 0.4
    cols = ["r%d" % i for i in range(nrank)]
    if has_id:
        cols.insert(rng.randint(0, len(cols)), "id")
    if has_w:
        cols.insert(rng.randint(0, len(cols)), "w")
    nrows = rng.randint(1, 9)
    pats = []
    for _ in range(max(1, nrows // 2 + 1)):
        ln = rng.randint(1, nrank)
        p = [rng.choice(names) for _ in range(ln)] + [""] * (nrank - ln)
        if rng.random() < 0.2:
            j = rng.randrange(nrank)
            p[j] = ""
        pats.append(p)
    rows = []
    for i in range(nrows):
        p = list(rng.choice(pats))
        row = {}
        for j in range(nrank):
            row["r%d" % j] = p[j]
        if has_id:
            row["id"] = "v%d" % i
        if has_w:
            row["w"] = str(rng.choice([1, 2, 3, 10]))
        rows.append([row[c] for c in cols])
    rank_idx = [cols.index("r%d" % j) for j in range(nrank)]
    mode = rng.choice(["all", "all", "subset", "order"])
    if mode == "all" and rng.random() < 0.5:
        rank_cols = []
    elif mode == "subset":
        rank_cols = sorted(rng.sample(rank_idx, rng.randint(1, nrank)))
    elif mode == "order":
        rank_cols = list(rank_idx)
        rng.shuffle(rank_cols)
    else:
        rank_cols = list(rank_idx)
    case = {"kind": "csv", "cols": cols, "rows": rows, "rank_cols": rank_cols,
            "id_col": cols.index("id") if has_id else None, "weight_col": cols.index("w") if has_w else None,
            "delimiter": rng.choice([None, None, ";", "|", "\t"])}
    bad = rng.random()
    if bad < 0.05:
        case["malformed"] = "missing_file"
    elif bad < 0.10:
        case["malformed"] = "empty_data"
        case["rows"] = []
    elif bad < 0.16 and has_id:
        case["malformed"] = "blank_id"
        rng.choice(case["rows"])[case["id_col"]] = ""
    elif bad < 0.22 and has_id and nrows > 1:
        case["malformed"] = "dup_id"
        case["rows"][-1][case["id_col"]] = case["rows"][0][case["id_col"]]
    return case


def gen_scot_case(rng):
    k = rng.randint(1, 6) if rng.random() < 0.8 else rng.randint(10, 13)   # two-digit candidate numbers too
    names = rng.sample(NAMES, k) if k <= len(NAMES) else [f"Cand{i}" for i in range(k)]
    parties = [rng.choice(["Red (R)", "Blue, B", "Ind"]) for _ in names]
    seats = rng.randint(1, k)
    ballots = []
    for _ in range(rng.randint(1, 8)):
        ln = rng.randint(1, k)
        ballots.append([rng.choice([1, 2, 5, 126])] + rng.sample(range(1, k + 1), ln))
    if rng.random() < 0.4:
        ballots.append(list(rng.choice(ballots)))
    case = {"kind": "scot", "k": k, "seats": seats, "ballots": ballots, "names": names, "parties": parties,
            "ward": "Ward " + str(rng.randint(1, 9)), "blank_rows": rng.random() < 0.4}
    bad = rng.random()
    if bad < 0.05:
        case["malformed"] = "missing_file"
    elif bad < 0.10:
        case["malformed"] = "empty_file"
    elif bad < 0.16:
        case["malformed"] = "bad_metadata"
    elif bad < 0.22:
        case["malformed"] = rng.choice(["overcount", "undercount"])
    return case


def gen_cases(rng, tier):
    n = 500 if tier == "quick" else 7000
    cases = []
    for i in range(n):
        r = rng.random()
        if r < 0.6:
            cases.append(gen_csv_case(rng))
        elif r < 0.85:
            cases.append(gen_scot_case(rng))
        else:
            jp, names = gen.ranked_profile(rng, ties=rng.random() < 0.4)
            if rng.random() < 0.4:
                jp["ballots"].append({"r": None, "s": {names[0]: "1", names[-1]: "1/2"}, "w": "2"})
            cases.append({"kind": "to_csv", "profile": jp})
    return cases


def write_csv(path, case):
    d = case["delimiter"] or ","
    with open(path, "w", newline="", encoding="utf8") as f:
        w = csv.writer(f, delimiter=d)
        w.writerow(case["cols"])
        for r in case["rows"]:
            w.writerow(r)


def scot_rows(case):
    k = case["k"]
    meta = [k, case["seats"]]
    if case.get("malformed") == "bad_metadata":
        meta = [k, case["seats"], 7]
    if case.get("malformed") == "overcount":
        meta = [k + 1, case["seats"]]
    if case.get("malformed") == "undercount":
        meta = [max(0, k - 1), case["seats"]]
    rows = [meta + [""]]
    for b in case["ballots"]:
        rows.append(list(b) + [""])
        if case["blank_rows"] and len(rows) % 3 == 0:
            rows.append([])
    for i, (nme, pty) in enumerate(zip(case["names"], case["parties"])):
        rows.append(["Candidate %d" % (i + 1), nme, pty, ""])
    if case["blank_rows"]:
        rows.append([])
    rows.append([case["ward"], ""])
    if case["blank_rows"]:
        rows.append([""])
    return rows


def run_case(case):
    common.load_impl()
    from votekit.cvr_loaders import load_csv, load_scottish
    os.makedirs(WORK, exist_ok=True)
    kind = case["kind"]
    tags, oracle, model = ["kind:" + kind, "malformed:" + str(case.get("malformed"))], [], []
    fd, path = tempfile.mkstemp(suffix=".csv", dir=WORK)
    os.close(fd)
    try:
        if kind == "csv":
            write_csv(path, case)
            use = path + ".missing" if case.get("malformed") == "missing_file" else path
            kw = {}
            if case["delimiter"]:
                kw["delimiter"] = case["delimiter"]
            if case["rank_cols"]:
                out = call_impl(load_csv, use, list(case["rank_cols"]), weight_col=case["weight_col"], id_col=case["id_col"], **kw)
            else:
                # the documented default (every column other than id / weight): NOT passed, so that state carried
                # in the default argument between two calls of one process would show
                out = call_impl(load_csv, use, weight_col=case["weight_col"], id_col=case["id_col"], **kw)
            cols = case["cols"]
            names = sorted({c for r in case["rows"] for j, c in enumerate(r) if cols[j].startswith("r") and c != ""})
            nm = Names([NONE] + names)

            def cellv(j, c):
                if cols[j] == "id":
                    return None if c == "" else [3, nm.id("v:" + c)]
                if cols[j] == "w":
                    return [2, Fraction(c)]
                return None if c == "" else [1, nm.id(c)]
            arg = [nm.id(NONE), len(cols), [[cellv(j, c) for j, c in enumerate(r)] for r in case["rows"]],
                   list(case["rank_cols"]), case["weight_col"], case["id_col"]]

            def fix_none(p):
                # the implementation's candidate None <-> the reserved name
                return p
            if isinstance(out, Err):
                expect = out
            else:
                def bval(b):
                    return [[S([nm.id(NONE if c is None else c) for c in g]) for g in b.ranking], Fraction(b.weight), S([]), None,
                            None if b.voter_set is None else S([nm.id("v:" + str(x)) for x in b.voter_set])]
                expect = [S([bval(b) for b in out.ballots]), S([nm.id(NONE if c is None else c) for c in out.candidates])]
            mal = case.get("malformed")
            if mal != "missing_file":
                model.append({"op": 70, "arg": arg, "expect": expect, "what": "load_csv"})
            want_err = {"missing_file": "ENotFound", "empty_data": "EEmptyData", "blank_id": "EValue", "dup_id": "EData"}.get(mal)
            if want_err:
                if out != Err(want_err):
                    oracle.append(f"{mal}: expected {want_err}, got {out}")
            elif isinstance(out, Err):
                oracle.append(f"well-formed CSV rejected: {out}")
            else:
                rc = case["rank_cols"] or [j for j, c in enumerate(cols) if c.startswith("r")]
                want = {}
                for r in case["rows"]:
                    key = tuple(frozenset([None if r[j] == "" else r[j]]) for j in rc)
                    w = Fraction(r[case["weight_col"]]) if case["weight_col"] is not None else Fraction(1)
                    want[key] = want.get(key, Fraction(0)) + w
                got = {}
                for b in out.ballots:
                    k2 = tuple(b.ranking)
                    if k2 in got:
                        oracle.append("a row pattern appears as two ballots")
                    got[k2] = b.weight
                if got != want:
                    oracle.append("ballots are not 'one per distinct row pattern, in column order, weight = rows (or summed weights)'")
                if case["weight_col"] is None and out.total_ballot_wt != len(case["rows"]):
                    oracle.append("total weight differs from the row count")
                if case["id_col"] is not None:
                    ids = {}
                    for r in case["rows"]:
                        key = tuple(frozenset([None if r[j] == "" else r[j]]) for j in rc)
                        ids.setdefault(key, set()).add(r[case["id_col"]])
                    if {tuple(b.ranking): set(b.voter_set or ()) for b in out.ballots} != ids:
                        oracle.append("voter sets are not the ids of the grouped rows")
            nontrivial = bool(mal) or len({tuple(r) for r in case["rows"]}) < len(case["rows"]) or any("" in r for r in case["rows"])
            return {"model": model, "oracle": oracle, "tags": tags, "nontrivial": nontrivial}
        if kind == "scot":
            rows = scot_rows(case)
            with open(path, "w", newline="", encoding="utf8") as f:
                if case.get("malformed") != "empty_file":
                    csv.writer(f).writerows(rows)
            use = path + ".missing" if case.get("malformed") == "missing_file" else path
            out = call_impl(load_scottish, use)
            nm = Names(case["names"] + ["p:" + p for p in case["parties"]] + ["ward:" + case["ward"]])

            def tokv(x, tag=""):
                if x == "":
                    return None
                if isinstance(x, int):
                    return [1, x]
                return [2, nm.id(tag + x if tag else x), "Candidate" in x]
            mrows = []
            for r in rows:
                mr = []
                for j, x in enumerate(r):
                    if isinstance(x, str) and x.startswith("Candidate "):
                        mr.append([2, nm.id("label:" + x), True])
                    elif isinstance(x, str) and x in case["parties"] and j == 2:
                        mr.append(tokv(x, "p:"))
                    elif isinstance(x, str) and x == case["ward"]:
                        mr.append(tokv(x, "ward:"))
                    else:
                        mr.append(tokv(x))
                mrows.append(mr)
            mal = case.get("malformed")
            if isinstance(out, Err):
                expect = out
            else:
                pp, seats, cl, c2p, ward = out
                expect = [vk.profile_val(nm, pp), [1, seats], [nm.id(c) for c in cl],
                          S([[nm.id(c), [2, nm.id("p:" + p), "Candidate" in p]] for c, p in c2p.items()]),
                          [2, nm.id("ward:" + ward), "Candidate" in ward]]
            if mal not in ("missing_file", "empty_file"):
                model.append({"op": 71, "arg": mrows, "expect": expect, "what": "load_scottish"})
            want_err = {"missing_file": "ENotFound", "empty_file": "EEmptyData", "bad_metadata": "EData",
                        "overcount": "EData", "undercount": "EData"}.get(mal)
            if want_err:
                if out != Err(want_err):
                    oracle.append(f"{mal}: expected {want_err}, got {out}")
            elif isinstance(out, Err):
                oracle.append(f"well-formed Scottish file rejected: {out}")
            else:
                pp, seats, cl, c2p, ward = out
                if seats != case["seats"] or ward != case["ward"] or cl != case["names"] or \
                        c2p != dict(zip(case["names"], case["parties"])):
                    oracle.append("declared seats / ward / candidate names / parties not reproduced")
                want = ref.weight_by_ranking(([[case["names"][i - 1]] for i in b[1:]], b[0]) for b in case["ballots"])
                if ref.vk_weight_by_ranking(pp.ballots) != want:
                    oracle.append("ballots are not the declared rankings with the declared multiplicities")
                if set(pp.candidates) != set(case["names"]):
                    oracle.append("profile candidates differ from the declared candidates")
            return {"model": model, "oracle": oracle, "tags": tags, "nontrivial": True}
        # to_csv
        jp = case["profile"]
        import rules as R
        nm = Names(R.all_names(jp))
        prof = vk.mk_profile(jp)
        res = call_impl(prof.to_csv, path)
        if isinstance(res, Err):
            oracle.append(f"to_csv raised {res}")
            return {"model": [], "oracle": oracle, "tags": tags, "nontrivial": True}
        with open(path, newline="") as f:
            rows = list(csv.DictReader(f))
        if len(rows) != len(prof.ballots):
            oracle.append("to_csv did not write one row per ballot")
        got = []
        for r, b in zip(rows, prof.ballots):
            rk = ast.literal_eval(r["ranking"]) if r["ranking"] else ()
            sc = ast.literal_eval(r["scores"]) if r["scores"] else ()
            if abs(float(r["weight"]) - float(b.weight)) > 1e-9 * max(1, abs(float(b.weight))):
                oracle.append("weight column differs from the ballot weight")
            if tuple(frozenset(g) for g in rk) != tuple(b.ranking or ()):
                oracle.append("ranking column differs from the ballot ranking")
            if {c: round(v, 9) for c, v in sc} != {c: round(float(v), 9) for c, v in (b.scores or {}).items()}:
                oracle.append("scores column differs from the ballot scores")
            got.append([Fraction(b.weight), [S([nm.id(c) for c in g]) for g in rk],
                        S([[nm.id(c), Fraction((b.scores or {})[c])] for c, v in sc])])
        model.append({"op": 72, "arg": vk.jp_val(nm, jp, cands=list(prof.candidates)), "expect": got,
                      "what": "to_csv rows (weights/scores read back as the exact values they render)"})
        return {"model": model, "oracle": oracle, "tags": tags, "nontrivial": True}
    finally:
        try:
            os.remove(path)
        except OSError:
            pass
