"""C14 — ballot generators return well-formed profiles of exactly the requested size."""
from __future__ import annotations
from fractions import Fraction
import common, vk, gen, ref, genlib
from common import S, Err, Names, call_impl

RULE = ("all generator classes (ImpartialCulture, ImpartialAnonymousCulture, BallotSimplex from point, name / short-name "
        "PlackettLuce, name / slate BradleyTerry exact and MCMC, AlternatingCrossover, CambridgeSampler, name_Cumulative, "
        "slate_PlackettLuce, OneDimSpatial, Spatial, ClusteredSpatial) x 1-3 blocs x slate sizes 1-3 x cohesion and "
        "proportion vectors incl. 0 and 1 entries x zero-support candidates x N in {1,2,3,5,8,13,20} x seeded random "
        "streams recorded at the numpy/random primitives. Non-trivial = N >= 2 and >= 2 candidates; distinct by canonical JSON")
TRUSTED = ["apportionment.compute('huntington', ...) is the Huntington-Hill apportionment (external package; every recorded call is "
           "checked to return non-negative integers summing to N)",
           "numpy/random primitives return values in their documented ranges"]
ORACLE_ONLY = ["bloc sizes equal the Huntington-Hill apportionment: compared with an independent call of the same external package "
               "(the model takes the recorded sizes; C14_sizes.v proves the size accounting under the package's run-checked contract)",
               "ImpartialCulture / ImpartialAnonymousCulture: the Dirichlet draw itself is a trusted primitive (its recorded result is the table)",
               "CambridgeSampler with the packaged Cambridge data: the 8559-type table is handed to the model compressed (drawn types kept, the others merged per first label)"]


def model_post(exp, mo):
    ex0 = exp.get("expect")
    if isinstance(ex0, list) and ex0 and isinstance(ex0[0], str) and ex0[0] == "aggregate-only" and isinstance(mo, list) and len(mo) == 3:
        mo = ["aggregate-only"] + list(mo[1:])          # generate_profile(by_bloc=False): only the aggregate is observable
    if exp.get("round") and isinstance(mo, list) and mo and isinstance(mo[-1], list):
        calls = genlib.round_calls(mo[-1])
        ex = exp.get("expect")
        if isinstance(ex, list) and ex and isinstance(ex[-1], list):
            calls = genlib.snap_calls(calls, ex[-1])
        return mo[:-1] + [calls]
    return mo


def known_finding(case, kind, detail):
    d = str(detail)
    g = case["gen"]
    if g == "AlternatingCrossover" and "complete rankings" in d:
        nz = [sum(1 for v in case["intervals"][b][b2].values() if v > 0) for b in case["blocs"] for b2 in case["blocs"]]
        zero = any(v == 0 for b in case["blocs"] for b2 in case["blocs"] for v in case["intervals"][b][b2].values())
        if len(set(nz)) > 1 or zero:
            return "ac-truncates-unequal-slates"
    if g == "name_BT_MCMC" and "Err(EIndex)" in d:
        nz = [sum(1 for b2 in case["blocs"] for c, v in case["intervals"][b][b2].items() if v > 0 and case["cohesion"][b][b2] > 0) for b in case["blocs"]]
        if min(nz) <= 1:
            return "bt-mcmc-single-candidate"
    if g == "slate_BT_MCMC" and "Err(EZeroDiv)" in d and any(case["cohesion"][b][b] == 0 for b in case["blocs"]):
        return "slate-bt-mcmc-zero-cohesion"
    if g == "from_point" and "Err(EZeroDiv)" in d and any(v == 0 for v in case["point"].values()):
        return "from-point-zero-entry"
    return None


def gen_cases(rng, tier):
    n = 450 if tier == "quick" else 6000
    return [genlib.gen_case(rng) for _ in range(n)]


COMPLETE = {"name_PL", "name_BT", "name_BT_MCMC", "slate_PL", "slate_BT", "slate_BT_MCMC", "ImpartialCulture",
            "ImpartialAnonymousCulture", "from_point", "OneDimSpatial", "Spatial", "ClusteredSpatial", "AlternatingCrossover"}


def run_case(case):
    common.load_impl()
    run = genlib.run_generator(case)
    g = case["gen"]
    tags = ["gen:" + g, f"N:{case['N']}"]
    oracle, model = [], []
    if isinstance(run["gen"], Err):
        if g == "CambridgeSampler":
            return {"model": [], "oracle": [], "tags": tags + ["construction:" + repr(run["gen"])], "nontrivial": False}
        oracle.append(f"valid parameters rejected at construction: {run['gen']}")
        return {"model": [], "oracle": oracle, "tags": tags, "nontrivial": False}
    out = run["out"]
    if isinstance(out, Err):
        oracle.append(f"generate_profile raised {out}")
        return {"model": [], "oracle": oracle, "tags": tags, "nontrivial": False}
    mc = None
    try:
        mc = genlib.model_call(case, run)
    except (IndexError, KeyError, StopIteration, ValueError) as e:
        oracle.append(f"the recorded primitive calls do not have the documented shape for {g}: {type(e).__name__} {e}")
    if mc:
        mc.pop("names", None)
        model.append(mc)
    N = sum(case["per_cand"].values()) if g == "ClusteredSpatial" else case["N"]
    declared = set(case.get("cands") or [c for b in case["blocs"] for c in case["slates"][b]])
    if out.total_ballot_wt != N:
        oracle.append(f"total weight {out.total_ballot_wt} != requested {N}")
    for b in out.ballots:
        if b.weight <= 0 or b.weight.denominator != 1:
            oracle.append(f"ballot weight {b.weight} is not a positive whole number")
            break
        flat = [c for s in (b.ranking or ()) for c in s]
        if len(flat) != len(set(flat)) or not set(map(str, flat)) <= declared:
            oracle.append("a ranking repeats a candidate or uses an undeclared one")
            break
        if b.scores and not set(map(str, b.scores)) <= declared:
            oracle.append("scores for an undeclared candidate")
            break
    if g in COMPLETE and "blocs" in case or g in COMPLETE and "cands" in case:
        for b in out.ballots:
            flat = {str(c) for s in b.ranking for c in s}
            if flat != declared:
                oracle.append(f"{g} is documented to produce complete rankings but a ballot lists {sorted(flat)} of {sorted(declared)}")
                break
            # zero-support candidates only as one final tied group
            if any(len(s) > 1 for s in b.ranking[:-1]):
                oracle.append("a tied group appears before the last position")
                break
    if g == "short_name_PL":
        for b in out.ballots:
            if sum(len(s) for s in b.ranking) != case["ballot_length"]:
                oracle.append(f"short Plackett-Luce ballot does not have the requested length {case['ballot_length']}")
                break
    if g == "name_Cumulative":
        for bl in case["blocs"]:
            pass
        for b in out.ballots:
            if not b.scores or sum(b.scores.values()) != case["num_votes"] or b.ranking:
                oracle.append("cumulative ballot does not distribute exactly num_votes points")
                break
    by = run.get("by_bloc")
    if by:
        tot = {}
        for p in by.values():
            for k, v in ref.vk_weight_by_content(p.ballots).items():
                tot[k] = tot.get(k, Fraction(0)) + v
        if tot != ref.vk_weight_by_content(out.ballots):
            oracle.append("per-bloc profiles do not add up to the aggregate profile")
        if run["apportion"]:
            ap = run["apportion"][0]
            import apportionment.methods as A
            want = [int(x) for x in A.compute("huntington", ap["props"], ap["n"])]
            if ap["result"] != want or sum(ap["result"]) != N or ap["n"] != N:
                oracle.append("bloc sizes are not the Huntington-Hill apportionment of N")
            if g in ("AlternatingCrossover", "CambridgeSampler"):
                props = [x for b in case["blocs"] for x in (case["cohesion"][b][b] * case["props"][b], (1 - case["cohesion"][b][b]) * case["props"][b])]
                sizes = {b: ap["result"][2 * i] + ap["result"][2 * i + 1] for i, b in enumerate(case["blocs"])}
            else:
                props = [case["props"][b] for b in case["blocs"]]
                sizes = dict(zip(case["blocs"], ap["result"]))
            if [round(x, 12) for x in ap["props"]] != [round(x, 12) for x in props]:
                oracle.append("apportionment was not computed from the given proportions")
            for b, p in by.items():
                if p.total_ballot_wt != sizes[b]:
                    oracle.append(f"bloc {b} has {p.total_ballot_wt} ballots, apportioned {sizes[b]}")
        else:
            oracle.append("no apportionment call was made")
    return {"model": model, "oracle": oracle, "tags": tags, "nontrivial": N >= 2 and len(declared) >= 2}
