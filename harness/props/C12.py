"""C12 — ballot-editing utilities preserve order and lose no votes except exhausted ones."""
from __future__ import annotations
from fractions import Fraction
import itertools, math
import common, vk, gen, ref, rules
from common import S, Err, Names, call_impl

RULE = ("profiles / ballot tuples / single ballots with tied positions (utils functions) or untied, "
        "possibly repeated candidates (cleaning functions), rational weights, zero-vote candidates; removal "
        "sets none/some/all/absent; both flags; kinds: remove_profile, remove_tuple, remove_ballot, "
        "add_missing, expand, resolve, remove_empty, dedup, noncands. Non-trivial = some ballot changes "
        "or two ballots merge; distinct by canonical JSON")
ASSUMPTIONS = ["cleaning-module functions act on whole positions of untied ballots, as the loaders produce them"]


def corpus_cases():
    return [{"kind": "remove_ballot", "removed": ["A"], "condense": True, "leave_zero": False,
             "ballot": {"r": [["A"]], "w": "1"}},
            {"kind": "remove_ballot", "removed": ["A"], "condense": True, "leave_zero": False,
             "ballot": {"r": [["A"], ["B"]], "w": "3/2"}}]


def gen_cases(rng, tier):
    n = 800 if tier == "quick" else 12000
    cases = []
    for i in range(n):
        r = rng.random()
        if r < 0.45:
            jp, names = gen.ranked_profile(rng, ties=rng.random() < 0.5, weights="mixed")
            pool = names + ["nobody"]
            mode = rng.choice(["some", "some", "one", "none", "all", "absent"])
            removed = {"some": rng.sample(pool, rng.randint(1, max(1, len(pool) - 1))), "one": [rng.choice(names)],
                       "none": [], "all": list(names), "absent": ["nobody"]}[mode]
            kind = rng.choice(["remove_profile", "remove_profile", "remove_tuple", "remove_ballot"])
            c = {"kind": kind, "removed": removed, "condense": rng.random() < 0.6, "leave_zero": rng.random() < 0.4, "mode": mode}
            if len(removed) == 1 and rng.random() < 0.6:
                c["rm_style"] = "str"
            if kind == "remove_ballot":
                c["ballot"] = rng.choice(jp["ballots"])
            else:
                c["profile"] = jp
            if rng.random() < 0.15 and kind != "remove_ballot":       # some score ballots too
                jp["ballots"].append({"r": None, "s": {names[0]: "1", names[-1]: "2"}, "w": "2"})
                jp["ballots"].append({"r": [[names[0]]], "s": {names[-1]: "1"}, "w": "1"})
            cases.append(c)
        elif r < 0.55:
            jp, names = gen.ranked_profile(rng, ties=rng.random() < 0.5)
            if rng.random() < 0.3:
                # loader-style ballots that repeat a candidate: as many positions as candidates, yet one is unlisted
                for b in jp["ballots"]:
                    if len(b["r"]) >= 2 and rng.random() < 0.6:
                        b["r"] = b["r"] + [list(b["r"][0])] * rng.randint(1, 2)
            cases.append({"kind": "add_missing", "profile": jp})
        elif r < 0.72:
            jp, names = gen.ranked_profile(rng, ties=True, n_cands=rng.choice([2, 3, 4, 5]), n_ballots=rng.choice([1, 2, 3]))
            if rng.random() < 0.5:
                cases.append({"kind": "expand", "ballot": rng.choice(jp["ballots"])})
            else:
                cases.append({"kind": "resolve", "profile": jp})
        else:
            # loader-style ballots: untied, possibly repeated candidates and write-ins
            k = rng.choice([2, 3, 4])
            names = gen.pick_names(rng, k) + ["writein", "skipped"]
            bs = []
            for _ in range(rng.randint(1, 7)):
                ln = rng.randint(1, 5)
                bs.append({"r": [[rng.choice(names)] for _ in range(ln)], "w": gen.rand_weight(rng),
                           "vs": rng.sample(["v1", "v2", "v3", "v4"], rng.randint(1, 2)) if rng.random() < 0.3 else None})
            if rng.random() < 0.4 and bs:
                j = rng.randrange(len(bs))
                bs.insert(j, dict(bs[j], w="2"))          # adjacent equal rankings
            kind = rng.choice(["dedup", "noncands", "noncands", "remove_empty"])
            c = {"kind": kind, "profile": {"ballots": bs, "cands": None}}
            if kind == "noncands":
                c["non"] = rng.sample(["writein", "skipped", names[0]], rng.randint(1, 3))
            if kind == "remove_empty":
                for b in bs:
                    if rng.random() < 0.3:
                        b["r"] = None
                c["keep"] = rng.random() < 0.5
                c["profile"]["cands"] = list(dict.fromkeys(names)) if rng.random() < 0.5 else None
            cases.append(c)
    return cases


def rm_arg(case, removed):
    """`removed` is documented as Union[str, list]: a single candidate is also passed as a bare string."""
    if case.get("rm_style") == "str" and len(removed) == 1:
        return removed[0]
    return list(removed)


def by_ranking_json(ballots, f=lambda r: r):
    return ref.weight_by_ranking((f(b.get("r")), b["w"]) for b in ballots)


def order_ok(before, after, removed):
    """after must be the non-empty groups of before with removed candidates filtered out."""
    return ref.rk_key(ref.strip(before, set(removed))) == ref.rk_key(after)


def run_case(case):
    common.load_impl()
    from votekit import utils as U, cleaning as CL, Ballot, PreferenceProfile
    kind = case["kind"]
    tags, oracle, model, nontrivial = ["kind:" + kind], [], [], False
    if kind.startswith("remove_") and kind != "remove_empty":
        removed, cf, lz = case["removed"], case["condense"], case["leave_zero"]
        tags += [f"mode:{case.get('mode')}", f"condense:{cf}", f"leave_zero:{lz}"]
        if kind == "remove_ballot":
            jb = case["ballot"]
            nm = Names(rules.all_names({"ballots": [jb], "cands": removed}))
            out = call_impl(U.remove_cand, rm_arg(case, removed), vk.mk_ballot(jb), condense=cf, leave_zero_weight_ballots=lz)
            model.append({"op": 3, "arg": [[nm.id(c) for c in removed], cf, lz, vk.jb_val(nm, jb)],
                          "expect": out if isinstance(out, Err) else vk.ballot_val(nm, out), "what": "remove_cand(single Ballot)"})
            if isinstance(out, Err):
                oracle.append(f"remove_cand on a single ballot raised {out}")
            else:
                if not order_ok(jb.get("r"), out.ranking, removed):
                    oracle.append("surviving candidates changed order/grouping or a removed candidate remains")
                want_w = Fraction(jb["w"]) if ref.strip(jb.get("r"), set(removed)) else Fraction(0)
                if out.weight != want_w:
                    oracle.append(f"weight {out.weight}, expected {want_w}")
            return {"model": model, "oracle": oracle, "tags": tags, "nontrivial": bool(set(removed) & {c for g in jb['r'] for c in g})}
        jp = case["profile"]
        nm = Names(rules.all_names({"ballots": jp["ballots"], "cands": (jp.get("cands") or []) + list(removed)}))
        prof = vk.mk_profile(jp)
        arg_rm = [nm.id(c) for c in removed]
        if kind == "remove_profile":
            out = call_impl(U.remove_cand, rm_arg(case, removed), prof, condense=cf, leave_zero_weight_ballots=lz)
            model.append({"op": 1, "arg": [arg_rm, cf, lz, vk.jp_val(nm, jp, cands=list(prof.candidates))],
                          "expect": out if isinstance(out, Err) else vk.profile_val(nm, out), "what": "remove_cand(profile)"})
            out_ballots = None if isinstance(out, Err) else out.ballots
            if not isinstance(out, Err):
                left = [c for c in prof.candidates if c not in removed]
                if left and set(out.candidates) != set(left):
                    oracle.append("candidate list is not the original minus the removed ones")
        else:
            out = call_impl(U.remove_cand, rm_arg(case, removed), tuple(prof.ballots), condense=cf, leave_zero_weight_ballots=lz)
            model.append({"op": 2, "arg": [arg_rm, cf, lz, [vk.jb_val(nm, b) for b in jp["ballots"]]],
                          "expect": out if isinstance(out, Err) else vk.ballots_val(nm, out), "what": "remove_cand(tuple of ballots)"})
            out_ballots = None if isinstance(out, Err) else out
        if out_ballots is None:
            oracle.append(f"remove_cand raised {out}")
        else:
            rs = set(removed)
            for b in out_ballots:
                if any(c in rs for g in (b.ranking or ()) for c in g) or any(c in rs for c in (b.scores or {})):
                    oracle.append("a removed candidate still appears")
                    break
            ranked_only = all(not b.get("s") for b in jp["ballots"])
            if ranked_only:
                pos = [b for b in jp["ballots"] if Fraction(b["w"]) > 0 or lz]
                want = {k: v for k, v in by_ranking_json(pos, lambda r: ref.strip(r, rs)).items() if k != ()}
                got = {k: v for k, v in ref.vk_weight_by_ranking(out_ballots).items() if k != ()}
                if got != want:
                    oracle.append("weight per resulting ranking differs from the summed weight of the ballots mapping to it")
                lost = sum((Fraction(b["w"]) for b in pos if not ref.strip(b.get("r"), rs)), Fraction(0))
                tin = sum((Fraction(b["w"]) for b in pos), Fraction(0))
                tout = sum((b.weight for b in out_ballots), Fraction(0))
                if tin - tout != lost:
                    oracle.append(f"weight lost {tin - tout} != weight of exhausted ballots {lost}")
                if lz and not cf and len(out_ballots) != len(jp["ballots"]):
                    oracle.append("leave_zero_weight_ballots did not keep one ballot per input ballot")
            if cf:
                keys = [(ref.rk_key(b.ranking), frozenset((b.scores or {}).items())) for b in out_ballots]
                if len(set(keys)) != len(keys):
                    oracle.append("condensed result has repeated contents")
        touched = any(c in set(removed) for b in jp["ballots"] for g in (b.get("r") or []) for c in g)
        return {"model": model, "oracle": oracle, "tags": tags, "nontrivial": touched}
    if kind == "add_missing":
        jp = case["profile"]
        nm = Names(rules.all_names(jp))
        prof = vk.mk_profile(jp)
        out = call_impl(U.add_missing_cands, prof)
        model.append({"op": 12, "arg": vk.jp_val(nm, jp, cands=list(prof.candidates)),
                      "expect": out if isinstance(out, Err) else vk.profile_val(nm, out), "what": "add_missing_cands"})
        if isinstance(out, Err):
            oracle.append(f"add_missing_cands raised {out}")
        else:
            cs = list(prof.candidates)

            def fill(r):
                listed = {c for g in r for c in g}
                miss = [c for c in cs if c not in listed]
                return list(r) + ([miss] if miss else [])
            want = by_ranking_json(jp["ballots"], fill)
            if ref.vk_weight_by_ranking(out.ballots) != want:
                oracle.append("unlisted candidates were not added as one last-place tie with the same weights")
            nontrivial = any(len({c for g in b["r"] for c in g}) < len(cs) for b in jp["ballots"])
        return {"model": model, "oracle": oracle, "tags": tags, "nontrivial": nontrivial}
    if kind in ("expand", "resolve"):
        if kind == "expand":
            jb = case["ballot"]
            jp = {"ballots": [jb], "cands": None}
        else:
            jp = case["profile"]
        nm = Names(rules.all_names(jp))
        if kind == "expand":
            out = call_impl(U.expand_tied_ballot, vk.mk_ballot(jb))
            model.append({"op": 13, "arg": vk.jb_val(nm, jb), "expect": out if isinstance(out, Err) else vk.ballots_val(nm, out),
                          "what": "expand_tied_ballot"})
            outb = out
        else:
            prof = vk.mk_profile(jp)
            out = call_impl(U.resolve_profile_ties, prof)
            model.append({"op": 14, "arg": vk.jp_val(nm, jp, cands=list(prof.candidates)),
                          "expect": out if isinstance(out, Err) else vk.profile_val(nm, out), "what": "resolve_profile_ties"})
            outb = None if isinstance(out, Err) else out.ballots
        if isinstance(out, Err):
            oracle.append(f"{kind} raised {out}")
        else:
            want = {}
            for b in jp["ballots"]:
                groups = b["r"]
                orders = [list(itertools.chain.from_iterable(p)) for p in itertools.product(*[list(itertools.permutations(g)) for g in groups])]
                w = Fraction(b["w"]) / len(orders)
                for o in orders:
                    k = tuple(frozenset([c]) for c in o)
                    want[k] = want.get(k, Fraction(0)) + w
            got = ref.vk_weight_by_ranking(outb)
            if got != {k: v for k, v in want.items() if v != 0}:
                oracle.append("expansion is not 'every consistent linear order once with equal weight'")
            if kind == "expand" and len(outb) != len(want) and any(len(g) > 1 for g in jp["ballots"][0]["r"]):
                oracle.append("a linear order appears more than once")
            # first-place and Borda totals unchanged — as the library's own utilities report them on the
            # returned profile (they depend on its candidate list: a zero-vote candidate must survive)
            if kind == "resolve":
                for fn in (U.first_place_votes, U.borda_scores):
                    a, b = call_impl(fn, prof), call_impl(fn, out)
                    if not isinstance(a, Err) and (isinstance(b, Err) or {str(k): v for k, v in a.items()} != {str(k): v for k, v in b.items()}):
                        oracle.append(f"{fn.__name__} of the resolved profile differs from that of the original profile")
                        break
            cs = ref.jp_candidates(jp)
            n = len(cs)
            outj = {"ballots": [{"r": [list(g) for g in b.ranking], "w": str(b.weight)} for b in outb], "cands": cs}
            for vec in ([1] + [0] * n, list(range(n, 0, -1))):
                if ref.positional_scores(dict(jp, cands=cs), vec) != ref.positional_scores(outj, vec):
                    oracle.append("positional totals changed by the expansion")
                    break
            nontrivial = any(len(g) > 1 for b in jp["ballots"] for g in b["r"])
        return {"model": model, "oracle": oracle, "tags": tags, "nontrivial": nontrivial}
    # cleaning module
    jp = case["profile"]
    nm = Names(rules.all_names({"ballots": jp["ballots"], "cands": (jp.get("cands") or []) + case.get("non", [])}))
    prof = vk.mk_profile(jp)
    pv = vk.jp_val(nm, jp, cands=list(prof.candidates))

    def ordered(p):
        return [[vk.ballot_val(nm, b) for b in p.ballots], S([nm.id(c) for c in p.candidates])]
    if kind == "remove_empty":
        out = call_impl(CL.remove_empty_ballots, prof, case["keep"])
        model.append({"op": 60, "arg": [pv, case["keep"]], "expect": out if isinstance(out, Err) else vk.profile_val(nm, out),
                      "what": "remove_empty_ballots"})
        if isinstance(out, Err):
            oracle.append(f"remove_empty_ballots raised {out}")
        else:
            want = [b for b in jp["ballots"] if b.get("r")]
            if ref.vk_weight_by_ranking(out.ballots) != by_ranking_json(want) or len(out.ballots) != len(want):
                oracle.append("non-empty ballots were not kept exactly")
        return {"model": model, "oracle": oracle, "tags": tags, "nontrivial": any(not b.get("r") for b in jp["ballots"])}
    if kind == "dedup":
        out = call_impl(CL.deduplicate_profiles, prof)
        model.append({"op": 61, "arg": pv, "expect": out if isinstance(out, Err) else ordered(out), "what": "deduplicate_profiles"})

        def f(r):
            seen, o = [], []
            for g in r:
                if g not in seen:
                    seen.append(g)
                    o.append(g)
            return o
        removed = []
    else:
        non = case["non"]
        out = call_impl(CL.remove_noncands, prof, list(non))
        model.append({"op": 62, "arg": [pv, [nm.id(c) for c in non]], "expect": out if isinstance(out, Err) else ordered(out),
                      "what": "remove_noncands"})

        def f(r):
            seen, o = [], []
            for g in r:
                if g[0] in non and len(g) == 1:
                    continue
                if g not in seen:
                    seen.append(g)
                    o.append(g)
            return o
        removed = non
    if isinstance(out, Err):
        oracle.append(f"{kind} raised {out}")
    else:
        want = {k: v for k, v in by_ranking_json(jp["ballots"], f).items() if k != ()}
        got = {k: v for k, v in ref.vk_weight_by_ranking(out.ballots).items() if k != ()}
        if got != want:
            oracle.append("weight per resulting ranking differs from the summed weight of the ballots mapping to it")
        for b in out.ballots:
            flat = [c for g in b.ranking for c in g]
            if len(flat) != len(set(flat)):
                oracle.append("a candidate is still repeated on a ballot")
                break
            if any(c in removed for c in flat):
                oracle.append("a non-candidate still appears")
                break
        nontrivial = any(f(b["r"]) != b["r"] for b in jp["ballots"])
    return {"model": model, "oracle": oracle, "tags": tags, "nontrivial": nontrivial}
