"""C03 — surplus transfers and STV rounds conserve votes."""
from __future__ import annotations
from fractions import Fraction
import math
import common, vk, gen, ref, rules, ruleslib, stvlib
from common import S, Err, Names, call_impl
from recorder import Recorder, installed

RULE = ("(a) direct calls of fractional_transfer / random_transfer / the SequentialRCV transfer on generated "
        "piles: duplicates, exhausted (bullet) ballots, ballots not led by the winner, rational weights "
        "(fractional) or integer weights (random), tally >= threshold >= 1; (b) whole STV runs with either "
        "transfer, every round audited. Non-trivial = the pile has a winner-led ballot with a next choice, "
        "or the run has >= 2 rounds; distinct by canonical JSON")
TRUSTED = ["random.sample(population, k) returns a uniformly distributed k-subset (the 'equally likely' clause "
           "is decided as: the population handed to the sampler is exactly the transferable unit ballots and k = tally - threshold)"]
ORACLE_ONLY = []
model_post = ruleslib.model_post


def known_finding(case, kind, detail):
    if case.get("kind") == "transfer" and case["transfer"] == "random" and "shortage" in str(detail):
        return "random-transfer-shortage"
    if case.get("kind") == "stv":
        return stv_known(case, detail)
    return None


def stv_known(case, detail):
    d = str(detail)
    cfg = case["cfg"]
    if "Err(EValue)" in d and cfg.get("transfer") == "random":
        return "random-transfer-shortage"
    if "Err(EIndex)" in d and (cfg.get("quota") == "hare" or case["rule"] == "SequentialRCV"):
        return "stv-over-election"
    if "Err(EZeroDiv)" in d and cfg.get("quota") == "hare":
        return "hare-zero-quota"
    return None


def corpus_cases():
    return [{"kind": "transfer", "transfer": "random", "winner": "A", "fpv": "10", "t": 5,
             "ballots": [{"r": [["A"]], "w": "8"}, {"r": [["A"], ["B"]], "w": "2"}], "seed": 1}]


def gen_pile(rng, integer):
    n = rng.choice([2, 3, 4, 5])
    names = gen.pick_names(rng, n)
    w = names[0]
    bs = []
    for _ in range(rng.randint(1, 7)):
        led = rng.random() < 0.75
        rest = [c for c in rng.sample(names[1:], rng.randint(0, n - 1))]
        if led:
            r = [w] + rest
        else:
            r = rest[:1] + ([w] if rng.random() < 0.5 else []) + rest[1:]
            if not r:
                r = [names[1]]
        wt = gen.rand_weight(rng, "int" if integer else "mixed")
        if integer:
            wt = str(min(30, int(Fraction(wt))))
        bs.append({"r": [[c] for c in r], "w": wt})
    if rng.random() < 0.3:
        bs.append(dict(rng.choice(bs)))
    tally = sum((Fraction(b["w"]) for b in bs if b["r"][0] == [w]), Fraction(0))
    return names, w, bs, tally


def gen_cases(rng, tier):
    n = 700 if tier == "quick" else 10000
    cases = []
    for i in range(n):
        if rng.random() < 0.55:
            tr = rng.choice(["fractional", "fractional", "random", "full"])
            names, w, bs, tally = gen_pile(rng, integer=(tr == "random"))
            if tally < 1:                       # the property quantifies over tally >= threshold >= 1
                tally = Fraction(rng.randint(1, 5))
            fpv = tally if rng.random() < 0.85 else tally + rng.randint(1, 3)
            t = rng.randint(1, max(1, math.floor(fpv)))
            cases.append({"kind": "transfer", "transfer": tr, "winner": w, "fpv": common.fstr(fpv), "t": t,
                          "ballots": bs, "seed": rng.randrange(1 << 30)})
        else:
            c = stvlib.gen_stv_cases(rng, 1)[0]
            c["kind"] = "stv"
            cases.append(c)
    return cases


def run_case(case):
    common.load_impl()
    if case["kind"] == "stv":
        return run_stv(case)
    from votekit.elections import fractional_transfer, random_transfer
    from votekit.utils import remove_cand
    tr, w, fpv, t, bsj = case["transfer"], case["winner"], Fraction(case["fpv"]), case["t"], case["ballots"]
    nm = Names(rules.all_names({"ballots": bsj, "cands": [w]}))
    vb = tuple(vk.mk_ballot(b) for b in bsj)
    rec = Recorder(case["seed"])
    fn = {"fractional": fractional_transfer, "random": random_transfer,
          "full": (lambda winner, fpv, ballots, threshold: remove_cand(winner, tuple(ballots)))}[tr]
    with installed(rec):
        out = call_impl(fn, w, fpv, vb, t)
    script, calls = rules.script_from_log(nm, rec.log)
    arg = [{"fractional": 1, "random": 2, "full": 3}[tr], nm.id(w), fpv, [vk.jb_val(nm, b) for b in bsj], Fraction(t), script]
    expect = out if isinstance(out, Err) else [vk.ballots_val(nm, out), calls, 0]
    model = [{"op": 11, "arg": arg, "expect": expect, "what": "election_states-like: transfer output + random calls"}]
    tags = ["kind:transfer", "transfer:" + tr]
    oracle = []
    led = [b for b in bsj if b["r"][0] == [w]]
    other = [b for b in bsj if b["r"][0] != [w]]
    transferable = [b for b in led if ref.strip(b["r"], {w})]
    units = sum(int(Fraction(b["w"])) for b in transferable) if tr == "random" else None
    k = int(math.floor(fpv)) - t
    if isinstance(out, Err):
        tags.append("outcome:" + repr(out))
        if tr == "random" and out == Err("EValue") and (k > units or k < 0):
            oracle.append(f"random transfer raised ValueError: sample shortage (k={k}, transferable units={units})")
        else:
            oracle.append(f"transfer raised {out}")
    else:
        if any(w in g for b in out for g in b.ranking):
            oracle.append("the winner is still mentioned")
        got = ref.vk_weight_by_ranking(out)
        if tr in ("fractional", "full"):
            tv = (fpv - t) / fpv if tr == "fractional" else Fraction(1)
            want = ref.weight_by_ranking([(ref.strip(b["r"], {w}), Fraction(b["w"]) * tv) for b in led] +
                                         [(ref.strip(b["r"], {w}), Fraction(b["w"])) for b in other])
            want = {kk: v for kk, v in want.items() if kk != () and v > 0}
            if got != want:
                oracle.append("per-ranking weights differ from weight*(tally-threshold)/tally (winner-led) / weight (others)")
        else:
            base = ref.weight_by_ranking((ref.strip(b["r"], {w}), Fraction(b["w"])) for b in other)
            base = {kk: v for kk, v in base.items() if kk != ()}
            avail = ref.weight_by_ranking((ref.strip(b["r"], {w}), Fraction(b["w"])) for b in transferable)
            extra, ok = {}, True
            for kk in set(got) | set(base):
                d = got.get(kk, Fraction(0)) - base.get(kk, Fraction(0))
                if d < 0 or d.denominator != 1 or d > avail.get(kk, Fraction(0)):
                    ok = False
                extra[kk] = d
            if not ok:
                oracle.append("transferred ballots are not a sub-collection of the winner's transferable ballots")
            if sum(extra.values(), Fraction(0)) != k:
                oracle.append(f"transferred {sum(extra.values(), Fraction(0))} ballots instead of tally-threshold={k}")
            # population handed to the sampler = one unit copy per unit of weight of each transferable ballot
            smp = [e for e in rec.log if e["kind"] == "sample"]
            if len(smp) != 1:
                oracle.append("random transfer did not make exactly one sample call")
            else:
                pop = ref.vk_weight_by_ranking(smp[0]["population"])
                if pop != {kk: v for kk, v in avail.items()} or smp[0]["k"] != k or \
                        any(b.weight != 1 for b in smp[0]["population"]):
                    oracle.append("the sampler was not given exactly the transferable unit ballots with k = tally - threshold")
    nontriv = any(len(b["r"]) > 1 for b in led)
    return {"model": model, "oracle": oracle, "tags": tags, "nontrivial": nontriv}


def run_stv(case):
    info, mc = ruleslib.run_rule_case(case)
    el = info["election"]
    tags = stvlib.tags_for(case, el) + ["kind:stv"]
    oracle = []
    m_ = 1 if case["rule"] == "IRV" else case["cfg"].get("m", 1)
    prof_ = info["profile"]
    if isinstance(el, Err) and not isinstance(prof_, Err) and not (1 <= m_ <= len(prof_.candidates)):
        if el != Err("EValue"):
            oracle.append(f"seat count out of range raised {el}")
        return {"model": [mc] if mc else [], "oracle": oracle, "tags": tags + ["m-out-of-range"], "nontrivial": False}
    if isinstance(el, Err):
        oracle_err = f"STV run raised {el}"
        # only boundary-tie ValueErrors are legitimate (C01); everything else is reported
        if not (el == Err("EValue") and case["cfg"].get("tiebreak") is None and case["cfg"].get("transfer") != "random"):
            oracle.append(oracle_err)
        return {"model": [mc] if mc else [], "oracle": oracle, "tags": tags, "nontrivial": False}
    t = el.threshold
    sts = el.election_states
    totals = [sum(s.scores.values(), Fraction(0)) for s in sts]
    for r in range(1, len(sts)):
        if totals[r] > totals[r - 1]:
            oracle.append(f"total weight increased in round {r}")
        nq = sum(len(g) for g in sts[r].elected if sts[r].elected != (frozenset(),)) if any(
            v >= t for v in sts[r - 1].scores.values()) else 0
        drop = totals[r - 1] - totals[r]
        if case["rule"] != "SequentialRCV" and r < len(sts) and nq and drop < t * nq:
            oracle.append(f"round {r}: weight dropped by {drop} < threshold*{nq}")
    # exact accounting on deterministic fractional / full-weight runs through get_profile
    det = not any(s.tiebreaks for s in sts) and case["cfg"].get("transfer", "fractional") != "random"
    if det:
        profs = [call_impl(el.get_profile, r) for r in range(len(sts))]
        for r in range(1, len(sts)):
            p0, p1 = profs[r - 1], profs[r]
            if isinstance(p0, Err) or isinstance(p1, Err):
                oracle.append(f"get_profile failed: {p0 if isinstance(p0, Err) else p1}")
                break
            prev, cur = sts[r - 1], sts[r]
            winners = {c for g in cur.elected for c in g}
            elim = {c for g in cur.eliminated for c in g}
            quota_round = any(v >= t for v in prev.scores.values())
            gone = winners | elim
            if not quota_round and winners:           # default election of everybody left
                continue
            exhausted = Fraction(0)
            for b in p0.ballots:
                head = next(iter(b.ranking[0]))
                f = Fraction(1)
                if quota_round and head in winners and case["rule"] != "SequentialRCV":
                    f = (prev.scores[head] - t) / prev.scores[head]
                if not ref.strip([list(g) for g in b.ranking], gone):
                    exhausted += b.weight * f
            spent = t * len(winners) if (quota_round and case["rule"] != "SequentialRCV") else Fraction(0)
            drop = p0.total_ballot_wt - p1.total_ballot_wt
            if case["rule"] != "SequentialRCV" and drop != spent + exhausted:
                oracle.append(f"round {r}: weight dropped by {drop}, expected threshold consumed {spent} + exhausted {exhausted}")
    return {"model": [mc] if mc else [], "oracle": oracle, "tags": tags, "nontrivial": len(sts) > 2}
