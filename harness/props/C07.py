"""C07 — STV meets Droop proportionality for solid coalitions (IRV majority criterion)."""
from __future__ import annotations
from fractions import Fraction
import itertools, math
import common, vk, gen, ref, rules, ruleslib, stvlib
from common import S, Err, Names, call_impl

RULE = ("STV and IRV with the Droop quota, fractional or random transfer, simultaneous / one-by-one, on profiles of "
        "untied ranked ballots engineered to contain solid coalitions (a bloc of voters ranking a set S first in "
        "varying internal orders, worth about k quotas, against scattered opposition) plus the STV boundary families; "
        "for every run that returns winners ALL candidate subsets S are enumerated and the bound min(k,|S|,m) checked. "
        "Non-trivial = some subset S has k >= 1 with |S| >= 2 or is not already top-ranked; distinct by canonical JSON")
model_post = ruleslib.model_post


def known_finding(case, kind, detail):
    d = str(detail)
    if "Err(EValue)" in d and case["cfg"].get("transfer") == "random":
        return "random-transfer-shortage"
    return None


def coalition_profile(rng):
    n = rng.choice([3, 4, 5, 6])
    names = gen.pick_names(rng, n)
    m = rng.randint(1, n - 1)
    s = rng.randint(1, min(3, n - 1))
    Sset = names[:s]
    others = names[s:]
    ballots = []
    total_other = 0
    for _ in range(rng.randint(1, 4)):
        r = rng.sample(others, rng.randint(1, len(others)))
        if rng.random() < 0.4:
            r += rng.sample(Sset, rng.randint(0, s))
        w = rng.randint(1, 9)
        total_other += w
        ballots.append({"r": [[c] for c in r], "w": str(w)})
    # coalition worth about k quotas
    k = rng.randint(1, max(1, min(s, m)))
    cw = max(1, int(k * (total_other + 1) / max(1, (m + 1 - k))) + rng.choice([-1, 0, 0, 1, 2]))
    parts = rng.randint(1, 3)
    for i in range(parts):
        w = cw // parts + (1 if i < cw % parts else 0)
        if w <= 0:
            continue
        order = rng.sample(Sset, s)
        tail = rng.sample(others, rng.randint(0, len(others)))
        ballots.append({"r": [[c] for c in order + tail], "w": str(w)})
    rng.shuffle(ballots)
    return {"ballots": ballots, "cands": list(names)}, m


def gen_cases(rng, tier):
    n = 700 if tier == "quick" else 9000
    cases = []
    for i in range(n):
        if rng.random() < 0.7:
            jp, m = coalition_profile(rng)
            fam = "coalition"
        else:
            jp, m, kind = gen.stv_boundary_profile(rng)
            fam = "boundary:" + kind
            for b in jp["ballots"]:
                b["w"] = str(max(1, math.ceil(Fraction(b["w"]))))
        rule = rng.choice(["STV", "STV", "STV", "IRV"])
        cfg = {"quota": "droop", "tiebreak": rng.choice(["random", "random", "borda", None])}
        if rule == "STV":
            cfg.update(m=m, simultaneous=rng.random() < 0.5, transfer=rng.choice(["fractional", "fractional", "random"]))
        cases.append({"rule": rule, "cfg": cfg, "profile": jp, "seed": rng.randrange(1 << 30), "family": fam})
    return cases


def run_case(case):
    common.load_impl()
    info, mc = ruleslib.run_rule_case(case)
    el, prof = info["election"], info["profile"]
    tags = stvlib.tags_for(case, el)
    oracle = []
    if isinstance(prof, Err):
        return {"model": [], "oracle": [], "tags": tags, "nontrivial": False}
    model = [mc] if mc else []
    if isinstance(el, Err):
        if not (el == Err("EValue") and case["cfg"].get("tiebreak") is None):
            oracle.append(f"run raised {el}")
        return {"model": model, "oracle": oracle, "tags": tags, "nontrivial": False}
    m = 1 if case["rule"] == "IRV" else case["cfg"]["m"]
    t = el.threshold
    winners = {c for g in el.get_elected() for c in g}
    cs = list(prof.candidates)
    nontrivial = False
    for size in range(1, len(cs) + 1):
        for Sset in itertools.combinations(cs, size):
            Ss = set(Sset)
            w = Fraction(0)
            for b in case["profile"]["ballots"]:
                order = [g[0] for g in b["r"]]
                if len(order) >= size and set(order[:size]) == Ss:
                    w += Fraction(b["w"])
            k = int(w // t) if t > 0 else 0
            need = min(k, size, m)
            if need >= 1:
                if size >= 2:
                    nontrivial = True
                if len(winners & Ss) < need:
                    oracle.append(f"solid coalition for {sorted(map(str, Ss))} worth {w} >= {k} x threshold {t} but only "
                                  f"{len(winners & Ss)} of its candidates elected (need {need})")
    if case["rule"] == "IRV":
        fpv = ref.positional_scores(case["profile"], [1] + [0] * len(cs))
        maj = [c for c in cs if fpv[c] >= t]
        if maj and winners != {maj[0]}:
            oracle.append("a candidate with a first-place majority did not win IRV")
    return {"model": model, "oracle": oracle, "tags": tags, "nontrivial": nontrivial}
