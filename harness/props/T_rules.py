"""scratch: all-rules correspondence smoke test (not a registered property)"""
import ruleslib, stvlib
from common import Err
RULE = "rules smoke"
model_post = ruleslib.model_post
def gen_cases(rng, tier):
    return ruleslib.gen_rule_cases(rng, 600 if tier == "quick" else 5000, rule_pool=None)
def run_case(case):
    info, mc = ruleslib.run_rule_case(case)
    el = info["election"]
    return {"model": [mc] if mc else [], "oracle": [], "tags": stvlib.tags_for(case, el), "nontrivial": not isinstance(el, Err)}
