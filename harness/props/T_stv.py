"""scratch: STV correspondence smoke test (not a registered property)"""
import stvlib
from common import Err
RULE = "stv smoke"
model_post = stvlib.model_post
def gen_cases(rng, tier):
    return stvlib.gen_stv_cases(rng, 400 if tier == "quick" else 5000)
def run_case(case):
    info, mc = stvlib.run_stv_case(case)
    el = info["election"]
    return {"model": [mc] if mc else [], "oracle": [], "tags": stvlib.tags_for(case, el), "nontrivial": not isinstance(el, Err) and len(el.election_states) > 2}
