"""C08 — outcomes are neutral, anonymous and independent of representation and hash seed."""
from __future__ import annotations
from fractions import Fraction
import os, sys, json, subprocess, random as _random
import common, vk, gen, ref, rules, ruleslib, stvlib
from common import S, Err, Names, call_impl, VERIF
from recorder import Recorder, installed

RULE = ("every deterministic rule on generated profiles; each base case is re-run (a) renamed through a bijection "
        "onto names whose sort order, insertion order and hash order differ, (b) with the ballots shuffled, (c) with "
        "one ballot split into several identical ballots whose weights add up, (d) with identical ballots merged, "
        "(e) with the candidate tuple shuffled or omitted, and (f) in batches, in fresh interpreters started with "
        "other PYTHONHASHSEED values; every variant must give the base rounds (transported by the bijection) whenever "
        "no tiebreak is recorded. Non-trivial = multi-round election or >= 3 candidates, with no recorded tiebreak; "
        "distinct by canonical JSON")
ORACLE_ONLY = ["independence of PYTHONHASHSEED (CPython string hashing has no counterpart in the model): differential across interpreters"]
TRUSTED = ["Paramcoq 'Parametricity' translation (plugin; the generated terms are re-checked by the kernel, no axioms)"]
model_post = ruleslib.model_post
DET = [r for r in ruleslib.RANK_RULES + ruleslib.SCORE_RULES
       if r not in ("RandomDictator", "BoostedRandomDictator", "PluralityVeto")]
HOSTILE = ["zz", "a", "M", "b2", "Ab", "aB", "é", "_x", "0k", "Zed", "q q", "Ω"]


def known_finding(case, kind, detail):
    d = str(detail)
    if "Err(EIndex)" in d or "Err(EZeroDiv)" in d:
        return "stv-over-election" if "EIndex" in d else "hare-zero-quota"
    if "Err(EKey)" in d:
        return "alaska-replay-redraw"
    return None


def gen_cases(rng, tier):
    n = 350 if tier == "quick" else 5000
    cases = ruleslib.gen_rule_cases(rng, n, rule_pool=DET)
    out = []
    for c in cases:
        if c["cfg"].get("transfer") == "random":
            c["cfg"]["transfer"] = "fractional"
        if str(c.get("family", "")).startswith("scores:") and c["family"] != "scores:None":
            continue
        c["kind"] = "variants"
        c["vseed"] = rng.randrange(1 << 30)
        out.append(c)
    # hash-seed batches
    seeds = [1, 4242] if tier == "quick" else [1, 2, 3, 7, 99, 4242, 31337, 123456]
    pool = [c for c in out]
    bsz = 60
    for i in range(0, min(len(pool), 240 if tier == "quick" else 2400), bsz):
        sub = [{k: v for k, v in c.items() if k in ("rule", "cfg", "profile", "seed")} for c in pool[i:i + bsz]]
        out.append({"kind": "hashseeds", "seeds": seeds, "cases": sub})
    return out


def rename_case(case, m):
    jp = case["profile"]
    nb = []
    for b in jp["ballots"]:
        nb.append(dict(b, r=None if b.get("r") is None else [[m[c] for c in g] for g in b["r"]],
                       s=None if b.get("s") is None else {m[c]: v for c, v in b["s"].items()}))
    c2 = dict(case)
    c2["profile"] = {"ballots": nb, "cands": None if jp.get("cands") is None else [m[c] for c in jp["cands"]]}
    return c2


def named(el, back=None):
    import hs_worker
    st = hs_worker.named_states(el)
    if back:
        st = json.loads(json.dumps(st))

        def mp(x):
            if isinstance(x, list):
                return sorted(mp(y) for y in x) if x and all(isinstance(y, str) and y in back for y in x) else [mp(y) for y in x]
            return back.get(x, x) if isinstance(x, str) else x
        st = mp(st)
        for s in st:
            s[5] = sorted(s[5])
            s[4] = sorted(s[4], key=repr)
    return st


def run_one(case):
    prof = call_impl(vk.mk_profile, case["profile"])
    if isinstance(prof, Err):
        return prof
    with installed(Recorder(case.get("seed", 0))):
        return call_impl(rules.build_election, case, prof)


def run_case(case):
    common.load_impl()
    if case["kind"] == "hashseeds":
        return run_hashseeds(case)
    info, mc = ruleslib.run_rule_case(case)
    el, prof = info["election"], info["profile"]
    tags = stvlib.tags_for(case, el)
    oracle = []
    if isinstance(prof, Err):
        return {"model": [], "oracle": [], "tags": tags, "nontrivial": False}
    model = [mc] if mc else []
    if isinstance(el, Err):
        if el not in (Err("EValue"), Err("EType")):
            oracle.append(f"run raised {el}")
        return {"model": model, "oracle": oracle, "tags": tags, "nontrivial": False}
    if any(s.tiebreaks for s in el.election_states):
        return {"model": model, "oracle": [], "tags": tags + ["tiebroken:skipped"], "nontrivial": False}
    base = named(el)
    rng = _random.Random(case["vseed"])
    jp = case["profile"]
    names = rules.all_names(jp)
    variants = []
    # (a) renaming through a hostile bijection
    tgt = rng.sample(HOSTILE, len(names)) if len(names) <= len(HOSTILE) else None
    if tgt:
        m = dict(zip(names, tgt))
        variants.append(("renamed", rename_case(case, m), {v: k for k, v in m.items()}))
    # (b) ballots shuffled
    bs = list(jp["ballots"])
    rng.shuffle(bs)
    variants.append(("shuffled", dict(case, profile=dict(jp, ballots=bs)), None))
    # (c) split one ballot into three identical ones whose weights add up
    j = rng.randrange(len(jp["ballots"]))
    w = Fraction(jp["ballots"][j]["w"])
    parts = [w / 2, w / 3, w - w / 2 - w / 3]
    bs2 = list(jp["ballots"][:j]) + list(jp["ballots"][j + 1:])
    for q in parts:
        bs2.insert(rng.randrange(len(bs2) + 1), dict(jp["ballots"][j], w=common.fstr(q)))
    variants.append(("split", dict(case, profile=dict(jp, ballots=bs2)), None))
    # (d) merge identical ballots
    acc = {}
    for b in jp["ballots"]:
        k = json.dumps([sorted(map(sorted, b.get("r") or [])) if False else [sorted(g) for g in (b.get("r") or [])], b.get("s")], sort_keys=True)
        if k in acc:
            acc[k] = dict(acc[k], w=common.fstr(Fraction(acc[k]["w"]) + Fraction(b["w"])))
        else:
            acc[k] = dict(b)
    variants.append(("merged", dict(case, profile=dict(jp, ballots=list(acc.values()))), None))
    # (e) candidate tuple shuffled / omitted
    cs = list(prof.candidates)
    rng.shuffle(cs)
    variants.append(("cands-shuffled", dict(case, profile=dict(jp, cands=cs)), None))
    cast = {c for b in jp["ballots"] if Fraction(b["w"]) > 0 for g in (b.get("r") or []) for c in g} | \
           {c for b in jp["ballots"] if Fraction(b["w"]) > 0 for c in (b.get("s") or {})}
    if cast == set(prof.candidates):
        variants.append(("cands-omitted", dict(case, profile=dict(jp, cands=None)), None))
    # the pairwise utilities of the property's list (Condorcet queries, dominating tiers) under the same variants
    def pw_summary(c, back=None):
        from votekit.graphs import PairwiseComparisonGraph
        p2 = call_impl(vk.mk_profile, c["profile"])
        if isinstance(p2, Err) or any(not b.ranking for b in p2.ballots) or len(p2.candidates) > 6:
            return None
        g = call_impl(PairwiseComparisonGraph, p2)
        if isinstance(g, Err):
            return repr(g)
        mp = (lambda x: back.get(x, x)) if back else (lambda x: x)
        has = call_impl(g.has_condorcet_winner)
        win = call_impl(g.get_condorcet_winner)
        tiers = call_impl(g.dominating_tiers)
        return [repr(has) if isinstance(has, Err) else bool(has), repr(win) if isinstance(win, Err) else mp(str(win)),
                repr(tiers) if isinstance(tiers, Err) else [sorted(mp(str(x)) for x in t) for t in tiers]]
    pw_base = pw_summary(case)
    if pw_base is not None:
        for name, vc, back in variants:
            if pw_summary(vc, back) != pw_base:
                oracle.append(f"variant '{name}' changes the Condorcet queries / dominating tiers of the pairwise graph")
                break
        tags.append("pairwise-queries")
    for name, vc, back in variants:
        e2 = run_one(vc)
        if isinstance(e2, Err):
            oracle.append(f"variant '{name}' raised {e2} although the base run returned rounds")
        elif any(s.tiebreaks for s in e2.election_states):
            oracle.append(f"variant '{name}' records a tiebreak although the base run does not")
        elif named(e2, back) != base:
            oracle.append(f"variant '{name}' changes a round of the outcome")
        tags.append("variant:" + name)
    nontrivial = len(el.election_states) > 2 or len(prof.candidates) >= 3
    return {"model": model, "oracle": oracle, "tags": tags, "nontrivial": nontrivial}


def run_hashseeds(case):
    import hs_worker
    cases = case["cases"]
    base = []
    for c in cases:
        e = run_one(c)
        base.append({"err": repr(e)} if isinstance(e, Err) else {"states": hs_worker.named_states(e)})
    oracle = []
    for hs in case["seeds"]:
        env = dict(os.environ, PYTHONHASHSEED=str(hs))
        p = subprocess.run([sys.executable, os.path.join(VERIF, "harness", "hs_worker.py")], input=json.dumps(cases),
                           capture_output=True, text=True, env=env, timeout=1200)
        if p.returncode != 0:
            return {"infra_error": "hash-seed worker failed: " + p.stderr[-1500:]}
        out = json.loads(p.stdout)
        for c, b, o in zip(cases, base, out):
            if "states" in b and any(s[4] for s in b["states"]):
                continue                    # a recorded tiebreak: outside the property's scope
            if json.dumps(b, sort_keys=True) != json.dumps(o, sort_keys=True):
                if "states" in o and any(s[4] for s in o["states"]):
                    continue
                oracle.append(f"PYTHONHASHSEED={hs} changes the outcome of {c['rule']} {json.dumps(c['cfg'])} on {json.dumps(c['profile'])}")
                break
    return {"model": [], "oracle": oracle, "tags": ["kind:hashseeds", f"seeds:{len(case['seeds'])}", f"batch:{len(cases)}"],
            "nontrivial": True}
