"""C13 — composite and alias rules equal the composition they are documented to be."""
from __future__ import annotations
from fractions import Fraction
import common, vk, gen, ref, rules, ruleslib, stvlib
from common import S, Err, Names, call_impl
from recorder import Recorder, installed

RULE = ("IRV, SNTV, SequentialRCV, TopTwo, Alaska on profiles of untied ranked ballots (boundary families of the "
        "STV generator, small-scope and random) x quota x simultaneous x tiebreak; each case is run on the "
        "implementation, on the model (generated wiring), and against the documented composition built separately "
        "inside the implementation under the same recorded random stream. Non-trivial = the run has >= 2 rounds and "
        "returns states; distinct by canonical JSON")
model_post = ruleslib.model_post
POOL = ["IRV", "SNTV", "SequentialRCV", "TopTwo", "Alaska", "Alaska", "TopTwo"]


def known_finding(case, kind, detail):
    d = str(detail)
    if case["rule"] == "Alaska" and "Err(EKey)" in d:
        return "alaska-replay-redraw"
    if "Err(EIndex)" in d and (case["cfg"].get("quota") == "hare" or case["rule"] in ("SequentialRCV", "Alaska")):
        return "stv-over-election"
    if "Err(EZeroDiv)" in d and case["cfg"].get("quota") == "hare":
        return "hare-zero-quota"
    return None


def gen_cases(rng, tier):
    n = 600 if tier == "quick" else 8000
    cases = ruleslib.gen_rule_cases(rng, n, rule_pool=POOL)
    for c in cases:
        if c["cfg"].get("transfer") == "random":
            c["cfg"]["transfer"] = "fractional"
    return cases


def states_canon(nm, el):
    return common.canon(vk.states_val(nm, el.election_states))


def run_case(case):
    common.load_impl()
    from votekit import elections as E
    from votekit.utils import remove_cand, first_place_votes
    info, mc = ruleslib.run_rule_case(case)
    el, prof, nm = info["election"], info["profile"], info["nm"]
    tags = stvlib.tags_for(case, el)
    oracle = []
    if isinstance(prof, Err):
        return {"model": [], "oracle": [], "tags": tags, "nontrivial": False}
    rule, cfg = case["rule"], case["cfg"]
    seed = case.get("seed", 0)

    def build(fn):
        with installed(Recorder(seed)):
            return call_impl(fn)
    ref_el = None
    if rule == "IRV":
        kw = {k: cfg[k] for k in ("quota", "tiebreak") if cfg.get(k) is not None}
        ref_el = build(lambda: E.STV(prof, m=1, **kw))
    elif rule == "SNTV":
        ref_el = build(lambda: E.Plurality(prof, m=cfg["m"], tiebreak=cfg.get("tiebreak")))
    elif rule == "SequentialRCV":
        kw = {k: cfg[k] for k in ("quota", "tiebreak", "simultaneous") if cfg.get(k) is not None}
        ref_el = build(lambda: E.STV(prof, m=cfg["m"], transfer=lambda w, fpv, bs, t: remove_cand(w, tuple(bs)), **kw))
    if ref_el is not None:
        if isinstance(el, Err) or isinstance(ref_el, Err):
            if not (isinstance(el, Err) and isinstance(ref_el, Err) and el == ref_el):
                oracle.append(f"{rule} -> {el if isinstance(el, Err) else 'states'} but the documented equivalent -> {ref_el if isinstance(ref_el, Err) else 'states'}")
        elif states_canon(nm, el) != states_canon(nm, ref_el):
            oracle.append(f"{rule} rounds differ from the documented equivalent rule")
    if rule == "TopTwo" and not isinstance(el, Err):
        sts = el.election_states
        if len(sts) != 3 or [s.round_number for s in sts] != [0, 1, 2]:
            oracle.append("TopTwo does not have rounds 0,1,2")
        else:
            top2 = [c for g in sts[1].remaining for c in g]
            fpv = ref.positional_scores(case["profile"], [1] + [0] * len(prof.candidates))
            rest = [c for c in prof.candidates if c not in top2]
            if len(top2) != 2 or (rest and min(fpv[c] for c in top2) < max(fpv[c] for c in rest)):
                oracle.append("the runoff is not between the two highest first-place candidates")
            else:
                a, b = top2
                wa = wb = Fraction(0)
                for bal in case["profile"]["ballots"]:
                    order = [g[0] for g in bal["r"] if g[0] in top2]
                    if order:
                        if order[0] == a:
                            wa += Fraction(bal["w"])
                        else:
                            wb += Fraction(bal["w"])
                winner = [c for g in sts[2].elected for c in g]
                if wa != wb and winner != [a if wa > wb else b]:
                    oracle.append(f"TopTwo winner {winner} is not the head-to-head winner between {top2} ({wa}:{wb})")
                if wa == wb and not sts[2].tiebreaks:
                    oracle.append("tied runoff decided without a recorded tiebreak")
    if rule == "TopTwo" and isinstance(el, Err) and el != Err("EValue"):
        oracle.append(f"TopTwo raised {el}")
    if rule == "Alaska":
        m1, m2 = cfg["m_1"], cfg["m_2"]
        kw = {k: cfg[k] for k in ("quota", "simultaneous", "tiebreak") if cfg.get(k) is not None}

        def composed():
            pl = E.Plurality(prof, m=m1, tiebreak=cfg.get("tiebreak"))
            losers = [c for g in pl.get_remaining() for c in g]
            p1 = remove_cand(losers, prof)
            stv = E.STV(p1, m=m2, **kw)
            return pl, p1, stv
        comp = build(composed)
        if isinstance(el, Err) or isinstance(comp, Err):
            if isinstance(el, Err) != isinstance(comp, Err) or (isinstance(el, Err) and el != comp):
                # the replay inside Alaska may add an error of its own (known finding) - reported as is
                oracle.append(f"Alaska -> {el if isinstance(el, Err) else 'states'} but Plurality+STV -> {comp if isinstance(comp, Err) else 'states'}")
        else:
            pl, p1, stv = comp
            sts = el.election_states
            if [s.round_number for s in sts] != list(range(len(sts))):
                oracle.append("Alaska rounds are not numbered consecutively")
            want = [vk.state_val(nm, s) for s in stv.election_states[1:]]
            for i, w in enumerate(want):
                w[0] = i + 2
            got = [vk.state_val(nm, s) for s in sts[2:]]
            if common.canon(got) != common.canon(want):
                oracle.append("Alaska rounds 2.. are not the STV(m_2) rounds on the profile of the m_1 plurality winners")
            keep = {c for g in pl.get_elected() for c in g}
            if {c for g in sts[1].remaining for c in g} != keep:
                oracle.append("Alaska round 1 does not keep exactly the m_1 highest first-place candidates")
    nontrivial = not isinstance(el, Err) and len(el.election_states) > 2
    return {"model": [mc] if mc else [], "oracle": oracle, "tags": tags, "nontrivial": nontrivial}
