"""C01 — every election terminates with exactly m winners and a consistent outcome."""
from __future__ import annotations
from fractions import Fraction
import common, vk, gen, ref, rules, ruleslib, stvlib
from common import S, Err, Names, call_impl

RULE = ("all 18 rule classes (+GeneralRating) x generated valid profiles (boundary families, small-scope, random; "
        "tied positions where the rule allows them; zero-vote candidates; integer or rational weights) x m x quota x "
        "simultaneous x transfer x tiebreak, under recorded random streams. Non-trivial = the run returns states with "
        ">= 2 candidates, or raises; distinct by canonical JSON")
model_post = ruleslib.model_post


def known_finding(case, kind, detail):
    d = str(detail)
    rule, cfg = case["rule"], case["cfg"]
    if rule in ruleslib.RANK_RULES and "Err(EType)" in d and any(b.get("r") and b.get("s") for b in case["profile"]["ballots"]) \
            and not (rule == "PluralityVeto" and cfg.get("tiebreak") in ("borda", "first_place")):
        return "ranking-rule-mixed-ballot-typeerror"
    if rule == "Alaska" and "Err(EKey)" in d:
        return "alaska-replay-redraw"
    if "Err(EIndex)" in d and rule in ("STV", "SequentialRCV", "Alaska", "IRV") and (cfg.get("quota") == "hare" or rule in ("SequentialRCV",)):
        return "stv-over-election"
    if "Err(EZeroDiv)" in d and cfg.get("quota") == "hare":
        return "hare-zero-quota"
    if "Err(EValue)" in d and cfg.get("transfer") == "random":
        return "random-transfer-shortage"
    voted = {c for b in case["profile"]["ballots"] for g in (b.get("r") or []) for c in g}
    if rule in ("RandomDictator", "BoostedRandomDictator") and len(voted) < cfg.get("m", 0) and \
            ("Err(EIndex)" in d or (rule == "BoostedRandomDictator" and "Err(EValue)" in d)):
        return "random-dictator-exhausted"       # the ballots run out before m seats are filled
    if rule == "PluralityVeto":
        if "Err(EFuel)" in d:
            return "plurality-veto-nontermination"
        if "Err(EType)" in d and cfg.get("tiebreak") in ("borda", "first_place"):
            return "plurality-veto-scored-tiebreak"
        if "Err(EUnbound)" in d and not any(b.get("r") for b in case["profile"]["ballots"]):
            return None
    return None


def gen_cases(rng, tier):
    n = 1100 if tier == "quick" else 15000
    cases = ruleslib.gen_rule_cases(rng, n)
    out = []
    for c in cases:
        if str(c.get("family", "")).startswith("scores:") and c["family"] != "scores:None":
            continue                                   # invalid score profiles belong to C05/C20
        m = c["cfg"].get("m")
        if m is not None and m < 1:
            continue
        out.append(c)
    # ranked ballots that also carry scores (Ballot allows both; every ranking rule accepts them)
    for c in out:
        if c["rule"] in ruleslib.RANK_RULES and rng.random() < 0.06:
            names = sorted({x for b in c["profile"]["ballots"] for g in (b.get("r") or []) for x in g} | set(c["profile"].get("cands") or []))
            if not names:
                continue
            for b in c["profile"]["ballots"]:
                if b.get("r") and not b.get("s") and rng.random() < 0.5:
                    b["s"] = {x: rng.choice(["1", "2", "1/2"]) for x in rng.sample(names, rng.randint(1, len(names)))}
            c["family"] = "mixed-ballot"
    # keep the slow non-terminating PluralityVeto runs to a handful in the quick tier
    pv = [c for c in out if c["rule"] == "PluralityVeto"]
    keep = 12 if tier == "quick" else 150
    drop = set(id(c) for c in pv[keep:])
    return [c for c in out if id(c) not in drop]


def flat(groups):
    return [c for g in groups for c in g]


def expected_count(case, prof):
    rule, cfg = case["rule"], case["cfg"]
    if rule in ("IRV", "TopTwo"):
        return 1
    if rule == "Alaska":
        return cfg["m_2"]
    if rule == "DominatingSets":
        return None
    return cfg["m"]


def run_case(case):
    common.load_impl()
    info, mc = ruleslib.run_rule_case(case)
    el, prof = info["election"], info["profile"]
    tags = stvlib.tags_for(case, el)
    oracle = []
    if isinstance(prof, Err):
        return {"model": [], "oracle": [], "tags": tags, "nontrivial": False}
    model = [mc] if mc else []
    cands = set(prof.candidates)
    rule, cfg = case["rule"], case["cfg"]
    m = expected_count(case, prof)
    in_range = m is None or (1 <= m <= len(cands))
    if rule == "Alaska":
        in_range = 1 <= cfg["m_2"] <= cfg["m_1"] <= len(cands)
    if rule == "TopTwo":
        in_range = len(cands) >= 2
    if isinstance(el, Err):
        if not in_range:
            if el != Err("EValue"):
                oracle.append(f"out-of-range seat count raised {el}")
        elif el == Err("EValue") and cfg.get("tiebreak") is None and cfg.get("transfer") != "random" and \
                rule not in ("RandomDictator", "BoostedRandomDictator", "DominatingSets", "CondoBorda"):
            tags.append("boundary-tie-valueerror")      # legitimacy of the tie is decided by C02/C04/C05's reference counts
        else:
            oracle.append(f"valid input raised {el}")
        return {"model": model, "oracle": oracle, "tags": tags, "nontrivial": True}
    if not in_range:
        oracle.append("a result was returned for an out-of-range seat count")
    sts = el.election_states
    final = flat(el.get_elected())
    if m is not None and len(final) != m:
        oracle.append(f"{len(final)} candidates elected instead of {m}")
    if rule == "DominatingSets":
        from votekit.graphs import PairwiseComparisonGraph
        top = set(PairwiseComparisonGraph(prof).dominating_tiers()[0])
        if set(final) != top:
            oracle.append("DominatingSets did not elect the top tier")
    prev_el, prev_elim = set(), set()
    for r in range(len(sts)):
        e, x, rem = flat(el.get_elected(r)), flat(el.get_eliminated(r)), flat(el.get_remaining(r))
        allc = e + x + rem
        if len(allc) != len(set(allc)) or set(allc) != cands:
            if rule == "PluralityVeto":
                oracle.append(f"round {r}: PluralityVeto groups do not list every candidate exactly once")
            else:
                oracle.append(f"round {r}: elected/remaining/eliminated do not list every candidate exactly once")
            break
        if not prev_el <= set(e) or not prev_elim <= set(x):
            oracle.append(f"round {r}: a candidate lost its elected/eliminated status")
            break
        prev_el, prev_elim = set(e), set(x)
    return {"model": model, "oracle": oracle, "tags": tags, "nontrivial": len(cands) >= 2}
