"""C17 — randomised rules and random tiebreaks draw from the documented distributions."""
from __future__ import annotations
from fractions import Fraction
import common, vk, gen, ref, rules, ruleslib, stvlib
from common import S, Err, Names, call_impl

RULE = ("RandomDictator and BoostedRandomDictator on profiles with ties in first place, partial ballots, rational "
        "weights and zero-vote candidates x m, plus random tiebreaks of Plurality/Borda/STV, under recorded random "
        "streams: the ARGUMENTS handed to random.choices / numpy.random.choice / random.uniform / random.sample "
        "(population, weights, p, k) are compared with the model's and, by the oracle, with the closed forms of the "
        "property (no frequency test is used as a verdict). Non-trivial = at least one recorded primitive call with a "
        "non-degenerate distribution (>= 2 outcomes of positive probability); distinct by canonical JSON")
TRUSTED = ["laws of the primitives: random.choices = categorical by weights, numpy choice(p) = categorical, "
           "random.uniform(0,1) = U[0,1), random.sample(S,|S|) = uniform permutation"]
model_post = ruleslib.model_post


def known_finding(case, kind, detail):
    d = str(detail)
    voted = {c for b in case["profile"]["ballots"] for g in (b.get("r") or []) for c in g}
    if case["rule"] in ("RandomDictator", "BoostedRandomDictator") and len(voted) < case["cfg"].get("m", 0):
        return "random-dictator-exhausted"
    if case["rule"] == "STV":
        if "Err(EIndex)" in d and case["cfg"].get("quota") == "hare":
            return "stv-over-election"
        if "Err(EZeroDiv)" in d and case["cfg"].get("quota") == "hare":
            return "hare-zero-quota"
    return None


def gen_cases(rng, tier):
    n = 600 if tier == "quick" else 8000
    return ruleslib.gen_rule_cases(rng, n, rule_pool=["RandomDictator", "BoostedRandomDictator", "RandomDictator",
                                                       "BoostedRandomDictator", "Plurality", "Borda", "STV"])


def run_case(case):
    common.load_impl()
    from votekit import Ballot
    if case["rule"] in ("Plurality", "Borda", "STV"):
        case["cfg"]["tiebreak"] = "random"
        if case["cfg"].get("transfer") == "random":
            case["cfg"]["transfer"] = "fractional"
    info, mc = ruleslib.run_rule_case(case)
    el, prof, rec = info["election"], info["profile"], info["rec"]
    tags = stvlib.tags_for(case, el)
    oracle = []
    if isinstance(prof, Err):
        return {"model": [], "oracle": [], "tags": tags, "nontrivial": False}
    model = [mc] if mc else []
    nontrivial = False
    if isinstance(el, Err):
        if el not in (Err("EValue"),):
            oracle.append(f"run raised {el}")
        return {"model": model, "oracle": oracle, "tags": tags, "nontrivial": False}
    sts = el.election_states
    rule = case["rule"]
    if rule in ("RandomDictator", "BoostedRandomDictator"):
        # walk the log round by round
        log = list(rec.log)
        pos = 0
        for r in range(1, len(sts)):
            prev = sts[r - 1]
            ncand = sum(len(g) for g in prev.remaining)
            scores = {c: Fraction(v) for c, v in prev.scores.items()}
            total = sum(scores.values(), Fraction(0))
            e = log[pos] if pos < len(log) else None
            use_rd = True
            if rule == "BoostedRandomDictator":
                if e is None or e["kind"] != "uniform":
                    oracle.append(f"round {r}: BoostedRandomDictator did not start with a uniform draw")
                    break
                u = Fraction(e["exact"])
                pos += 1
                if ncand == 1:
                    continue
                squares = u <= Fraction(1, ncand - 1)
                e = log[pos] if pos < len(log) else None
                if squares:
                    use_rd = False
                    if e is None or e["kind"] != "np_choice":
                        oracle.append(f"round {r}: u={u} <= 1/(c-1) but the proportional-to-squares draw was not made")
                        break
                    z = sum(v * v for v in scores.values())
                    want = {str(c): float(v * v / z) for c, v in scores.items()} if z else {}
                    got = {str(c): p for c, p in zip(e["a"], e["p"])}
                    if set(got) != set(want) or any(abs(got[c] - want[c]) > 1e-9 for c in want):
                        oracle.append(f"round {r}: squares rule probabilities {got} are not tally^2 / sum of squares {want}")
                    if sum(1 for p in want.values() if p > 0) >= 2:
                        nontrivial = True
                    pos += 1
                elif e is not None and e["kind"] == "np_choice":
                    oracle.append(f"round {r}: u={u} > 1/(c-1) but the proportional-to-squares rule was used")
                    break
            if use_rd:
                if e is None or e["kind"] != "choices":
                    oracle.append(f"round {r}: no weighted ballot draw was made")
                    break
                pop, ws = e["population"], e["weights"]
                if ws is None or any(not isinstance(b, Ballot) for b in pop):
                    oracle.append(f"round {r}: random.choices was not given the ballots with their weights")
                    break
                tot = sum((Fraction(w) for w in ws), Fraction(0))
                share = {}
                for b, w in zip(pop, ws):
                    first = b.ranking[0]
                    for c in first:
                        share[c] = share.get(c, Fraction(0)) + Fraction(w) / len(first)
                # closed form: share of the CURRENT first-place weight, ties split evenly
                for c, v in scores.items():
                    if total and share.get(c, Fraction(0)) / tot != v / total:
                        oracle.append(f"round {r}: P(elect {c}) = {share.get(c, Fraction(0)) / tot} is not its share of first-place weight {v / total}")
                        break
                if sum(1 for v in share.values() if v > 0) >= 2:
                    nontrivial = True
                pos += 1
                chosen = e["result"][0]
                if len(chosen.ranking[0]) > 1:
                    e2 = log[pos] if pos < len(log) else None
                    if e2 is None or e2["kind"] != "sample" or set(e2["population"]) != set(chosen.ranking[0]) or e2["k"] != len(chosen.ranking[0]):
                        oracle.append(f"round {r}: tied first place not resolved by a uniform random order of exactly the tied set")
                    pos += 1
    else:
        # random tiebreaks: every sample call permutes exactly a recorded tied set
        keys = [set(k) for s in sts for k in s.tiebreaks]
        for e in rec.log:
            if e["kind"] == "sample":
                if e["k"] != len(e["population"]) or len(set(e["population"])) != len(e["population"]):
                    oracle.append("random tiebreak is not a full permutation (random.sample(S, len(S))) of the tied set")
                elif set(e["population"]) not in keys and not any(set(e["population"]) <= k for k in keys):
                    oracle.append("a random order was drawn for a set that no round records as tied")
                if len(e["population"]) >= 2:
                    nontrivial = True
            else:
                oracle.append(f"unexpected primitive {e['kind']} in a deterministic rule")
    return {"model": model, "oracle": oracle, "tags": tags, "nontrivial": nontrivial}
