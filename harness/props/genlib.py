"""Shared machinery for the generator properties C14 / C16: parameter generation, running a
generator on the implementation under the recorder (numpy/random primitives and the apportionment
call), translating the recorded calls into the model's per-ballot draws, and exact (Fraction)
versions of the intervals."""
from __future__ import annotations
from fractions import Fraction
import itertools, math, warnings
import numpy as np
import common, vk, gen, ref
from common import S, Err, Names, call_impl
from recorder import Recorder, installed

MODELLED = ["name_PL", "short_name_PL", "name_Cumulative", "name_BT", "from_point", "slate_PL", "slate_BT",
            "AlternatingCrossover", "OneDimSpatial", "Spatial", "ClusteredSpatial", "name_BT_MCMC", "slate_BT_MCMC",
            "ImpartialCulture", "ImpartialAnonymousCulture", "CambridgeSampler"]
UNMODELLED = []
SUP = [1.0, 2.0, 0.5, 0.25, 3.0, 4.0, 0.125, 8.0, 0.0]
COH = {1: [[1.0]], 2: [[0.75, 0.25], [0.5, 0.5], [1.0, 0.0], [0.875, 0.125], [0.0, 1.0], [0.25, 0.75]],
       3: [[0.5, 0.25, 0.25], [0.75, 0.125, 0.125], [1.0, 0.0, 0.0], [0.25, 0.5, 0.25]]}
COH[4] = [[0.5, 0.25, 0.125, 0.125], [0.25, 0.25, 0.25, 0.25], [0.625, 0.125, 0.125, 0.125], [0.5, 0.5, 0.0, 0.0]]
PROPS = {4: [[0.25, 0.25, 0.25, 0.25], [0.5, 0.25, 0.125, 0.125]], 1: [[1.0]], 2: [[0.5, 0.5], [0.75, 0.25], [0.125, 0.875], [1.0, 0.0]], 3: [[0.5, 0.25, 0.25], [0.25, 0.25, 0.5], [0.625, 0.25, 0.125]]}
BLOCS = ["W", "C", "X"]
BLOC_NAME_SETS = [["W", "C", "X", "Y"], ["W", "C", "X", "Y"], ["bloc_1", "bloc_2", "bloc_3", "bloc_4"],
                  ["White", "POC", "Other voters", "None of these"], ["b", "a", "ab", "ba"]]


def gen_params(rng, gname):
    nb = rng.choice([1, 2, 2, 3])
    if gname in ("slate_PL", "slate_BT", "AlternatingCrossover", "slate_BT_MCMC", "CambridgeSampler"):
        nb = 2 if gname != "slate_PL" else rng.choice([1, 2, 2, 3, 3, 4, 4])
    universe = list(rng.choice(BLOC_NAME_SETS))
    blocs = universe[:nb]
    sizes = [rng.randint(1, 3) for _ in blocs]
    if gname == "AlternatingCrossover" and rng.random() < 0.7:
        sizes = [sizes[0], sizes[0]]
    if gname in ("name_BT", "name_BT_MCMC", "slate_BT", "slate_BT_MCMC"):
        # the exact samplers enumerate n! rankings: keep the candidate count small
        while sum(sizes) > 5:
            sizes[sizes.index(max(sizes))] -= 1
    slates = {b: [f"{b}{i}" for i in range(k)] for b, k in zip(blocs, sizes)}
    ints = {}
    for b in blocs:
        ints[b] = {}
        for b2 in blocs:
            d = {c: rng.choice(SUP) for c in slates[b2]}
            if all(v == 0 for v in d.values()):
                d[slates[b2][0]] = 1.0
            ints[b][b2] = d
    coh = {b: dict(zip([b] + [x for x in blocs if x != b], rng.choice(COH[nb]))) for b in blocs}
    coh = {b: {b2: coh[b][b2] for b2 in blocs} for b in blocs}
    props = dict(zip(blocs, rng.choice(PROPS[nb])))
    if nb >= 2 and rng.random() < 0.5:
        # the three bloc dictionaries are independent arguments: the same keys may come in different orders
        # (the generators take the bloc order from bloc_voter_prop)
        def shuffled(d):
            ks = list(d)
            rng.shuffle(ks)
            return {k: d[k] for k in ks}
        slates, coh = shuffled(slates), shuffled(coh)
        ints = shuffled({b: shuffled(row) for b, row in ints.items()})
        coh = {b: shuffled(row) for b, row in coh.items()}
        order = list(blocs)
        rng.shuffle(order)
        props = {b: props[b] for b in order}
        blocs = order
    return {"blocs": blocs, "slates": slates, "intervals": ints, "cohesion": coh, "props": props, "bloc_universe": universe}


def gen_case(rng, gname=None):
    gname = gname or rng.choice(MODELLED + UNMODELLED)
    c = {"gen": gname, "N": rng.choice([1, 2, 3, 5, 8, 13, 20]), "seed": rng.randrange(1 << 30)}
    if gname in ("OneDimSpatial", "Spatial", "ClusteredSpatial", "ImpartialCulture", "ImpartialAnonymousCulture", "from_point"):
        k = rng.randint(1, 4)
        c["cands"] = gen.pick_names(rng, k)
        if gname == "from_point":
            vals = [rng.choice([0.5, 0.25, 0.125, 0.125, 0.25]) for _ in range(k)]
            tot = sum(vals)
            # a point must sum to exactly 1.0 in floats: use dyadics
            if tot != 1.0:
                vals = [1.0 / k if (k & (k - 1)) == 0 else None for _ in range(k)]
                if any(v is None for v in vals):
                    vals = [0.5] + [0.5 / (k - 1)] * (k - 1) if k in (3,) else [1.0 / k] * k
            c["point"] = dict(zip(c["cands"], vals))
            if k >= 3 and rng.random() < 0.25:
                # a zero coordinate (the docstring allows values in [0, 1]): dyadic halves on two candidates
                vals = [0.5, 0.5] + [0.0] * (k - 2)
                rng.shuffle(vals)
                c["point"] = dict(zip(c["cands"], vals))
            if rng.random() < 0.4:
                ks = list(c["point"])
                rng.shuffle(ks)
                c["point"] = {x: c["point"][x] for x in ks}
        if gname == "ClusteredSpatial":
            c["per_cand"] = {x: rng.randint(0, 3) for x in c["cands"]}
            if sum(c["per_cand"].values()) == 0:
                c["per_cand"][c["cands"][0]] = 1
        return c
    c.update(gen_params(rng, gname))
    c["by_bloc"] = rng.choice([True, True, True, True, False, "omit"])
    if gname == "short_name_PL":
        ncand = sum(len(v) for v in c["slates"].values())
        c["ballot_length"] = rng.randint(1, ncand)
    if gname == "name_Cumulative":
        c["num_votes"] = rng.randint(1, 4)
    if gname == "CambridgeSampler" and rng.random() < 0.65:
        # a small historical table of our own (passed through the documented `path` argument)
        types = {"W", "C", "WC", "CW"} if rng.random() < 0.3 else {"W", "C"}
        for _ in range(rng.randint(1, 6)):
            types.add("".join(rng.choice("WC") for _ in range(rng.randint(1, 7))))
        c["freqs"] = [[t, rng.choice([1, 1, 2, 3, 5, 10, 40])] for t in sorted(types)]
        rng.shuffle(c["freqs"])
    return c


# ------------------------------------------------------------------ exact intervals
def exact_interval(d):
    ex = {c: Fraction(v) for c, v in d.items()}
    tot = sum(v for v in ex.values() if v > 0)
    return {c: v / tot for c, v in ex.items() if v > 0}, [c for c, v in ex.items() if v == 0]


def exact_combined(case, bloc):
    blocs = case["blocs"]
    parts = [exact_interval(case["intervals"][bloc][b]) for b in blocs]
    props = [Fraction(case["cohesion"][bloc][b]) for b in blocs]
    vals, zero = {}, []
    for (iv, z), p in zip(parts, props):
        zero += z
        for c, v in iv.items():
            if p == 0:
                zero.append(c)
            else:
                vals[c] = v * p
    tot = sum(vals.values())
    return {c: v / tot for c, v in vals.items()}, zero


def pi_val(nm, iv, zero):
    return [S([[nm.id(c), v] for c, v in iv.items()]), S([nm.id(c) for c in zero])]


# ------------------------------------------------------------------ building and running
def build_generator(case):
    common.load_impl()
    from votekit import ballot_generator as bg
    from votekit.pref_interval import PreferenceInterval
    g = case["gen"]
    if g in ("OneDimSpatial",):
        return bg.OneDimSpatial(candidates=list(case["cands"]))
    # explicit integer sizes: the classes' own default kwargs (size=2.0) are rejected by numpy 2.x
    # the classes bind numpy.random.uniform / normal as DEFAULT ARGUMENTS at import time, which the recorder's
    # patch cannot reach: the distributions are passed explicitly as thin wrappers that look the numpy
    # function up when called, so that the recorder's coarse grid applies and equal distances really occur
    uni = lambda *a, **k: np.random.uniform(*a, **k)      # noqa: E731
    def normal(*a, **k):                                  # (ClusteredSpatial accepts a voter distribution by its __name__)
        return np.random.normal(*a, **k)
    nor = normal
    if g == "Spatial":
        kw = {"low": 0.0, "high": 1.0, "size": 2}
        return bg.Spatial(candidates=list(case["cands"]), voter_dist=uni, voter_dist_kwargs=dict(kw),
                          candidate_dist=uni, candidate_dist_kwargs=dict(kw))
    if g == "ClusteredSpatial":
        return bg.ClusteredSpatial(candidates=list(case["cands"]), voter_dist=nor, voter_dist_kwargs={"loc": 0, "scale": 1.0, "size": 2},
                                   candidate_dist=uni, candidate_dist_kwargs={"low": 0.0, "high": 1.0, "size": 2})
    if g == "ImpartialCulture":
        return bg.ImpartialCulture(candidates=list(case["cands"]))
    if g == "ImpartialAnonymousCulture":
        return bg.ImpartialAnonymousCulture(candidates=list(case["cands"]))
    if g == "from_point":
        return bg.BallotSimplex.from_point(point=dict(case["point"]), candidates=list(case["cands"]))
    pib = {b: {b2: PreferenceInterval(dict(d)) for b2, d in row.items()} for b, row in case["intervals"].items()}
    kw = dict(pref_intervals_by_bloc=pib, bloc_voter_prop=dict(case["props"]), cohesion_parameters=case["cohesion"])
    cands = [c for b in case["blocs"] for c in case["slates"][b]]
    with warnings.catch_warnings():
        warnings.simplefilter("ignore")
        if g == "name_PL":
            return bg.name_PlackettLuce(candidates=cands, **kw)
        if g == "short_name_PL":
            return bg.short_name_PlackettLuce(candidates=cands, ballot_length=case["ballot_length"], **kw)
        if g == "name_Cumulative":
            return bg.name_Cumulative(candidates=cands, num_votes=case["num_votes"], **kw)
        if g in ("name_BT", "name_BT_MCMC"):
            return bg.name_BradleyTerry(candidates=cands, **kw)
        if g == "slate_PL":
            return bg.slate_PlackettLuce(slate_to_candidates=case["slates"], **kw)
        if g in ("slate_BT", "slate_BT_MCMC"):
            return bg.slate_BradleyTerry(slate_to_candidates=case["slates"], **kw)
        if g == "AlternatingCrossover":
            return bg.AlternatingCrossover(slate_to_candidates=case["slates"], **kw)
        if g == "CambridgeSampler":
            if case.get("freqs"):
                return bg.CambridgeSampler(slate_to_candidates=case["slates"], path=cambridge_pickle(case["freqs"]), **kw)
            return bg.CambridgeSampler(slate_to_candidates=case["slates"], **kw)
    raise ValueError(g)


def cambridge_pickle(freqs):
    """Write the case's historical table as the pickled dict CambridgeSampler reads; returns the path."""
    import hashlib, json, os, pickle
    from pathlib import Path
    d = os.path.join(common.WORK, "cam")
    os.makedirs(d, exist_ok=True)
    h = hashlib.sha1(json.dumps(freqs).encode()).hexdigest()[:16]
    path = os.path.join(d, h + ".p")
    if not os.path.exists(path):
        tmp = path + f".{os.getpid()}.tmp"
        with open(tmp, "wb") as f:
            pickle.dump({tuple(t): int(n) for t, n in freqs}, f)
        os.replace(tmp, path)
    return Path(path)


class ApportionRecorder:
    def __init__(self):
        self.calls = []

    def install(self):
        import votekit.ballot_generator as bg
        self.mod = bg.apportion
        self.orig = bg.apportion.compute

        def wrapped(method, props, n, *a, **k):
            r = self.orig(method, props, n, *a, **k)
            self.calls.append({"method": method, "props": [float(x) for x in props], "n": n, "result": [int(x) for x in r]})
            return r
        bg.apportion.compute = wrapped

    def remove(self):
        self.mod.compute = self.orig


def run_generator(case):
    """Returns dict(gen, out, by_bloc, log, apportion, extra)."""
    g = call_impl(build_generator, case)
    if isinstance(g, Err):
        return {"gen": g}
    rec = Recorder(case["seed"])
    ap = ApportionRecorder()
    ap.install()
    extra = {}
    try:
        with installed(rec), warnings.catch_warnings():
            warnings.simplefilter("ignore")
            name = case["gen"]
            if name in ("OneDimSpatial", "ImpartialCulture", "ImpartialAnonymousCulture", "from_point"):
                out = call_impl(g.generate_profile, case["N"], limit=60)
                by = None
            elif name == "Spatial":
                r = call_impl(g.generate_profile, case["N"], limit=60)
                out, by = (r, None) if isinstance(r, Err) else (r[0], None)
                if not isinstance(r, Err):
                    extra = {"cand_pos": r[1], "voter_pos": r[2]}
            elif name == "ClusteredSpatial":
                r = call_impl(g.generate_profile_with_dict, dict(case["per_cand"]), limit=60)
                out, by = (r, None) if isinstance(r, Err) else (r[0], None)
                if not isinstance(r, Err):
                    extra = {"cand_pos": r[1], "voter_pos": r[2]}
            else:
                # by_bloc: True -> (profiles by bloc, aggregate); False or left out -> the aggregate only
                bb = case.get("by_bloc", True)
                kw = {} if bb == "omit" else {"by_bloc": bool(bb)}
                if name == "name_BT_MCMC":
                    r = call_impl(g.generate_profile_MCMC, case["N"], limit=60, **kw)
                elif name == "slate_BT_MCMC":
                    r = call_impl(g.generate_profile, case["N"], deterministic=False, limit=60, **kw)
                else:
                    r = call_impl(g.generate_profile, case["N"], limit=60, **kw)
                if isinstance(r, Err) or bb is not True:
                    by, out = None, r
                else:
                    by, out = r
    finally:
        ap.remove()
    return {"gen": g, "out": out, "by_bloc": by, "log": rec.log, "apportion": ap.calls, "extra": extra}


def rnd9(x):
    return Fraction(round(float(x) * 10 ** 9))


def call_val(nm, e, table_keys=None):
    """Recorder np_choice entry -> the model's gcall encoding with probabilities rounded to 1e-9."""
    a, p, size, rep = e["a"], e["p"], e["size"], e["replace"]
    k = size if size is not None else 1
    if isinstance(a, list) and p is not None and rep is False:
        return [1, S([[nm.id(str(c)), rnd9(x)] for c, x in zip(a, p)]), k]
    if isinstance(a, list) and p is None and rep is False:
        return [2, S([nm.id(str(c)) for c in a]), k]
    if isinstance(a, list) and p is not None and rep is True:
        return [3, S([[nm.id(str(c)), rnd9(x)] for c, x in zip(a, p)]), k]
    raise ValueError("unclassified np.random.choice call")


def round_calls(calls):
    """Round the model's exact probabilities the same way."""
    out = []
    for c in calls:
        if c[0] in (1, 3):
            out.append([c[0], S([[x[0], rnd9(x[1])] for x in c[1]]), c[2]])
        elif c[0] in (4, 5, 8):
            out.append([c[0], S([[x[0], rnd9(x[1])] for x in c[1]]), c[2]])
        else:
            out.append(c)
    return out


def snap_calls(model_calls, expected_calls):
    """Both sides carry probabilities rounded to 1e-9 (floats on the implementation side, exact
    rationals on the model side); a value within 1e-13 of a rounding boundary can round differently.
    Where the two rounded values differ by at most one unit the model's is replaced by the
    implementation's, so that the comparison has a genuine tolerance instead of a rounding edge."""
    if len(model_calls) != len(expected_calls):
        return model_calls
    out = []
    for mc, ec in zip(model_calls, expected_calls):
        if isinstance(mc, list) and isinstance(ec, list) and mc and ec and mc[0] == ec[0] and mc[0] in (1, 3, 4, 5, 8) \
                and len(mc) == len(ec) and isinstance(mc[1], list) and isinstance(ec[1], list) and len(mc[1]) == len(ec[1]):
            want = {repr(common.canon(x[0])): x[1] for x in ec[1]}
            ent = []
            for x in mc[1]:
                w = want.get(repr(common.canon(x[0])))
                ent.append([x[0], w] if w is not None and abs(w - x[1]) <= 1 else x)
            out.append([mc[0], S(ent)] + list(mc[2:]))
        else:
            out.append(mc)
    return out


# ------------------------------------------------------------------ model calls per generator
def profile_val_named(nm, p):
    return vk.profile_val(nm, p)


def bloc_ids(case):
    return {b: i + 1 for i, b in enumerate(case.get("bloc_universe", BLOCS))}


def expected_gen(nm, case, run, calls):
    bid = bloc_ids(case)
    if run.get("by_bloc") is None:
        return ["aggregate-only", vk.profile_val(nm, run["out"]), calls]
    by = S([[bid[b], vk.profile_val(nm, p)] for b, p in run["by_bloc"].items()])
    return [by, vk.profile_val(nm, run["out"]), calls]


def model_call(case, run):
    """Translate the recorded run into (op, arg, expect) for the model, or None when the generator
    is not modelled / the run failed before producing a profile."""
    g = case["gen"]
    if isinstance(run.get("gen"), Err) or isinstance(run.get("out"), Err) or g in UNMODELLED:
        return None
    log = run["log"]
    bid = bloc_ids(case)
    if g in ("OneDimSpatial", "Spatial", "ClusteredSpatial"):
        cs = list(case["cands"])
        nm = Names(cs)
        if g == "OneDimSpatial":
            normals = [e for e in log if e["kind"] == "np_normal"]
            cpos = [float(e["result"]) for e in normals[:len(cs)]]
            vpos = [float(x) for x in normals[len(cs)]["result"]] if len(normals) > len(cs) else []
            dists = [[abs(v - vp) for v in cpos] for vp in vpos]
        else:
            from votekit.metrics import euclidean_dist
            cp = run["extra"]["cand_pos"]
            dists = [[euclidean_dist(np.asarray(vp), cp[c]) for c in cs] for vp in run["extra"]["voter_pos"]]
        arg = [[nm.id(c) for c in cs], [[Fraction(float(d)) for d in row] for row in dists]]
        return {"op": 102, "arg": arg, "expect": vk.profile_val(nm, run["out"]),
                "what": f"{g}: ballots = candidates stably sorted by the recorded distances", "names": nm}
    if g in ("ImpartialCulture", "ImpartialAnonymousCulture"):
        cs = list(case["cands"])
        nm = Names(cs)
        perms_ = [list(p) for p in itertools.permutations(cs)]
        e = [x for x in log if x["kind"] == "np_choice"][0]
        res = np.array(e["result"], ndmin=1).tolist()
        draws = [perms_[i] for i in res]
        tbl_exact = [[[nm.id(c) for c in p], Fraction(float(x))] for p, x in zip(perms_, e["p"])]
        tbl = [[[nm.id(c) for c in p], rnd9(x)] for p, x in zip(perms_, e["p"])]
        arg = [[nm.id(c) for c in cs], tbl_exact, case["N"], [[nm.id(c) for c in d] for d in draws]]
        return {"op": 105, "arg": arg, "expect": [vk.profile_val(nm, run["out"]), [[4, S(tbl), case["N"]]]],
                "what": f"{g}: Dirichlet-drawn table over all permutations + ballot_pool_to_profile", "names": nm, "round": True}
    if g == "CambridgeSampler":
        return cambridge_call(case, run)
    if g == "from_point":
        cs = list(case["cands"])
        nm = Names(cs)
        perms_ = [list(p) for p in itertools.permutations(cs)]
        e = [x for x in log if x["kind"] == "np_choice"][0]
        draws = [perms_[i] for i in e["result"]]
        pt = {c: Fraction(v) for c, v in case["point"].items()}
        tbl = [[[nm.id(c) for c in p], rnd9(x)] for p, x in zip(perms_, e["p"])]
        arg = [[nm.id(c) for c in cs], S([[nm.id(c), v] for c, v in pt.items()]), case["N"], [[nm.id(c) for c in d] for d in draws]]
        return {"op": 98, "arg": arg, "expect": [vk.profile_val(nm, run["out"]), [[4, S(tbl), case["N"]]]],
                "what": "BallotSimplex.from_point: table sampler + ballot_pool_to_profile", "names": nm, "round": True}
    blocs = case["blocs"]
    cands = [c for b in blocs for c in case["slates"][b]]
    nm = Names(cands)
    sizes = run["apportion"][0]["result"] if run["apportion"] else None
    choices = [e for e in log if e["kind"] == "np_choice"]
    calls = []
    if g in ("name_PL", "short_name_PL"):
        bl = case.get("ballot_length", len(cands))
        pos, barg = 0, []
        for b, n in zip(blocs, sizes):
            iv, zero = exact_combined(case, b)
            tied = max(0, bl - len(iv))
            draws = []
            for _ in range(n):
                o = [str(x) for x in choices[pos]["result"]]
                calls.append(call_val(nm, choices[pos]))
                pos += 1
                t = []
                if tied:
                    t = [str(x) for x in choices[pos]["result"]]
                    calls.append(call_val(nm, choices[pos]))
                    pos += 1
                draws.append([[nm.id(c) for c in o], [nm.id(c) for c in t]])
            barg.append([bid[b], pi_val(nm, iv, zero), draws])
        return {"op": 95, "arg": [bl, barg], "expect": expected_gen(nm, case, run, calls),
                "what": f"{g}: per-ballot Plackett-Luce draws, per-bloc condense, aggregate", "names": nm, "round": True}
    if g == "name_Cumulative":
        pos, barg = 0, []
        for b, n in zip(blocs, sizes):
            iv, zero = exact_combined(case, b)
            draws = []
            for _ in range(n):
                draws.append([nm.id(str(x)) for x in choices[pos]["result"]])
                calls.append(call_val(nm, choices[pos]))
                pos += 1
            barg.append([bid[b], pi_val(nm, iv, zero), draws])
        return {"op": 96, "arg": [case["num_votes"], barg], "expect": expected_gen(nm, case, run, calls),
                "what": "name_Cumulative: iid draws with replacement counted", "names": nm, "round": True}
    if g == "name_BT":
        barg = []
        for k, (b, n) in enumerate(zip(blocs, sizes)):
            iv, zero = exact_combined(case, b)
            e = choices[k]
            keys = list(run["gen"].pdfs_by_bloc[b].keys())
            res = np.array(e["result"], ndmin=1).tolist()
            draws = [[nm.id(c) for c in keys[i]] for i in res]
            calls.append([4, S([[[nm.id(c) for c in kk], rnd9(x)] for kk, x in zip(keys, e["p"])]), n])
            barg.append([bid[b], pi_val(nm, iv, zero), n, draws])
        return {"op": 97, "arg": barg, "expect": expected_gen(nm, case, run, calls),
                "what": "name_BradleyTerry (exact): table sampler from the C15 table", "names": nm, "round": True}
    if g == "name_BT_MCMC":
        barg, li = [], 0
        seq = list(log)
        for b, n in zip(blocs, sizes):
            iv, zero = exact_combined(case, b)
            seed = [str(c) for c in run["gen"].pref_interval_by_bloc[b].non_zero_cands]
            while seq[li]["kind"] != "choices":
                li += 1
            js = [int(x) for x in seq[li]["result"]]
            li += 1
            us = []
            for _ in range(n):
                us.append(Fraction(seq[li]["exact"]))
                li += 1
            barg.append([bid[b], pi_val(nm, iv, zero), [nm.id(c) for c in seed], [[j, u] for j, u in zip(js, us)]])
        return {"op": 103, "arg": barg, "expect": expected_gen(nm, case, run, []),
                "what": "name_BradleyTerry MCMC: adjacent-swap chain replayed on the recorded proposals and uniforms", "names": nm}
    if g == "slate_BT_MCMC":
        barg, li = [], 0
        seq = list(log)
        allcalls = []
        for k, (b, n) in enumerate(zip(blocs, sizes)):
            ivs = [(b2,) + exact_interval(case["intervals"][b][b2]) for b2 in blocs]
            zero = [c for (_, _, z) in ivs for c in z]
            ivals = [[bid[b2], pi_val(nm, iv, z)] for (b2, iv, z) in ivs]
            seed = [bid[b2] for (b2, iv, z) in ivs for _ in range(len(iv))]
            while not (seq[li]["kind"] == "np_choice" and isinstance(seq[li]["a"], int)):
                li += 1
            js = [int(x) for x in np.array(seq[li]["result"], ndmin=1).tolist()]
            li += 1
            us = []
            for _ in range(n):
                us.append(Fraction(seq[li]["exact"]))
                li += 1
            orders = []
            for _ in range(n):
                o = []
                for b2 in blocs:
                    if len(exact_interval(case["intervals"][b][b2])[0]) == 0:
                        continue
                    e2 = seq[li]
                    li += 1
                    o.append([bid[b2], [nm.id(str(x)) for x in e2["result"]]])
                    allcalls.append(call_val(nm, e2))
                orders.append(o)
            barg.append([bid[b], ivals, bid[b], Fraction(case["cohesion"][b][b]), [nm.id(c) for c in zero], seed,
                         [[j, u] for j, u in zip(js, us)], orders])
        return {"op": 104, "arg": barg, "expect": expected_gen(nm, case, run, allcalls),
                "what": "slate_BradleyTerry MCMC: ballot-type chain replayed + per-slate Plackett-Luce orders", "names": nm, "round": True}
    if g in ("slate_PL", "slate_BT"):
        barg, pos = [], 0
        unif = [e for e in log if e["kind"] == "np_uniform"]
        shuf = [e for e in log if e["kind"] == "shuffle"]
        seq = list(log)
        li = 0
        for k, (b, n) in enumerate(zip(blocs, sizes)):
            ivs = [(b2,) + exact_interval(case["intervals"][b][b2]) for b2 in blocs]
            zero = [c for (_, _, z) in ivs for c in z]
            nz = {b2: [c for c in case["slates"][b2] if c not in zero] for b2 in blocs}
            ivals = [[bid[b2], pi_val(nm, iv, z)] for (b2, iv, z) in ivs]
            szs = [[bid[b2], len(nz[b2])] for b2 in blocs]
            ncand = sum(len(v) for v in nz.values())
            ballots = []
            if g == "slate_PL":
                # one uniform call for the bloc, then per ballot: (shuffle?) interleaved inside the type sampling
                while seq[li]["kind"] != "np_uniform":
                    li += 1
                flips_all = [Fraction(float(x)) for x in seq[li]["result"]]
                li += 1
                calls.append([6, ncand * n])
                shuffles = []
                while li < len(seq) and seq[li]["kind"] == "shuffle":
                    shuffles.append(seq[li])
                    li += 1
                # which ballots shuffled: replay the type sampling in Python to align (uses only the flips)
                sh_iter = iter(shuffles)
                # sample_cohesion_ballot_types walks the bloc's cohesion row in ITS dict order
                coh = [[bid[b2], Fraction(v)] for b2, v in case["cohesion"][b].items()]
                for j in range(n):
                    flips = flips_all[j * ncand:(j + 1) * ncand]
                    need = type_needs_shuffle(flips, [x[0] for x in coh], [x[1] for x in coh], dict((x[0], x[1]) for x in szs))
                    sh = None
                    if need:
                        e = next(sh_iter)
                        sh = [bid[x] for x in e["result"]]
                    orders = []
                    for b2 in blocs:
                        if len(exact_interval(case["intervals"][b][b2])[0]) == 0:
                            continue
                        e = seq[li]
                        li += 1
                        orders.append([bid[b2], [nm.id(str(x)) for x in e["result"]]])
                        calls_tmp = call_val(nm, e)
                        ballots_calls.append(calls_tmp) if False else None
                    ballots.append([flips, sh, orders])
                barg.append([bid[b], ivals, szs, coh, [nm.id(c) for c in zero], ballots])
            else:
                while seq[li]["kind"] != "np_choice":
                    li += 1
                e = seq[li]
                li += 1
                keys = list(run["gen"].ballot_type_pdf[b].keys())
                types = [keys[i] for i in np.array(e["result"], ndmin=1).tolist()]
                for t in types:
                    orders = []
                    for b2 in blocs:
                        if len(exact_interval(case["intervals"][b][b2])[0]) == 0:
                            continue
                        e2 = seq[li]
                        li += 1
                        orders.append([bid[b2], [nm.id(str(x)) for x in e2["result"]]])
                    ballots.append([[bid[x] for x in t], orders])
                opp = blocs[(k + 1) % 2]
                barg.append([bid[b], ivals, szs, bid[b], bid[opp], Fraction(case["cohesion"][b][b]), [nm.id(c) for c in zero], ballots])
        # expected calls are rebuilt from the log in order
        calls = log_calls(nm, case, run, bid)
        return {"op": 99 if g == "slate_PL" else 100, "arg": barg, "expect": expected_gen(nm, case, run, calls),
                "what": f"{g}: ballot types + per-slate Plackett-Luce orders", "names": nm, "round": True}
    if g == "AlternatingCrossover":
        barg, pos = [], 0
        ap = run["apportion"][0]["result"]
        for i, b in enumerate(blocs):
            n_bloc, n_cross = ap[2 * i], ap[2 * i + 1]
            opp = blocs[(i + 1) % 2]
            ivb, _ = exact_interval(case["intervals"][b][b])
            ivo, _ = exact_interval(case["intervals"][b][opp])
            draws = []
            for _ in range(n_bloc + n_cross):
                bo = [nm.id(str(x)) for x in choices[pos]["result"]]
                oo = [nm.id(str(x)) for x in choices[pos + 1]["result"]]
                calls.append(call_val(nm, choices[pos]))
                calls.append(call_val(nm, choices[pos + 1]))
                pos += 2
                draws.append([bo, oo])
            barg.append([bid[b], n_cross, [nm.id(c) for c in ivb], [nm.id(c) for c in ivo], list(ivb.values()), list(ivo.values()), draws])
        return {"op": 101, "arg": barg, "expect": expected_gen(nm, case, run, calls),
                "what": "AlternatingCrossover: two Plackett-Luce draws per ballot (populations as coded), crossover/bloc-first assembly",
                "names": nm, "round": True}
    return None


HIST = {"W": 1, "C": 2}
REST = 3          # marker label of the synthetic "all other types" entry of a compressed table


def cambridge_call(case, run):
    """CambridgeSampler: historical types from the two recorded random.choices calls per bloc, one
    recorded Plackett-Luce order per ballot.  With the packaged Cambridge data (8559 types) the table
    handed to the model is compressed: the types actually drawn are kept, all others with the same
    first label are merged into one synthetic type [label, REST]; the recorded populations are
    compressed the same way before comparison."""
    g = run["gen"]
    blocs = list(g.blocs)
    cands = [c for b in case["blocs"] for c in case["slates"][b]]
    nm = Names(cands)
    bid = bloc_ids(case)
    log = list(run["log"])
    ap = run["apportion"][0]["result"]
    import pickle
    with open(g.path, "rb") as f:
        table = pickle.load(f)
    drawn = set()
    for e in log:
        if e["kind"] == "choices":
            drawn.update(tuple(t) for t in e["result"])
    compress = len(table) > 60

    def tkey(t):
        if compress and tuple(t) not in drawn:
            return (HIST[t[0]], REST)
        return tuple(HIST[x] for x in t)
    freqs = {}
    for t, n in table.items():
        freqs[tkey(t)] = freqs.get(tkey(t), 0) + int(n)
    farg = [[list(k), Fraction(v)] for k, v in freqs.items()]
    barg, calls, li = [], [], 0
    for i, b in enumerate(blocs):
        opp = blocs[(i + 1) % 2]
        nb, nc = ap[2 * i], ap[2 * i + 1]
        coh = Fraction(case["cohesion"][b][b])
        parts = [exact_interval(dict(d)) for d in case["intervals"][b].values()]
        vals, zero = {}, []
        for (iv, z), pr in zip(parts, [coh, 1 - coh]):
            zero += z
            for c, v in iv.items():
                if pr == 0:
                    zero.append(c)
                else:
                    vals[c] = v * pr
        tot = sum(vals.values())
        iv = {c: v / tot for c, v in vals.items()}
        draws = []
        types = []
        for _ in range(2):
            e = log[li]
            li += 1
            assert e["kind"] == "choices", e["kind"]
            types += [tuple(t) for t in e["result"]]
            w = {}
            for t, x in zip(e["population"], e["weights"]):
                w[tkey(t)] = w.get(tkey(t), 0.0) + float(x)
            calls.append([8, S([[list(k), rnd9(x)] for k, x in w.items()]), e["k"]])
        for t in types:
            e = log[li]
            li += 1
            assert e["kind"] == "np_choice", e["kind"]
            calls.append(call_val(nm, e))
            draws.append([[HIST[x] for x in t], [nm.id(str(c)) for c in e["result"]]])
        h_own, h_opp = HIST[g.bloc_to_historical[b]], HIST[g.bloc_to_historical[opp]]
        barg.append([bid[b], pi_val(nm, iv, zero), h_own, h_opp, [nm.id(c) for c in case["slates"][b]],
                     [nm.id(c) for c in case["slates"][opp]], nb, nc, draws])
    # the model lists the calls bloc by bloc in the same order
    return {"op": 106, "arg": [farg, barg], "expect": expected_gen(nm, case, run, calls),
            "what": "CambridgeSampler: historical types (random.choices) filled with a Plackett-Luce order of the combined interval",
            "names": nm, "round": True}


ballots_calls = []


def type_needs_shuffle(flips, blocs, values, sizes):
    """Replays sample_cohesion_ballot_types' control flow for one ballot to learn whether the
    'remaining blocs have zero cohesion' shuffle happens (it depends on the flips only)."""
    blocs, values = list(blocs), list(values)
    bal = []
    for flip in flips:
        bins = [Fraction(0)]
        for v in values:
            bins.append(bins[-1] + v)
        idx = None
        for i in range(len(values)):
            if bins[i] < flip <= bins[i + 1]:
                idx = i
                break
        if idx is None:
            return False
        b = blocs[idx]
        bal.append(b)
        if bal.count(b) == sizes[b]:
            del blocs[idx]
            del values[idx]
            tot = sum(values)
            if tot == 0 and len(values) > 0:
                return True
            if values:
                values = [v / tot for v in values]
    return False


def log_calls(nm, case, run, bid):
    """The recorded primitive calls in order, in the model's gcall encoding."""
    out = []
    g = case["gen"]
    n_type_calls = 0
    for e in run["log"]:
        k = e["kind"]
        if k == "np_uniform":
            out.append([6, int(e["size"])])
        elif k == "shuffle":
            out.append([7, S([bid[x] for x in e["before"]])])
        elif k == "np_choice":
            if isinstance(e["a"], int):
                # table of ballot types
                # one ballot-type draw per bloc, in the generator's bloc order (two blocs can have tables of the
                # same length and probabilities, so the table is identified by position, not by its numbers)
                blocs_in_order = list(run["gen"].blocs)
                owner = blocs_in_order[n_type_calls % len(blocs_in_order)]
                n_type_calls += 1
                keys = list(run["gen"].ballot_type_pdf[owner].keys())
                n = e["size"]
                out.append([5, S([[[bid[x] for x in kk], rnd9(p)] for kk, p in zip(keys, e["p"])]), n])
            else:
                out.append(call_val(nm, e))
    return out
