"""C10 — randomness is used only to break genuine ties, and every tiebreak is recorded."""
from __future__ import annotations
from fractions import Fraction
import common, vk, gen, ref, rules, ruleslib, stvlib
from common import S, Err, Names, call_impl
from recorder import Recorder, installed, Poisoned

RULE = ("every deterministic rule (STV/IRV/SequentialRCV with fractional transfer, Plurality, SNTV, Borda, TopTwo, "
        "Alaska, DominatingSets, CondoBorda, Rating family) x tiebreak in {None, random, borda, first_place} on "
        "profiles engineered to have ties at the seat boundary, at the elimination end, and none; each case is run "
        "under the recorder, and, when no tiebreak is recorded, again with POISONED primitives (any call raises) and "
        "under two further seeds. Non-trivial = a tiebreak is recorded or the poisoned re-run was exercised on a "
        "multi-round election; distinct by canonical JSON")
TRUSTED = ["random.sample(list(S), len(S)) returns a uniformly random permutation of S (law of the primitive)"]
model_post = ruleslib.model_post
DET = [r for r in ruleslib.RANK_RULES + ruleslib.SCORE_RULES
       if r not in ("RandomDictator", "BoostedRandomDictator", "PluralityVeto")]


def known_finding(case, kind, detail):
    d = str(detail)
    if case["rule"] == "Alaska" and "Err(EKey)" in d:
        return "alaska-replay-redraw"
    if "Err(EIndex)" in d and (case["cfg"].get("quota") == "hare" or case["rule"] == "SequentialRCV" or case["rule"] == "Alaska"):
        return "stv-over-election"
    if "Err(EZeroDiv)" in d and case["cfg"].get("quota") == "hare":
        return "hare-zero-quota"
    return None


def gen_cases(rng, tier):
    n = 700 if tier == "quick" else 9000
    cases = ruleslib.gen_rule_cases(rng, n, rule_pool=DET)
    out = []
    for c in cases:
        if c["cfg"].get("transfer") == "random":
            c["cfg"]["transfer"] = "fractional"
        if c["rule"] in ruleslib.SCORE_RULES and str(c.get("family", "")).startswith("scores:") and c["family"] != "scores:None":
            continue
        out.append(c)
    return out


def flat(groups):
    return [c for g in groups for c in g]


def check_tiebreaks(case, el, jp):
    """Every recorded tiebreak: genuine tie on the previous round's tallies, strict order of exactly
    that set, obeyed by the round's groups; scored tiebreaks sorted by their score."""
    fails = []
    sts = el.election_states
    rule = case["rule"]
    for r in range(1, len(sts)):
        st, prev = sts[r], sts[r - 1]
        for key, res in st.tiebreaks.items():
            key = set(key)
            order = flat(res)
            if len(key) < 2:
                fails.append(f"round {r}: tiebreak recorded for a set of size {len(key)}")
            if any(len(g) != 1 for g in res) or set(order) != key or len(order) != len(key):
                fails.append(f"round {r}: resolution is not a strict order of exactly the tied set")
                continue
            # genuinely tied on the deciding tally of the previous round
            if rule == "CondoBorda":
                # the deciding "tally" is the dominating tier
                from votekit.graphs import PairwiseComparisonGraph
                tiers = [set(t) for t in PairwiseComparisonGraph(vk.mk_profile(jp)).dominating_tiers()]
                if key not in tiers:
                    fails.append(f"round {r}: tiebreak among candidates that are not one dominating tier")
            elif prev.scores and all(c in prev.scores for c in key):
                if len({prev.scores[c] for c in key}) != 1:
                    fails.append(f"round {r}: tiebreak among candidates with different tallies")
            # the round's groups obey the recorded order
            real_el = [g for g in st.elected if len(g)]
            if rule in ("TopTwo", "Alaska") and r == 1:
                win, lose = flat(st.remaining), flat(st.eliminated)
            elif rule in ("STV", "IRV", "SequentialRCV", "Alaska") and not real_el:
                elim = flat(st.eliminated)
                if not elim or order[-1] != elim[0]:
                    fails.append(f"round {r}: the eliminated candidate is not the last of the recorded order")
                continue
            else:
                win, lose = flat(st.elected), flat(st.remaining)
                if rule in ("STV", "IRV", "SequentialRCV", "Alaska"):
                    lose = []      # after an STV election round the remaining candidates are re-ranked by their new tallies
            kw = [c for c in win if c in key]
            kl = [c for c in lose if c in key]
            if kw != order[:len(kw)] or (kl and kl != order[len(kw):len(kw) + len(kl)]):
                fails.append(f"round {r}: elected/remaining groups do not obey the recorded tiebreak order")
    return fails


def scored_order_ok(case, el, jp):
    tb = case["cfg"].get("tiebreak")
    fails = []
    if tb not in ("borda", "first_place") or case["rule"] not in ("Plurality", "SNTV", "Borda"):
        return fails
    cs = ref.jp_candidates(jp)
    vec = list(range(len(cs), 0, -1)) if tb == "borda" else [1] + [0] * len(cs)
    sc = ref.positional_scores(dict(jp, cands=cs), vec)
    for key, res in el.election_states[1].tiebreaks.items():
        order = flat(res)
        if any(sc[order[i]] < sc[order[i + 1]] for i in range(len(order) - 1)):
            fails.append(f"'{tb}' tiebreak not ordered by that score")
    return fails


def run_case(case):
    common.load_impl()
    info, mc = ruleslib.run_rule_case(case)
    el, prof, rec = info["election"], info["profile"], info["rec"]
    tags = stvlib.tags_for(case, el)
    oracle = []
    nontrivial = False
    if isinstance(prof, Err):
        return {"model": [], "oracle": [], "tags": tags + ["profile-rejected"], "nontrivial": False}
    if isinstance(el, Err):
        if el not in (Err("EValue"), Err("EType")):
            oracle.append(f"run raised {el}")
    else:
        recorded = any(s.tiebreaks for s in el.election_states)
        if recorded:
            nontrivial = True
            oracle += check_tiebreaks(case, el, case["profile"])
            oracle += scored_order_ok(case, el, case["profile"])
        else:
            if rec.log:
                oracle.append(f"{len(rec.log)} random call(s) made although no round records a tiebreak")
            nm = info["nm"]
            base = common.canon(vk.states_val(nm, el.election_states))
            with installed(Recorder(0, poison=True)):
                el2 = call_impl(rules.build_election, case, prof)
            if isinstance(el2, Err):
                oracle.append(f"outcome depends on the random stream: poisoned re-run raised {el2}")
            elif common.canon(vk.states_val(nm, el2.election_states)) != base:
                oracle.append("outcome differs under poisoned random primitives")
            for seed in (case.get("seed", 0) + 1, 12345):
                with installed(Recorder(seed)):
                    el3 = call_impl(rules.build_election, case, prof)
                if isinstance(el3, Err) or common.canon(vk.states_val(nm, el3.election_states)) != base:
                    oracle.append("outcome differs under another seed although no tiebreak is recorded")
                    break
            tags.append("poison-rerun")
            nontrivial = len(el.election_states) > 2
    return {"model": [mc] if mc else [], "oracle": oracle, "tags": tags, "nontrivial": nontrivial}
