"""C06 — pairwise comparison, dominating tiers and Condorcet consistency."""
from __future__ import annotations
from fractions import Fraction
import itertools
import common, vk, gen, ref, rules, ruleslib
from common import S, Err, Names, call_impl

RULE = ("profiles of untied ranked ballots (partial ballots, rational weights, zero-vote candidates), <= 6 "
        "candidates (the implementation enumerates k! completions), with engineered pairwise ties, Condorcet "
        "cycles of length 3-5 and nested cycles below the top tier; PairwiseComparisonGraph, DominatingSets, "
        "CondoBorda. Non-trivial = a pairwise tie or a cycle or a partial ballot is present; distinct by canonical JSON")
model_post = ruleslib.model_post


def cyc_profile(rng):
    """Condorcet cycle among the first k candidates, the rest below (possibly a second, nested cycle)."""
    n = rng.choice([3, 4, 5, 6])
    names = gen.pick_names(rng, n)
    k = rng.randint(3, n)
    top, low = names[:k], names[k:]
    bs = []
    for i in range(k):
        rot = top[i:] + top[:i]
        tail = list(low)
        if len(low) >= 3 and rng.random() < 0.6:
            j = i % len(low)
            tail = low[j:] + low[:j]
        elif rng.random() < 0.5:
            rng.shuffle(tail)
        cut = rng.randint(0, len(tail))
        bs.append({"r": [[c] for c in rot + tail[:cut]], "w": rng.choice(["1", "1", "2", "3/2"])})
    if rng.random() < 0.4:
        bs.append({"r": [[c] for c in rng.sample(names, rng.randint(1, n))], "w": rng.choice(["1", "1/2"])})
    cands = list(names)
    rng.shuffle(cands)
    return {"ballots": bs, "cands": cands}, names


def tie_profile(rng):
    n = rng.choice([2, 3, 4])
    names = gen.pick_names(rng, n)
    a, b = names[0], names[1]
    rest = names[2:]
    bs = [{"r": [[a], [b]] + [[c] for c in rest], "w": "2"}, {"r": [[b], [a]] + [[c] for c in rest], "w": "2"}]
    if rng.random() < 0.5:
        bs.append({"r": [[c] for c in rest] or [[a]], "w": "1"})
    return {"ballots": bs, "cands": list(names)}, names


def gen_cases(rng, tier):
    n = 400 if tier == "quick" else 5000
    big = 0.04 if tier == "quick" else 0.15      # share of 6-candidate profiles (6! completions each)
    cases = []
    while len(cases) < n:
        r = rng.random()
        if r < 0.3:
            jp, names = cyc_profile(rng)
            fam = "cycle"
        elif r < 0.4:
            jp, names = tie_profile(rng)
            fam = "tie"
        else:
            jp, names = gen.ranked_profile(rng, n_cands=rng.choice([2, 3, 3, 4, 4, 5, 6]), ties=False)
            fam = "random"
        if len(ref.jp_candidates(jp)) >= 6 and rng.random() > big:
            continue
        kind = rng.choice(["graph", "graph", "DominatingSets", "CondoBorda"])
        c = {"kind": kind, "profile": jp, "family": fam, "seed": rng.randrange(1 << 30)}
        if kind == "CondoBorda":
            c.update(rule="CondoBorda", cfg={"m": rng.randint(1, len(ref.jp_candidates(jp)))})
        if kind == "DominatingSets":
            c.update(rule="DominatingSets", cfg={})
        cases.append(c)
    return cases


def pref_weights(jp):
    """(a, b) -> weight ranking a above b: listed beats unlisted, two unlisted split evenly."""
    cs = ref.jp_candidates(jp)
    w = {(a, b): Fraction(0) for a in cs for b in cs if a != b}
    for bal in jp["ballots"]:
        order = [g[0] for g in bal["r"]]
        pos = {c: i for i, c in enumerate(order)}
        wt = Fraction(bal["w"])
        for a, b in w:
            if a in pos and (b not in pos or pos[a] < pos[b]):
                w[(a, b)] += wt
            elif a not in pos and b not in pos:
                w[(a, b)] += wt / 2
    return cs, w


def check_tiers(cs, w, tiers, what="tiers"):
    fails = []
    flat = [c for t in tiers for c in t]
    if sorted(map(str, flat)) != sorted(map(str, cs)) or any(len(t) == 0 for t in tiers):
        return [f"{what}: do not partition the candidates"]

    def beats(a, b):
        return w[(a, b)] > w[(b, a)]
    for i, t in enumerate(tiers):
        for u in tiers[i + 1:]:
            if not all(beats(a, b) for a in t for b in u):
                fails.append(f"{what}: a member of a tier does not beat a member of a lower tier")
                return fails
        t = list(t)
        for k in range(1, len(t)):
            for sub in itertools.combinations(t, k):
                rest = [c for c in t if c not in sub]
                if all(beats(a, b) for a in sub for b in rest):
                    fails.append(f"{what}: tier {sorted(map(str, t))} can be split")
                    return fails
    return fails


def run_case(case):
    common.load_impl()
    from votekit.graphs import PairwiseComparisonGraph
    jp = case["profile"]
    nm = Names(rules.all_names(jp))
    prof = vk.mk_profile(jp)
    cs, w = pref_weights(jp)
    tags = ["kind:" + case["kind"], "family:" + case["family"], f"ncands:{len(cs)}"]
    has_tie = any(w[(a, b)] == w[(b, a)] for a, b in w)
    partial = any(len(b["r"]) < len(cs) for b in jp["ballots"])
    tags += ["pairwise-tie"] if has_tie else []
    oracle, model = [], []
    if case["kind"] == "graph":
        g = call_impl(PairwiseComparisonGraph, prof)
        if isinstance(g, Err):
            expect = g
            oracle.append(f"PairwiseComparisonGraph raised {g}")
        else:
            tiers = call_impl(g.dominating_tiers)
            expect = [S([nm.id(c) for c in g.candidates]),
                      S([[nm.id(a), nm.id(b), Fraction(v)] for (a, b), v in g.pairwise_dict.items()]),
                      [S([nm.id(c) for c in t]) for t in tiers]]
            d = g.pairwise_dict
            for a, b in itertools.combinations(cs, 2):
                m = w[(a, b)] - w[(b, a)]
                if m > 0 and not (d.get((a, b)) == m and (b, a) not in d):
                    oracle.append(f"margin of ({a},{b}) recorded wrongly")
                elif m < 0 and not (d.get((b, a)) == -m and (a, b) not in d):
                    oracle.append(f"margin of ({b},{a}) recorded wrongly")
                elif m == 0 and not (d.get((a, b)) == 0 and d.get((b, a)) == 0):
                    oracle.append(f"tie between {a} and {b} not recorded as 0 both ways")
            oracle += check_tiers(cs, w, tiers)
            # the optional ballot_length argument only decides which ballots are completed; the head-to-head
            # margins ("listed beats unlisted, unlisted split evenly") do not depend on it
            cast = {c for b in jp["ballots"] for gp in b["r"] for c in gp}
            for k in sorted({1, max(1, len(cs) - 1), len(cs) + 1}):
                gk = call_impl(PairwiseComparisonGraph, prof, ballot_length=k)
                if isinstance(gk, Err):
                    oracle.append(f"PairwiseComparisonGraph(ballot_length={k}) raised {gk}")
                    break
                dk = gk.pairwise_dict
                bad = [(a, b) for a, b in itertools.permutations(sorted(cast), 2)
                       if (d.get((a, b)) is not None or d.get((b, a)) is not None) and d.get((a, b)) != dk.get((a, b))]
                if bad:
                    oracle.append(f"margin of {bad[0]} changes with ballot_length={k}")
                    break
            tags.append("ballot_length-variants")
            cw = [c for c in cs if all(w[(c, o)] > w[(o, c)] for o in cs if o != c)]
            hcw = call_impl(g.has_condorcet_winner)
            if hcw != bool(cw):
                oracle.append(f"has_condorcet_winner={hcw} but Condorcet winners={cw}")
            if cw and (len(tiers[0]) != 1 or next(iter(tiers[0])) != cw[0]):
                oracle.append("top tier is not the Condorcet winner")
            if len(tiers) > 1 or len(tiers[0]) > 1:
                tags.append(f"tiers:{len(tiers)}")
        model.append({"op": 30, "arg": vk.jp_val(nm, jp, cands=list(prof.candidates)), "expect": expect,
                      "what": "pairwise_dict + dominating_tiers"})
        return {"model": model, "oracle": oracle, "tags": tags, "nontrivial": has_tie or partial or case["family"] == "cycle"}
    info, mc = ruleslib.run_rule_case(case)
    el = info["election"]
    if mc:
        model.append(mc)
    g = call_impl(PairwiseComparisonGraph, prof)
    tiers = [set(t) for t in g.dominating_tiers()] if not isinstance(g, Err) else None
    if isinstance(el, Err):
        tags.append("outcome:" + repr(el))
        oracle.append(f"{case['kind']} raised {el}")
    elif tiers is not None:
        st = el.election_states[1]
        elected = [set(gp) for gp in st.elected]
        if case["kind"] == "DominatingSets":
            if elected != [tiers[0]]:
                oracle.append("DominatingSets did not elect exactly the top tier")
            oracle += check_tiers(cs, w, [tiers[0]] + [set(x) for x in st.remaining], "DominatingSets tiers")
        else:
            m = case["cfg"]["m"]
            flat = [c for gp in st.elected for c in gp]
            if len(flat) != m:
                oracle.append(f"CondoBorda elected {len(flat)} instead of {m}")
            taken, i = 0, 0
            while i < len(tiers) and taken + len(tiers[i]) <= m:
                taken += len(tiers[i])
                i += 1
            whole = set().union(*tiers[:i]) if i else set()
            if not whole <= set(flat):
                oracle.append("CondoBorda did not take whole tiers in order")
            if taken < m and i < len(tiers):
                cut = [c for c in flat if c not in whole]
                borda = ref.positional_scores(jp, list(range(len(cs), 0, -1)))
                rest = [c for c in tiers[i] if c not in cut]
                if not set(cut) <= tiers[i]:
                    oracle.append("CondoBorda took candidates from beyond the straddling tier")
                elif cut and rest and min(borda[c] for c in cut) < max(borda[c] for c in rest):
                    oracle.append("CondoBorda did not choose within the straddling tier by higher Borda score")
                tags.append("straddle")
    return {"model": model, "oracle": oracle, "tags": tags, "nontrivial": has_tie or partial or case["family"] == "cycle"}
