"""harness/rules.py — run an election on the implementation under the recorder and build the
matching model call.  An election case is
  {"rule": "STV", "cfg": {...}, "profile": <json profile>, "seed": int}
"""
from __future__ import annotations
from fractions import Fraction
import common
from common import S, Err, Names, call_impl
import vk
from recorder import Recorder, installed

QUOTA = {"droop": 1, "hare": 2}
TRANSFER = {"fractional": 1, "random": 2, "full": 3}

OP_STV = 20
OP_ONESHOT = 21
OP_COMPOSITE = 22
OP_RANDOMRULE = 23
OP_PV = 24


def all_names(jp):
    seen = []
    for c in (jp.get("cands") or []):
        if c not in seen:
            seen.append(c)
    for b in jp["ballots"]:
        for g in (b.get("r") or []):
            for c in g:
                if c not in seen:
                    seen.append(c)
        for c in (b.get("s") or {}):
            if c not in seen:
                seen.append(c)
    return seen


DOC_DEFAULTS = {"m": 1, "quota": "droop", "simultaneous": True, "tiebreak": None, "L": 1, "m_1": 2, "m_2": 1}


def election_call(case):
    """(class name, keyword arguments) for the case; every argument spelled out."""
    from votekit.elections import fractional_transfer, random_transfer
    rule, cfg = case["rule"], case.get("cfg", {})
    tb = cfg.get("tiebreak")
    if rule in ("STV", "SequentialRCV", "IRV", "Alaska"):
        kw = {}
        if "quota" in cfg:
            kw["quota"] = cfg["quota"]
        if tb is not None:
            kw["tiebreak"] = tb
        if rule == "IRV":
            return "IRV", kw
        if "simultaneous" in cfg:
            kw["simultaneous"] = cfg["simultaneous"]
        if rule == "SequentialRCV":
            return "SequentialRCV", dict(kw, m=cfg["m"])
        if cfg.get("transfer") == "random":
            kw["transfer"] = random_transfer
        elif cfg.get("transfer") == "fractional_explicit":
            kw["transfer"] = fractional_transfer
        if rule == "Alaska":
            return "Alaska", dict(kw, m_1=cfg["m_1"], m_2=cfg["m_2"])
        return "STV", dict(kw, m=cfg["m"])
    if rule in ("Plurality", "SNTV"):
        return rule, {"m": cfg["m"], "tiebreak": tb}
    if rule == "Borda":
        kw = {"m": cfg["m"], "tiebreak": tb}
        if cfg.get("score_vector") is not None:
            kw["score_vector"] = [common.frac(x) for x in cfg["score_vector"]]
        return "Borda", kw
    if rule == "TopTwo":
        return "TopTwo", {"tiebreak": tb}
    if rule == "DominatingSets":
        return "DominatingSets", {}
    if rule == "CondoBorda":
        return "CondoBorda", {"m": cfg["m"]}
    if rule in ("RandomDictator", "BoostedRandomDictator"):
        return rule, {"m": cfg["m"]}
    if rule == "PluralityVeto":
        return "PluralityVeto", {"m": cfg["m"], "tiebreak": tb}
    if rule == "GeneralRating":
        kw = {"m": cfg["m"], "tiebreak": tb}
        if "L" in cfg:
            kw["L"] = common.frac(cfg["L"])
        if cfg.get("k") is not None:
            kw["k"] = common.frac(cfg["k"])
        return "GeneralRating", kw
    if rule == "Rating":
        return "Rating", {"m": cfg["m"], "L": common.frac(cfg.get("L", 1)), "tiebreak": tb}
    if rule == "Limited":
        return "Limited", {"m": cfg["m"], "k": common.frac(cfg.get("k", 1)), "tiebreak": tb}
    if rule == "Cumulative":
        return "Cumulative", {"m": cfg["m"], "tiebreak": tb}
    if rule == "Approval":
        return "Approval", {"m": cfg["m"], "tiebreak": tb}
    if rule == "BlocPlurality":
        kw = {"m": cfg["m"], "tiebreak": tb}
        if cfg.get("k") is not None:
            kw["k"] = cfg["k"]
        return "BlocPlurality", kw
    raise ValueError("unknown rule " + rule)


def call_style(case):
    """How the constructor is called, derived from the case's seed so that every property sees the same
    style for the same case: 0 every argument by keyword, 1 arguments equal to the DOCUMENTED default
    left out, 2 the seat count(s) passed positionally, 3 both."""
    return case.get("call_style", (case.get("seed", 0) // 7) % 4)


def build_election(case, profile):
    """Construct the election object (runs it)."""
    from votekit import elections as E
    name, kw = election_call(case)
    style = call_style(case)
    args = [profile]
    if style in (1, 3):
        keep_m = name in ("RandomDictator", "BoostedRandomDictator", "PluralityVeto")    # m has no default there
        kept = dict(kw)
        kw = {k: v for k, v in kept.items()
              if not (k in DOC_DEFAULTS and type(v) is type(DOC_DEFAULTS[k]) and v == DOC_DEFAULTS[k])
              and not (k == "tiebreak" and v is None) and not (k == "L" and v == 1)}
        if keep_m and "m" in kept:
            kw["m"] = kept["m"]
    if style in (2, 3):
        if name == "Alaska" and "m_1" in kw and "m_2" in kw:
            args += [kw.pop("m_1"), kw.pop("m_2")]
        elif "m" in kw and name not in ("IRV", "TopTwo", "DominatingSets"):
            args.append(kw.pop("m"))
    return getattr(E, name)(*args, **kw)


def script_from_log(nm: Names, log, order=None):
    """Recorder log -> (script of draws, expected log of calls) as model values."""
    load = common.load_impl
    load()
    from votekit import Ballot
    script, calls = [], []
    log = reorder_transfer_draws(nm, log, order)
    for e in log:
        try:
            _one_entry(nm, e, script, calls, Ballot)
        except Exception:            # an unexpected call shape: the model will refuse it (EScript)
            script.append([99, []])
            calls.append([99])
    return script, calls


def _one_entry(nm, e, script, calls, Ballot):
    if True:
        k = e["kind"]
        if k == "sample":
            pop = e["population"]
            if (pop and all(isinstance(x, Ballot) for x in pop)) or (not pop and "transfer" in e.get("caller", "")):
                script.append([3, [vk.ranking_val(nm, b.ranking) for b in e["result"]]])
                calls.append([3, norm_pop(S([[vk.ranking_val(nm, b.ranking), Fraction(b.weight)] for b in pop])), e["k"]])
            else:
                script.append([1, [nm.id(c) for c in e["result"]]])
                calls.append([1, S([nm.id(c) for c in pop])])
        elif k == "choices":
            pop = e["population"]
            b = e["result"][0]
            script.append([2, vk.ranking_val(nm, b.ranking)])
            ws = e["weights"] if e["weights"] is not None else [1] * len(pop)
            calls.append([2, norm_pop(S([[vk.ranking_val(nm, x.ranking), Fraction(w)] for x, w in zip(pop, ws)]))])
        elif k == "uniform":
            script.append([4, Fraction(e["exact"])])
            calls.append([4])
        elif k == "np_choice":
            script.append([5, nm.id(str(e["result"]))])
            calls.append([5, S([[nm.id(str(c)), p] for c, p in zip(e["a"], e["p"])])])
        elif k == "np_shuffle":
            script.append([6, [int(i) for i in e["result"]]])
            calls.append([6, len(e["result"])])
        else:
            script.append([99, []])
            calls.append([99])
    return None


def reorder_transfer_draws(nm, log, order=None):
    """Within one simultaneous-election round the surplus samples of the winners are independent;
    the implementation draws them in frozenset iteration order, the model in candidate-list order.
    Sort each maximal run of transfer samples of the same round by the winner's id."""
    out, i = [], 0
    while i < len(log):
        e = log[i]
        if e["kind"] == "sample" and e.get("round") is not None and e.get("winner") is not None \
                and "transfer" in e.get("caller", ""):
            j = i
            while j < len(log) and log[j]["kind"] == "sample" and log[j].get("round") == e["round"] \
                    and log[j].get("winner") is not None and "transfer" in log[j].get("caller", ""):
                j += 1
            pos = {str(c): k for k, c in enumerate(order or [])}
            # groups are visited in descending tally order by both sides; only the order inside a
            # group of equal tally differs
            out += sorted(log[i:j], key=lambda x: (-Fraction(x.get("fpv") or 0),
                                                   pos.get(str(x["winner"]), nm.id(x["winner"]))))
            i = j
        else:
            out.append(e)
            i += 1
    return out


def norm_pop(pop):
    """Merge equal rankings of a (ranking, weight) population, drop zero weights."""
    acc = {}
    for r, w in pop:
        k = common.canon(r)
        if k in acc:
            acc[k][1] += Fraction(w)
        else:
            acc[k] = [r, Fraction(w)]
    return S([v for v in acc.values() if v[1] != 0])


def norm_calls(calls, float_p=False):
    """Normalise a log of calls printed by the model (same merging as norm_pop)."""
    out = []
    for c in calls:
        if c[0] in (2, 3):
            c = [c[0], norm_pop(c[1])] + list(c[2:])
        out.append(c)
    return out


def stv_cfg_val(rule, cfg):
    m = 1 if rule == "IRV" else cfg.get("m", 1)
    tr = {"STV": TRANSFER.get({"fractional_explicit": "fractional"}.get(cfg.get("transfer"), cfg.get("transfer", "fractional")), 1),
          "IRV": 1, "SequentialRCV": 3}.get(rule, 1)
    sim = True if rule == "IRV" else cfg.get("simultaneous", True)
    return [m, QUOTA.get(cfg.get("quota", "droop"), 9), sim, tr, vk.tb_val(cfg.get("tiebreak"))]


def run_election(case):
    """Returns dict(election or Err, profile or Err, names, recorder)."""
    nm = Names(all_names(case["profile"]))
    rec = Recorder(case.get("seed", 0))
    prof = call_impl(vk.mk_profile, case["profile"])
    if isinstance(prof, Err):
        return dict(nm=nm, rec=rec, profile=prof, election=prof)
    with installed(rec):
        el = call_impl(build_election, case, prof)
    return dict(nm=nm, rec=rec, profile=prof, election=el)
