"""harness/common.py — shared machinery of the correspondence checks.

* loads the implementation from /repo/src (asserted), with an empty stub for the missing `ot`
* the `val` exchange format with the Coq/OCaml model (text for the driver, Gallina for coqc)
* canonical forms (sets sorted, fractions reduced, errors as a small enum)
* name <-> id tables, PRNG, evidence writer, known-findings matcher, violation reporting
"""
from __future__ import annotations
import os, sys, json, time, types, hashlib, subprocess, random, io, contextlib, signal
from fractions import Fraction
sys.set_int_max_str_digits(0)

VERIF = os.path.dirname(os.path.dirname(os.path.abspath(__file__)))
REPO = "/repo"
REPO_SRC = "/repo/src"
DRIVER = os.path.join(VERIF, "ocaml", "driver")
COQDIR = os.path.join(VERIF, "coq")
WORK = os.path.join(VERIF, ".work")

# ------------------------------------------------------------------ implementation loading
_loaded = False


def load_impl():
    """Import votekit from the CURRENT working tree of /repo and assert that is what we got."""
    global _loaded
    if _loaded:
        return
    os.environ.setdefault("MPLBACKEND", "Agg")
    sys.dont_write_bytecode = True
    if REPO_SRC in sys.path:
        sys.path.remove(REPO_SRC)
    sys.path.insert(0, REPO_SRC)
    if "ot" not in sys.modules:  # POT is not installed; only earth_mover_dist needs it
        sys.modules["ot"] = types.ModuleType("ot")
    import votekit  # noqa

    if not os.path.realpath(votekit.__file__).startswith(REPO_SRC + "/"):
        raise RuntimeError(f"BROKEN-INFRASTRUCTURE: votekit imported from {votekit.__file__}")
    _loaded = True


# ------------------------------------------------------------------ values
class Err:
    """A Python exception class mapped to the model's enum."""

    CODES = {"EType": 1, "EValue": 2, "EIndex": 3, "EKey": 4, "EAttr": 5, "EUnbound": 6,
             "EZeroDiv": 7, "EData": 8, "ENotFound": 9, "EEmptyData": 10, "EFuel": 11,
             "EScript": 12, "EOther": 13}
    NAMES = {v: k for k, v in CODES.items()}

    def __init__(self, code):
        self.code = code if isinstance(code, int) else Err.CODES[code]

    def __repr__(self):
        return f"Err({Err.NAMES.get(self.code, self.code)})"

    def __eq__(self, o):
        return isinstance(o, Err) and o.code == self.code

    def __hash__(self):
        return hash(("Err", self.code))


def is_err(x, code=None):
    """x is an Err (with that code); never calls x.__eq__ (PreferenceInterval.__eq__ raises on foreign types)."""
    return isinstance(x, Err) and (code is None or x.code == (code if isinstance(code, int) else Err.CODES[code]))


class S(list):
    """An unordered collection (set or multiset)."""


def exc_to_err(e: BaseException) -> Err:
    import pandas.errors as pe
    if isinstance(e, UnboundLocalError):
        return Err("EUnbound")
    if isinstance(e, pe.EmptyDataError):
        return Err("EEmptyData")
    if isinstance(e, pe.DataError):
        return Err("EData")
    if isinstance(e, FileNotFoundError):
        return Err("ENotFound")
    if isinstance(e, TimeoutError):
        return Err("EFuel")
    if isinstance(e, ZeroDivisionError):
        return Err("EZeroDiv")
    if isinstance(e, TypeError):
        return Err("EType")
    if isinstance(e, IndexError):
        return Err("EIndex")
    if isinstance(e, KeyError):
        return Err("EKey")
    if isinstance(e, AttributeError):
        return Err("EAttr")
    if isinstance(e, ValueError):  # after its subclasses
        return Err("EValue")
    return Err("EOther")


def _bits(n: int) -> str:
    return bin(n)[2:]


def _z(n: int) -> str:
    if n == 0:
        return "0"
    return ("+" if n > 0 else "-") + _bits(abs(n))


def to_text(v) -> str:
    """Python value -> driver text."""
    if v is None:
        return "n"
    if v is True:
        return "t"
    if v is False:
        return "f"
    if isinstance(v, int):
        return "z" + _z(v)
    if isinstance(v, Fraction):
        return "q" + _z(v.numerator) + "/" + _bits(v.denominator)
    if isinstance(v, Err):
        return "e%d" % v.code
    if isinstance(v, S):
        return "(s" + "".join(" " + to_text(x) for x in v) + ")"
    if isinstance(v, (list, tuple)):
        return "(l" + "".join(" " + to_text(x) for x in v) + ")"
    raise TypeError(f"cannot encode {type(v)}: {v!r}")


def to_gallina(v) -> str:
    """Python value -> Gallina term of type val."""
    if v is None:
        return "VN"
    if v is True:
        return "(VB true)"
    if v is False:
        return "(VB false)"
    if isinstance(v, int):
        return "(VZ (%d)%%Z)" % v
    if isinstance(v, Fraction):
        return "(VQ (Qmake (%d)%%Z %d%%positive))" % (v.numerator, v.denominator)
    if isinstance(v, RawQ):
        return "(VQ (Qmake (%d)%%Z %d%%positive))" % (v.num, v.den)
    if isinstance(v, Err):
        return "(VE %s)" % Err.NAMES[v.code]
    if isinstance(v, S):
        return "(VS [" + "; ".join(to_gallina(x) for x in v) + "])"
    if isinstance(v, (list, tuple)):
        return "(VL [" + "; ".join(to_gallina(x) for x in v) + "])"
    raise TypeError(f"cannot encode {type(v)}: {v!r}")


class RawQ:
    """An unreduced rational exactly as the model printed it (for the kernel cross-check)."""

    def __init__(self, num, den):
        self.num, self.den = num, den


def _unz(s: str) -> int:
    if s == "0":
        return 0
    sign = 1 if s[0] == "+" else -1
    return sign * int(s[1:], 2)


def parse_text(s: str, raw=False):
    """driver text -> Python value (Fractions reduced unless raw)."""
    toks = s.replace("(", " ( ").replace(")", " ) ").split()
    pos = 0

    def rec():
        nonlocal pos
        t = toks[pos]
        pos += 1
        if t == "(":
            kind = toks[pos]
            pos += 1
            items = []
            while toks[pos] != ")":
                items.append(rec())
            pos += 1
            return S(items) if kind == "s" else items
        c = t[0]
        if c == "z":
            return _unz(t[1:])
        if c == "q":
            a, b = t[1:].split("/")
            if raw:
                return RawQ(_unz(a), int(b, 2))
            return Fraction(_unz(a), int(b, 2))
        if c == "t":
            return True
        if c == "f":
            return False
        if c == "n":
            return None
        if c == "e":
            return Err(int(t[1:]))
        raise ValueError("bad token " + t)

    if s.startswith("!"):
        return Err("EOther")
    return rec()


def canon(v):
    """Canonical, hashable, order-insensitive (for S) form."""
    if isinstance(v, bool) or v is None:
        return v
    if isinstance(v, (int, Fraction)):
        return Fraction(v)
    if isinstance(v, Err):
        return ("E", v.code)
    if isinstance(v, S):
        items = [canon(x) for x in v]
        items.sort(key=repr)
        return ("S", tuple(items))
    if isinstance(v, (list, tuple)):
        return tuple(canon(x) for x in v)
    if isinstance(v, str):
        return v
    raise TypeError(f"cannot canonicalise {type(v)}")


def show(v, names=None):
    """Human/JSON-friendly rendering of a value (ids mapped back to names when given)."""
    if isinstance(v, Fraction):
        return str(v)
    if isinstance(v, Err):
        return repr(v)
    if isinstance(v, S):
        return {"set": sorted((show(x, names) for x in v), key=repr)}
    if isinstance(v, (list, tuple)):
        return [show(x, names) for x in v]
    return v


# ------------------------------------------------------------------ running the model
MODEL_CHUNK_TIMEOUT = 240
MODEL_CASE_TIMEOUT = 30
MODEL_TIMEOUT = "MODEL-TIMEOUT"


def run_model(cases, raw=False):
    """cases: list of (op:int, value). Returns list of parsed results (one per case)."""
    if not cases:
        return []
    inp = "\n".join("z" + _z(op) + " " + to_text(v) for op, v in cases) + "\n"
    try:
        p = subprocess.run([DRIVER], input=inp, capture_output=True, text=True, timeout=MODEL_CHUNK_TIMEOUT)
    except subprocess.TimeoutExpired:
        # the model's unreduced rational arithmetic can make a single case pathologically slow;
        # isolate it: run the cases one by one and mark the slow ones (counted in the evidence as
        # model_timeouts, never compared, never an alarm)
        if len(cases) == 1:
            return [MODEL_TIMEOUT]
        out = []
        for c in cases:
            try:
                q = subprocess.run([DRIVER], input="z" + _z(c[0]) + " " + to_text(c[1]) + "\n",
                                   capture_output=True, text=True, timeout=MODEL_CASE_TIMEOUT)
                if q.returncode != 0:
                    raise RuntimeError("BROKEN-INFRASTRUCTURE: model driver failed: " + q.stderr[-2000:])
                out.append(parse_text(q.stdout.split("\n")[0], raw=raw))
            except subprocess.TimeoutExpired:
                out.append(MODEL_TIMEOUT)
        return out
    if p.returncode != 0:
        raise RuntimeError("BROKEN-INFRASTRUCTURE: model driver failed: " + p.stderr[-2000:])
    lines = p.stdout.split("\n")
    if lines and lines[-1] == "":
        lines.pop()
    if len(lines) != len(cases):
        raise RuntimeError(f"BROKEN-INFRASTRUCTURE: driver returned {len(lines)} lines for {len(cases)} cases")
    return [parse_text(l, raw=raw) for l in lines]


def run_model_parallel(cases, nproc=16, raw=False):
    if len(cases) < 64:
        return run_model(cases, raw=raw)
    from concurrent.futures import ThreadPoolExecutor
    chunks = [cases[i::nproc] for i in range(nproc)]
    with ThreadPoolExecutor(nproc) as ex:
        outs = list(ex.map(lambda c: run_model(c, raw=raw), chunks))
    res = [None] * len(cases)
    for k, out in enumerate(outs):
        for j, r in enumerate(out):
            res[k + j * nproc] = r
    return res


def kernel_crosscheck(cases, tag):
    """Evaluate the same cases inside Coq with vm_compute and compare with the extracted model's
    raw output.  Returns (n_checked, n_mismatch, detail)."""
    if not cases:
        return 0, 0, ""
    raw = run_model(cases, raw=True)
    keep = [k for k, r in enumerate(raw) if not (isinstance(r, str) and r == MODEL_TIMEOUT)]
    cases, raw = [cases[k] for k in keep], [raw[k] for k in keep]
    os.makedirs(WORK, exist_ok=True)
    name = f"kc_{tag}_{os.getpid()}"
    path = os.path.join(WORK, name + ".v")
    with open(path, "w") as f:
        f.write("From VK Require Import Base Dispatch.\nOpen Scope Z_scope.\n")
        f.write("Definition cases : list (Z * val * val) := [\n")
        f.write(";\n".join("(%d, %s, %s)" % (op, to_gallina(v), to_gallina(r))
                           for (op, v), r in zip(cases, raw)))
        f.write("].\n")
        f.write("Definition bad := filter (fun c => match c with (op, v, r) => "
                "negb (val_eqb (dispatch op v) r) end) cases.\n")
        f.write("Eval vm_compute in (length cases, length bad).\n")
    try:
        p = subprocess.run(["coqc", "-Q", COQDIR, "VK", path], capture_output=True, text=True, timeout=900)
    except subprocess.TimeoutExpired:
        p = None
    for ext in (".v", ".vo", ".vok", ".vos", ".glob"):
        try:
            os.remove(os.path.join(WORK, name + ext))
        except OSError:
            pass
    try:
        os.remove(os.path.join(WORK, "." + name + ".aux"))
    except OSError:
        pass
    if p is None:
        return 0, 0, "vm_compute cross-check timed out (nothing compared)"
    out = p.stdout.replace("\n", " ")
    import re
    m = re.search(r"=\s*\((\d+)%nat,\s*(\d+)%nat\)", out) or re.search(r"=\s*\((\d+),\s*(\d+)\)", out)
    if p.returncode != 0 or not m:
        return len(cases), len(cases), "coqc failed: " + (p.stderr or p.stdout)[-1500:]
    return int(m.group(1)), int(m.group(2)), ""


# ------------------------------------------------------------------ name tables
class Names:
    def __init__(self, names):
        self.names = [str(n) for n in names]
        self.ids = {n: i + 1 for i, n in enumerate(self.names)}

    def id(self, name):
        name = str(name)
        if name not in self.ids:  # unknown names get fresh ids (never collide with known ones)
            self.names.append(name)
            self.ids[name] = len(self.names)
        return self.ids[name]

    def name(self, i):
        return self.names[i - 1]


# ------------------------------------------------------------------ time limit for impl calls
class _Timeout(Exception):
    pass


@contextlib.contextmanager
def time_limit(seconds):
    """Watchdog for implementation calls.  The limit is on CPU time consumed by this process
    (ITIMER_PROF), not on wall-clock time: a call that really spins (PluralityVeto's endless loop)
    burns CPU and is cut after `seconds`, while a call that is merely starved on a loaded machine
    is not mistaken for non-termination.  A generous wall-clock backstop (ITIMER_REAL) catches a
    call that blocks without using CPU."""
    def handler(signum, frame):
        raise TimeoutError("watchdog")
    old_prof = signal.signal(signal.SIGPROF, handler)
    old_alrm = signal.signal(signal.SIGALRM, handler)
    signal.setitimer(signal.ITIMER_PROF, seconds)
    signal.setitimer(signal.ITIMER_REAL, max(900.0, 90.0 * seconds))
    try:
        yield
    finally:
        signal.setitimer(signal.ITIMER_PROF, 0)
        signal.setitimer(signal.ITIMER_REAL, 0)
        signal.signal(signal.SIGPROF, old_prof)
        signal.signal(signal.SIGALRM, old_alrm)


def call_impl(fn, *a, limit=10.0, **kw):
    """Run an implementation call: returns its value or an Err; stdout chatter is swallowed."""
    buf = io.StringIO()
    try:
        with contextlib.redirect_stdout(buf), time_limit(limit):
            return fn(*a, **kw)
    except BaseException as e:  # noqa
        if isinstance(e, (KeyboardInterrupt, SystemExit)):
            raise
        return exc_to_err(e)


# ------------------------------------------------------------------ misc
def frac(x) -> Fraction:
    if isinstance(x, Fraction):
        return x
    if isinstance(x, str):
        return Fraction(x)
    return Fraction(x)


def fstr(q) -> str:
    q = Fraction(q)
    return str(q.numerator) if q.denominator == 1 else f"{q.numerator}/{q.denominator}"


def sha(obj) -> str:
    return hashlib.sha256(json.dumps(obj, sort_keys=True, default=str).encode()).hexdigest()[:16]
