"""harness/recorder.py — record (or poison) the random primitives VoteKit calls.

Installed from outside (monkey-patching the `random` and `numpy.random` module attributes the
votekit modules look up at call time); no source hook.  Each call is answered by the real
primitive driven by our own seeded generator and logged as (kind, canonical args, result) so the
model can replay the result and the two call sequences can be compared.
"""
from __future__ import annotations
import random as _random
import contextlib
from fractions import Fraction
import numpy as _np


class Poisoned(Exception):
    pass


class Recorder:
    def __init__(self, seed, poison=False):
        self.rng = _random.Random(seed)
        self.nprng = _np.random.RandomState(seed % (2 ** 32))
        self.log = []          # list of dicts {kind, args, result}
        self.poison = poison

    # --- replacements -------------------------------------------------------
    def sample(self, population, k, *, counts=None):
        if self.poison:
            raise Poisoned("random.sample called")
        population = list(population)
        if k < 0 or k > len(population):
            raise ValueError("Sample larger than population or is negative")
        idxs = self.rng.sample(range(len(population)), k)
        res = [population[i] for i in idxs]
        import sys as _sys
        fr = _sys._getframe(1)
        caller = fr.f_code.co_name
        # context used only to put the independent draws of one simultaneous-election round
        # into the model's processing order (Python iterates a frozenset in hash order)
        winner = fr.f_locals.get("winner")
        fpv = fr.f_locals.get("fpv")
        rnd, f = None, fr
        for _ in range(6):
            f = f.f_back
            if f is None:
                break
            ps = f.f_locals.get("prev_state")
            if ps is not None and hasattr(ps, "round_number"):
                rnd = (id(f.f_locals.get("self")), ps.round_number)
                break
        self.log.append({"kind": "sample", "population": population, "k": k, "result": res,
                         "caller": caller, "winner": winner, "round": rnd, "fpv": fpv})
        return res

    def choices(self, population, weights=None, *, cum_weights=None, k=1):
        if self.poison:
            raise Poisoned("random.choices called")
        population = list(population)
        ws = [float(w) for w in weights] if weights is not None else None
        idxs = self.rng.choices(range(len(population)), weights=ws, k=k)
        res = [population[i] for i in idxs]
        self.log.append({"kind": "choices", "population": population,
                         "weights": list(weights) if weights is not None else None,
                         "k": k, "result": res})
        return res

    def uniform(self, a, b):
        if self.poison:
            raise Poisoned("random.uniform called")
        # a dyadic with 20 bits so the model can take it exactly
        u = Fraction(self.rng.randrange(0, 2 ** 20), 2 ** 20)
        val = a + (b - a) * float(u)
        self.log.append({"kind": "uniform", "a": a, "b": b, "result": val, "exact": a + (b - a) * u})
        return val

    def np_choice(self, a, size=None, replace=True, p=None):
        if self.poison:
            raise Poisoned("numpy.random.choice called")
        res = self.nprng.choice(a, size=size, replace=replace, p=p)
        self.log.append({"kind": "np_choice", "a": list(a) if hasattr(a, "__iter__") else a,
                         "size": size, "replace": replace,
                         "p": None if p is None else [float(x) for x in p],
                         "result": res.tolist() if hasattr(res, "tolist") else res})
        return res

    def np_default_rng(self, *a, **k):
        """numpy.random.default_rng(): BallotSimplex draws its Dirichlet point from a fresh Generator."""
        rec = self

        class _Gen:
            def dirichlet(self, alpha, size=None):
                if rec.poison:
                    raise Poisoned("Generator.dirichlet called")
                res = rec.nprng.dirichlet(alpha, size)
                rec.log.append({"kind": "dirichlet", "alpha": [float(x) for x in alpha], "size": size,
                                "result": res.tolist()})
                return res

            def __getattr__(self, name):
                raise Poisoned(f"unrecorded Generator method {name}")
        return _Gen()

    def np_shuffle(self, x):
        if self.poison:
            raise Poisoned("numpy.random.shuffle called")
        before = list(x)
        self.nprng.shuffle(x)
        self.log.append({"kind": "np_shuffle", "before": before, "result": list(x)})

    def np_uniform(self, low=0.0, high=1.0, size=None):
        if self.poison:
            raise Poisoned("numpy.random.uniform called")
        res = self.nprng.uniform(low, high, size)
        import sys as _sys
        if size == 2 and _sys._getframe(1).f_code.co_name != "sample_cohesion_ballot_types":
            # a point in the plane (spatial models): coarse grid so that equal distances occur
            res = _np.round(res * 4) / 4
        self.log.append({"kind": "np_uniform", "low": low, "high": high, "size": size,
                         "result": res.tolist() if hasattr(res, "tolist") else res})
        return res

    def np_normal(self, loc=0.0, scale=1.0, size=None):
        if self.poison:
            raise Poisoned("numpy.random.normal called")
        res = self.nprng.normal(loc, scale, size)
        # a coarse grid makes equal distances (ties in the spatial sort) actually occur
        res = _np.round(_np.asarray(res) * 4) / 4 if size is not None else round(float(res) * 4) / 4
        self.log.append({"kind": "np_normal", "loc": loc, "scale": scale, "size": size,
                         "result": res.tolist() if hasattr(res, "tolist") else res})
        return res

    def random(self):
        if self.poison:
            raise Poisoned("random.random called")
        u = Fraction(self.rng.randrange(0, 2 ** 20), 2 ** 20)
        self.log.append({"kind": "random", "result": float(u), "exact": u})
        return float(u)

    def shuffle(self, x):
        if self.poison:
            raise Poisoned("random.shuffle called")
        before = list(x)
        self.rng.shuffle(x)
        self.log.append({"kind": "shuffle", "before": before, "result": list(x)})


@contextlib.contextmanager
def installed(rec: Recorder):
    """Patch the module-level primitives for the duration of the block."""
    saved = {}
    patches = [
        (_random, "sample", rec.sample), (_random, "choices", rec.choices),
        (_random, "uniform", rec.uniform), (_random, "random", rec.random),
        (_random, "shuffle", rec.shuffle),
        (_np.random, "choice", rec.np_choice), (_np.random, "shuffle", rec.np_shuffle),
        (_np.random, "uniform", rec.np_uniform), (_np.random, "normal", rec.np_normal),
        (_np.random, "default_rng", rec.np_default_rng),
    ]
    for mod, name, fn in patches:
        saved[(mod, name)] = getattr(mod, name)
        setattr(mod, name, fn)
    try:
        yield rec
    finally:
        for (mod, name), fn in saved.items():
            setattr(mod, name, fn)
