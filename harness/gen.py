"""harness/gen.py — structured generators of profiles (JSON form, see vk.py).

Every random choice comes from the `random.Random` passed in, so a run replays from VERIF_SEED.
"""
from __future__ import annotations
import itertools
from fractions import Fraction
from common import fstr

NAME_POOLS = [
    ["A", "B", "C", "D", "E", "F", "G"],
    ["Zed", "amy", "Bob", "chris", "Ångström", "d", "eve"],          # sort order != insertion order
    ["c7", "c3", "c5", "c1", "c6", "c2", "c4"],
    ["w x", "q,r", "ab", "Ab", "aB", "z", "_"],
    ["Chris", "Peter", "Moon", "Jeanne", "Mala", "Tyler", "David"],
    ["Anna", "Ann", "An", "Bob Jr", "Bob", "Bo", "nn"],                  # names that are substrings of each other
    ["10", "1", "0", "12", "2", "21", "11"],                              # numeric-looking, substring-related
]

W_INT = ["1", "2", "3", "5", "1", "1", "4", "10"]
W_RAT = ["1/2", "1/3", "3/2", "7/3", "5/7", "2/7", "1"]
W_BIG = ["1000", "999", "12345"]
W_FINE = ["1/999983", "500001/999983", "1/2000", "999979/1000000"]     # denominators near the 10^6 storage limit


def pick_names(rng, n):
    pool = list(rng.choice(NAME_POOLS))
    rng.shuffle(pool)
    return pool[:n]


def rand_weight(rng, kind="mixed"):
    if kind == "int":
        return rng.choice(W_INT + W_BIG[:1]) if rng.random() < 0.9 else rng.choice(W_BIG)
    if kind == "unit":
        return "1"
    r = rng.random()
    if r < 0.55:
        return rng.choice(W_INT)
    if r < 0.88:
        return rng.choice(W_RAT)
    if r < 0.94:
        return rng.choice(W_FINE)
    return rng.choice(W_BIG)


def rand_ranking(rng, cands, ties=False, partial=True, min_len=1):
    """A ranking over a subset of cands, as list of groups."""
    n = len(cands)
    if partial:
        # geometric-ish length
        k = min_len
        while k < n and rng.random() < 0.62:
            k += 1
    else:
        k = n
    chosen = rng.sample(cands, k)
    if not ties:
        return [[c] for c in chosen]
    groups, i = [], 0
    while i < k:
        size = 1
        while i + size < k and rng.random() < 0.3:
            size += 1
        groups.append(chosen[i:i + size])
        i += size
    return groups


BIG_POOLS = [
    [f"c{i}" for i in range(1, 14)],                       # "c10" < "c2" as strings
    ["10", "2", "1", "11", "3", "20", "4", "5", "6", "7", "8", "9", "12"],   # numeric-looking names
    [f"Cand {chr(65 + i)}" for i in range(13)],
]


def ranked_profile(rng, n_cands=None, n_ballots=None, ties=False, weights="mixed",
                   zero_vote=0.25, explicit_cands=0.8, partial=True, allow_large=False):
    n = n_cands or rng.choice([2, 3, 3, 4, 4, 5, 5, 6, 7])
    names = pick_names(rng, n)
    if allow_large and n_cands is None and rng.random() < 0.08:
        # two-digit candidate counts (integer weights: the model's rational arithmetic is unreduced)
        n = rng.choice([9, 10, 12, 13])
        pool = list(rng.choice(BIG_POOLS))
        rng.shuffle(pool)
        names = pool[:n]
        weights = "int"
        n_ballots = n_ballots or rng.choice([8, 12, 20, 30])
    voted = names
    if n > 2 and rng.random() < zero_vote:
        voted = names[: rng.randint(max(1, n - 2), n - 1)]
    nb = n_ballots or rng.choice([1, 2, 3, 4, 5, 6, 8, 10, 12])
    ballots = []
    for _ in range(nb):
        ballots.append({"r": rand_ranking(rng, voted, ties=ties, partial=partial),
                        "w": rand_weight(rng, weights)})
    if rng.random() < 0.3 and ballots:           # duplicates of the same content
        b = dict(rng.choice(ballots))
        b["w"] = rand_weight(rng, weights)
        ballots.insert(rng.randrange(len(ballots) + 1), b)
    cands = list(names)
    rng.shuffle(cands)
    if voted is names and rng.random() > explicit_cands:
        cands = None
    return {"ballots": ballots, "cands": cands}, names


def all_partial_rankings(cands):
    out = []
    for k in range(1, len(cands) + 1):
        for perm in itertools.permutations(cands, k):
            out.append([[c] for c in perm])
    return out


def small_scope_profiles(rng, n_cands=3, n_distinct=3, count=None, weights=("1", "2", "3", "1/2", "1/3")):
    """Profiles over <= n_cands candidates with <= n_distinct distinct ballots drawn from all
    partial rankings; sampled when count is given, enumerated otherwise."""
    names = ["A", "B", "C", "D"][:n_cands]
    rks = all_partial_rankings(names)
    if count is None:
        for k in range(1, n_distinct + 1):
            for combo in itertools.combinations(rks, k):
                for ws in itertools.product(weights[:3], repeat=k):
                    yield {"ballots": [{"r": r, "w": w} for r, w in zip(combo, ws)], "cands": list(names)}
    else:
        for _ in range(count):
            k = rng.randint(1, n_distinct)
            combo = rng.sample(rks, k)
            yield {"ballots": [{"r": r, "w": rng.choice(weights)} for r in combo], "cands": list(names)}


def total(jp):
    return sum(Fraction(b["w"]) for b in jp["ballots"])


def fpv_tally(jp, cands):
    t = {c: Fraction(0) for c in cands}
    for b in jp["ballots"]:
        if b["r"]:
            g = b["r"][0]
            for c in g:
                t[c] += Fraction(b["w"]) / len(g)
    return t


FOUR_WAY = [
    [(["B", "D", "C"], 1), (["A"], 1), (["D", "B"], 1), (["C", "A"], 1)],                       # Borda B = D > A = C
    [(["C", "B"], 1), (["A", "B"], 1), (["D", "A"], 1), (["B", "A"], 1)],                        # Borda A = B > C = D
    [(["A", "B", "D", "C"], 2), (["D", "A", "B"], 2), (["B", "C", "A"], 2), (["C"], 2)],      # Borda A = B > C = D
    [(["D"], 3), (["B", "A", "C"], 3), (["C"], 3), (["A", "C", "D", "B"], 3)],                # Borda A = C > B = D
]


def fine_secondary_tie(rng):
    """Two candidates tied on first-place votes whose Borda scores differ by one part in 2^54: an exact
    'borda' tiebreak separates them without any draw (a float comparison would not)."""
    names = pick_names(rng, 3)
    a, b, c = names
    W = str(2 ** 53)
    ballots = [{"r": [[a]], "w": W}, {"r": [[b]], "w": W}, {"r": [[c], [a]], "w": "1"}]
    rng.shuffle(ballots)
    cands = list(names)
    rng.shuffle(cands)
    return {"ballots": ballots, "cands": cands}, names


THREE_WAY_LEADER = [
    [(["D", "B"], 2), (["B", "A", "D"], 2), (["A", "C", "D", "B"], 2)],                            # fpv A=B=D, Borda A > B = D
    [(["B", "A", "C"], 2), (["D", "B", "A"], 1), (["B", "C", "D", "A"], 1), (["C", "D"], 3), (["A"], 3)],   # C > A = B
    [(["B"], 3), (["D"], 3), (["C", "B"], 1), (["A"], 3)],                                            # B > A = D
]


def three_way_leader_tie(rng):
    """Three candidates tied on first-place votes; Borda separates the LEADER and leaves the other two
    tied: a 'borda' tiebreak must still draw for the lower pair (m = 2 seats from the tie shows it)."""
    names = pick_names(rng, 4)
    ren = dict(zip("ABCD", names))
    ballots = [{"r": [[ren[c]] for c in r], "w": str(w)} for r, w in rng.choice(THREE_WAY_LEADER)]
    rng.shuffle(ballots)
    cands = list(names)
    rng.shuffle(cands)
    return {"ballots": ballots, "cands": cands}, names


def four_way_pair_tie(rng):
    """Four candidates tied on first-place votes whose Borda scores leave TWO still-tied pairs: a
    'borda' tiebreak must fall back to a random order inside each pair and splice both back in place."""
    names = pick_names(rng, rng.choice([4, 4, 5]))
    ren = dict(zip("ABCD", names[:4]))
    f = rng.choice([1, 1, 2, Fraction(1, 2)])
    ballots = [{"r": [[ren[c]] for c in r], "w": fstr(Fraction(w) * f)} for r, w in rng.choice(FOUR_WAY)]
    rng.shuffle(ballots)
    cands = list(names)
    rng.shuffle(cands)
    return {"ballots": ballots, "cands": cands}, names


def stv_boundary_profile(rng):
    """Built backwards from the decisions STV makes: tallies at/around the Droop threshold,
    ties at the seat boundary / elimination end, more quota-reachers than seats, early exhaustion."""
    n = rng.choice([3, 4, 4, 5, 5, 6])
    names = pick_names(rng, n)
    m = rng.randint(1, n - 1)
    kind = rng.choice(["at_threshold", "tie_top", "tie_bottom", "tie_bottom_init", "exhaust",
                       "many_reach", "bullets", "zero_votes", "default_elect", "tie_bottom_partial"])
    if kind == "tie_bottom_partial" and n < 5:
        kind = "tie_bottom_init"
    ballots = []

    def add(r, w):
        ballots.append({"r": [[c] for c in r], "w": fstr(Fraction(w))})

    if kind == "at_threshold":
        N = rng.choice([10, 12, 20, 21, 30])
        t = N // (m + 1) + 1
        delta = rng.choice([-1, 0, 0, 1])
        first = max(1, t + delta)
        rest = N - first
        add([names[0]] + rng.sample(names[1:], rng.randint(0, n - 1)), first)
        others = names[1:]
        while rest > 0:
            w = min(rest, rng.randint(1, max(1, rest // 2 + 1)))
            c = rng.choice(others)
            tail = [x for x in rng.sample(names, rng.randint(0, n)) if x != c]
            add([c] + tail, w)
            rest -= w
    elif kind == "tie_top":
        w = rng.choice([2, 3, 5])
        k = rng.randint(2, min(3, n))
        for c in names[:k]:
            add([c] + [x for x in rng.sample(names, rng.randint(0, n)) if x != c], w)
        for c in names[k:]:
            if rng.random() < 0.7:
                add([c] + [x for x in rng.sample(names, rng.randint(0, n)) if x != c], rng.randint(1, w))
    elif kind in ("tie_bottom", "tie_bottom_init"):
        big = rng.choice([5, 7, 9])
        k = rng.randint(2, min(3, n - 1))
        low = names[-k:]
        for c in names[:-k]:
            add([c] + [x for x in rng.sample(names, rng.randint(0, n)) if x != c], big + rng.randint(0, 3))
        for c in low:
            add([c] + [x for x in rng.sample(names, rng.randint(0, n)) if x != c], 2)
        if kind == "tie_bottom_init":
            # make the tie appear only after a transfer: a top candidate's ballots flow to one of low
            add([names[0], low[0]], 1)
            add([names[0], low[1]], 1)
    elif kind == "tie_bottom_partial":
        # a tie for last place among THREE candidates that appears in a later round and that the
        # initial first-place tallies only partly resolve ({X} above {Y, Z}): the fallback must still
        # break Y/Z at random and record a strict order
        m = 1
        w, x, y, z, d = names[0], names[1], names[2], names[3], names[4]
        a = rng.choice([3, 4, 6])
        add([w] + rng.sample([x, y, z], rng.randint(0, 2)), a + rng.randint(1, 3))
        add([x], a)
        add([y], a - 1)
        add([z], a - 1)
        add([d, y], 1)
        add([d, z], 1)
        for c in names[5:]:
            add([c, w], 1) if rng.random() < 0.5 else None
    elif kind == "exhaust":
        for c in names:
            if rng.random() < 0.8:
                add([c], rng.randint(1, 4))
        add([names[0], names[1]], rng.randint(1, 3))
    elif kind == "many_reach":
        for c in names[: min(n, m + 1)]:
            add([c] + [x for x in rng.sample(names, rng.randint(0, n)) if x != c], rng.choice([4, 5, 6]))
        for c in names[m + 1:]:
            add([c], 1)
    elif kind == "bullets":
        add([names[0]], rng.randint(5, 9))
        add([names[0], names[1]], rng.randint(1, 3))
        for c in names[1:]:
            add([c] + [x for x in rng.sample(names, rng.randint(0, 2)) if x != c], rng.randint(1, 3))
    elif kind == "zero_votes":
        voted = names[: max(1, n - 2)]
        for c in voted:
            add([c] + [x for x in rng.sample(voted, rng.randint(0, len(voted))) if x != c], rng.randint(1, 6))
    else:  # default_elect: few ballots, many seats
        m = rng.randint(max(1, n - 2), n)
        add([names[0]], rng.randint(3, 6))
        for c in names[1:3]:
            if rng.random() < 0.7:
                add([c], rng.randint(1, 2))
    if not ballots:
        add([names[0]], 1)
    cands = list(names)
    rng.shuffle(cands)
    return {"ballots": ballots, "cands": cands}, m, kind
