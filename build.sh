#!/bin/bash
# Full (incremental) build of the Coq development, extraction and OCaml driver. Offline.
set -e
cd "$(dirname "$0")"
ROOT=$(pwd)
mkdir -p "$ROOT/.work"
cd "$ROOT/coq"
if [ -f "$ROOT/harness/wiring_gen.py" ]; then
  PYTHONDONTWRITEBYTECODE=1 /venv/bin/python "$ROOT/harness/wiring_gen.py" > Generated/Wiring.v.tmp
  if ! cmp -s Generated/Wiring.v.tmp Generated/Wiring.v; then mv Generated/Wiring.v.tmp Generated/Wiring.v; else rm Generated/Wiring.v.tmp; fi
fi
if [ ! -f Makefile ] || [ _CoqProject -nt Makefile ]; then
  coq_makefile -f _CoqProject -o Makefile > /dev/null
fi
# 1. the executable model (must build even when a proof is broken)
timeout 3000 make -j16 Model/Dispatch.vo 2>&1 | grep -v "^COQDEP\|^COQC\|^make" || true
timeout 3000 make -j16 Model/Dispatch.vo > /dev/null 2>&1
cd "$ROOT/ocaml"
if [ ! -f model.ml ] || [ -n "$(find "$ROOT/coq/Model" "$ROOT/coq/Core" -name '*.vo' -newer model.ml | head -1)" ] || [ "$ROOT/coq/Extract/Extract.v" -nt model.ml ]; then
  timeout 600 coqc -Q ../coq VK ../coq/Extract/Extract.v > /dev/null
  touch model.ml
fi
if [ ! -x driver ] || [ model.ml -nt driver ] || [ driver.ml -nt driver ]; then
  timeout 600 ocamlfind ocamlopt -O3 -w -a model.mli model.ml driver.ml -o driver > /dev/null 2>&1 || \
  timeout 600 ocamlfind ocamlopt -w -a model.mli model.ml driver.ml -o driver
fi
if [ -n "$VERIF_MODEL_ONLY" ]; then echo BUILD-OK; exit 0; fi   # development aid, never used by registered checks
# 2. the whole development (proofs); -k so that every independent file is still checked
cd "$ROOT/coq"
if timeout 3000 make -k -j16 > "$ROOT/.work/make.log" 2>&1; then
  echo BUILD-OK
else
  grep -B2 -A12 "^Error\|Error:" "$ROOT/.work/make.log" | head -60
  echo BUILD-PROOFS-FAILED
  exit 3
fi
