(* Extraction of the executable model to OCaml.  ExtrOcamlBasic only; Z/positive/Q/nat stay
   the extracted inductive types. *)
From Coq Require Import Extraction ExtrOcamlBasic.
From VK Require Import Base Core STV Pairwise Rules PV Election BallotCtor Cleaning Metrics Loaders GenValidation PrefInterval Generators Codec Dispatch.
Extraction Language OCaml.
Extraction "model.ml" dispatch.
