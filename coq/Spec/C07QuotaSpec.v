(* Spec/C07QuotaSpec.v — vocabulary for Properties/C07_quota.v (C07 with the random transfer):
   the shortage of a winner's transferable ballots, piles without bullet votes, and scripts that
   fit every request of the count.  Definitions only; the facts are in Proofs/C07_quota.v.
   Builds on Spec/STVSpec.v, Spec/STVErrSpec.v (transferable_units, seat_tie_failure) and
   Spec/LiveSpec.v (reached). *)
From VK Require Import Base Core STV Rules EditSpec.
From VK.Spec Require Import STVSpec STVErrSpec LiveSpec.
From Coq Require Import Qround.

Section WithCand.
Variable cand : Type.
Variable ceqb : cand -> cand -> bool.

Notation profile := (profile cand).
Notation estate := (estate cand).
Notation mstate := (mstate cand).

(* random-transfer shortage at a round with profile pr and threshold t: w reaches t but the whole
   votes of its pile that rank somebody after w (what random.sample can draw from) number fewer
   than its surplus floor(tally w) - floor(t) *)
Definition shortage (t : Q) (pr : profile) (w : cand) : Prop :=
  reaches cand ceqb t pr w /\
  (transferable_units cand ceqb pr w < Qfloor (tally cand ceqb w (ballots pr)) - Qfloor t)%Z.

(* the pile of w in pr has no bullet vote: every ballot led by w still ranks somebody once w is
   struck out (the ballots of pr only rank surviving candidates, so: it ranks at least two) *)
Definition no_bullet (pr : profile) (w : cand) : Prop :=
  forall b, In b (ballots pr) -> first_is cand ceqb w b = true ->
    nonempty (strip cand ceqb [w] (rk b)) = true.

(* ... at every round the count of p passes through with seats still open, for every candidate
   that reaches the threshold there *)
Definition no_bullet_piles (cfg : stv_cfg) (p : profile) (s : mstate) : Prop :=
  forall t s0 (pr : profile) prev older (s1 : mstate) w,
    stv_init cand cfg p = inl t -> initial_state cand ceqb p = inl s0 ->
    reached cand ceqb cfg t p p [s0] s pr (prev :: older) s1 ->
    count_elected cand (prev :: older) <> s_m cfg ->
    reaches cand ceqb t pr w -> no_bullet pr w.

(* the replay script fits the count: no round the count passes through (seats still open) finds
   the script exhausted or presenting a draw of the wrong kind / size / content (EScript is the
   model's own error, never raised by the library with a live random source) *)
Definition fitting_script (cfg : stv_cfg) (p : profile) (s : mstate) : Prop :=
  forall t s0 (pr : profile) prev older (s1 : mstate),
    stv_init cand cfg p = inl t -> initial_state cand ceqb p = inl s0 ->
    reached cand ceqb cfg t p p [s0] s pr (prev :: older) s1 ->
    count_elected cand (prev :: older) <> s_m cfg ->
    stv_step cand ceqb cfg t p (count_elected cand (prev :: older)) pr prev s1 <> inr EScript.

End WithCand.
