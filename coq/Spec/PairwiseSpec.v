(* Spec/PairwiseSpec.v — specification vocabulary for property C06 (pairwise comparison,
   dominating tiers, Condorcet consistency).  Small, readable definitions only; no proofs.

   The head-to-head weight [pref_weight] is computed on the ORIGINAL (possibly partial) ballots and
   shares no code with the model's [ballot_fill]/[h2h]. *)
From VK Require Import Base Core.
From Coq Require Import Permutation Relations.

Section PairwiseSpec.
Variable cand : Type.
Variable ceqb : cand -> cand -> bool.

Notation ballot := (ballot cand).
Notation profile := (profile cand).

(* the candidates an untied ballot lists, best first *)
Definition listing (x : ballot) : list cand := flat cand (rk x).

(* [a] occurs in [l] and no occurrence of [b] comes earlier *)
Fixpoint before (a b : cand) (l : list cand) : bool :=
  match l with
  | [] => false
  | x :: l' => if ceqb a x then true else if ceqb b x then false else before a b l'
  end.

(* what one ballot contributes to "a over b":
     its whole weight when a is listed and (b is not listed or a comes before b);
     half its weight when neither is listed;  nothing otherwise *)
Definition pref_share (a b : cand) (x : ballot) : Q :=
  let l := listing x in
  if memb cand ceqb a l then (if before a b l then wt x else 0)
  else if memb cand ceqb b l then 0
  else wt x / 2.

Definition pref_weight (bs : list ballot) (a b : cand) : Q := qsum (map (pref_share a b) bs).

(* signed head-to-head margin of a over b *)
Definition margin (bs : list ballot) (a b : cand) : Q := pref_weight bs a b - pref_weight bs b a.

(* a beats b strictly head-to-head *)
Definition beats (bs : list ballot) (a b : cand) : Prop := pref_weight bs b a < pref_weight bs a b.

(* the input domain of C06: untied ranked ballots, possibly partial, of positive weight, over a
   duplicate-free candidate list that may contain candidates nobody lists *)
Definition untied_ballot (cs : list cand) (x : ballot) : Prop :=
  rk x <> [] /\
  Forall (fun g => length g = 1%nat) (rk x) /\
  NoDup (listing x) /\
  incl (listing x) cs /\
  incl (map fst (sc x)) cs /\
  0 < wt x.

Definition untied_profile (p : profile) : Prop :=
  NoDup (cands p) /\ ballots p <> [] /\ Forall (untied_ballot (cands p)) (ballots p).

(* the beats-or-ties digraph on a ground set, and reachability inside it *)
Definition edge_in (E : cand -> cand -> bool) (cs : list cand) (a b : cand) : Prop :=
  In a cs /\ In b cs /\ E a b = true.
Definition reaches (E : cand -> cand -> bool) (cs : list cand) : cand -> cand -> Prop :=
  clos_refl_trans cand (edge_in E cs).

(* x comes strictly earlier than y in the list l *)
Definition earlier {A} (l : list A) (x y : A) : Prop :=
  exists pre mid post, l = pre ++ x :: mid ++ y :: post.

(* D is a dominating set of the candidates cs: every member strictly beats every non-member *)
Definition dominating (bs : list ballot) (cs D : list cand) : Prop :=
  incl D cs /\ forall a b, In a D -> In b cs -> ~ In b D -> beats bs a b.

(* c is a Condorcet winner *)
Definition condorcet_winner (bs : list ballot) (cs : list cand) (c : cand) : Prop :=
  In c cs /\ forall d, In d cs -> d <> c -> beats bs c d.

End PairwiseSpec.

Arguments earlier {A}.
