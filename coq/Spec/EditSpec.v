(* Spec/EditSpec.v — small, readable specification vocabulary used by the statements of
   Properties/C12.v and Properties/C03.v.  Definitions only, no proofs. *)
From VK Require Import Base Core.
From Coq Require Import Permutation.

Section WithCand.
Variable cand : Type.
Variable ceqb : cand -> cand -> bool.

(* two lists of candidates denote the same set *)
Definition seteq (a b : cset cand) : Prop := forall c, In c a <-> In c b.

(* rankings equal position by position, each position compared as a set
   (the Prop reading of [ranking_eqb]) *)
Definition rk_equiv (r1 r2 : ranking cand) : Prop := Forall2 seteq r1 r2.

(* weight carried by ranking r in a ballot list (rankings compared up to set-equality of groups) *)
Definition wtof_rk (r : ranking cand) (bs : list (ballot cand)) : Q :=
  qsum (map wt (filter (fun b => ranking_eqb cand ceqb r (rk b)) bs)).

(* summed weight of the ballots satisfying a test *)
Definition wt_where (p : ballot cand -> bool) (bs : list (ballot cand)) : Q :=
  qsum (map wt (filter p bs)).

(* summed value of [f] over the ballots satisfying a test *)
Definition sum_where (f : ballot cand -> Q) (p : ballot cand -> bool) (bs : list (ballot cand)) : Q :=
  qsum (map f (filter p bs)).

(* candidates a and b stand in the same position (group) of r *)
Definition same_group (r : ranking cand) (a b : cand) : Prop :=
  exists g, In g r /\ In a g /\ In b g.

(* the ballot's ranking maps to r' when the candidates of [removed] are struck out *)
Definition maps_to (removed : cset cand) (r' : ranking cand) (b : ballot cand) : bool :=
  ranking_eqb cand ceqb r' (strip cand ceqb removed (rk b)).

(* the ballot loses all its ranked candidates *)
Definition exhausted (removed : cset cand) (b : ballot cand) : bool :=
  negb (nonempty (strip cand ceqb removed (rk b))).

Definition score_free (bs : list (ballot cand)) : Prop := Forall (fun b => sc b = []) bs.
Definition all_pos (bs : list (ballot cand)) : Prop := Forall (fun b => 0 < wt b) bs.

(* ranking r followed by one last-place group holding the candidates of cs absent from r *)
Definition with_missing (cs : cset cand) (r : ranking cand) : ranking cand :=
  r ++ match set_diff cand ceqb cs (flat cand r) with [] => [] | m => [m] end.

(* l is a linear order consistent with the (possibly tied) ranking r: it is a list of singleton
   positions whose candidates are, group by group, a rearrangement of the groups of r *)
Definition linear_refinement (r l : ranking cand) : Prop :=
  exists segs : list (list cand),
    Forall2 (fun g seg => Permutation g seg) r segs /\ l = singletons cand (concat segs).

End WithCand.
