(* Spec/Rename2.v — renaming of candidates through [f : A -> B] on the data types that
   Spec/Rename.v does not cover (specification vocabulary of property C08, second file):
   the status table of [get_status], the result of [get_step], PluralityVeto's object state and the
   result of its veto loop.  As in Spec/Rename.v a renaming maps [f] over every candidate occurrence
   and leaves status codes, round numbers, ballot indices, weights and every other non-candidate
   datum untouched.  Only definitions here. *)
From VK Require Import Base Core STV Pairwise Rules PV Election.
From VK.Spec Require Import Rename.

Section Rename2.
Variables A B : Type.
Variable f : A -> B.

(* get_status: rows (candidate, (status code, round)) *)
Definition rn_status (t : list (A * (Z * Z))) : list (B * (Z * Z)) :=
  map (fun x => (f (fst x), snd x)) t.

(* get_step: (profile of the round, recorded state of the round) *)
Definition rn_step (x : profile A * estate A) : profile B * estate B :=
  (rn_profile f (fst x), rn_state f (snd x)).

(* PluralityVeto's mutable fields: voter order (indices), de-condensed ballots, eliminated set *)
Definition rn_pv_obj (o : pv_obj A) : pv_obj B :=
  mkPV B (pv_order A o) (rn_ballots f (pv_ballots A o)) (rn_cset f (pv_elim A o)).

(* one PluralityVeto step: (object, next profile, next round) *)
Definition rn_pv_step (x : pv_obj A * profile A * estate A) : pv_obj B * profile B * estate B :=
  (rn_pv_obj (fst (fst x)), rn_profile f (snd (fst x)), rn_state f (snd x)).

(* the veto loop: (index reached, vetoed-out candidate if any, recorded tiebreaks) *)
Definition rn_veto (x : nat * option A * list (cset A * ranking A))
  : nat * option B * list (cset B * ranking B) :=
  (fst (fst x), option_map f (snd (fst x)), map (rn_tiebreak f) (snd x)).

End Rename2.
Arguments rn_status {A B}%type_scope f%function_scope _.
Arguments rn_step {A B}%type_scope f%function_scope _.
Arguments rn_pv_obj {A B}%type_scope f%function_scope _.
Arguments rn_pv_step {A B}%type_scope f%function_scope _.
Arguments rn_veto {A B}%type_scope f%function_scope _.
