(* Spec/MetricSpecR.v — finite sums of real numbers, for the root-free Minkowski form of the
   triangle inequality of property C19 (general p).  Kept apart from MetricSpec.v so that only the
   theorems that mention real numbers depend on the axioms of Coq.Reals. *)
From Coq Require Import Reals List.
Import ListNotations.
Open Scope R_scope.

Definition rsum (l : list R) : R := fold_right Rplus 0 l.

(* sum over the index list K of (v k)^p *)
Definition pow_sum {A : Type} (p : nat) (v : A -> R) (K : list A) : R :=
  rsum (map (fun k => v k ^ p) K).
