(* Spec/SampleSpec.v — C03, the random (Cambridge) transfer as a LAW: vocabulary only, no proofs.
   random_transfer expands every transferable ballot of the winner into int(weight) unit ballots
   and calls random.sample(units, k).  random.sample(population, k) is specified as the first k
   elements of a uniformly random permutation of the population (CPython: "the resulting list is in
   selection order so that all sub-slices will also be valid random samples"); the uniform
   permutation law is [Laws.uperm], the trusted primitive of C17. *)
From VK Require Import Base Core STV Laws.
From VK.Spec Require Import LawSpec.

(* ---------- random.sample on positions ---------- *)

(* the law of the POSITIONS (0-based indices into the population) chosen by
   random.sample(population of size n, k): the first k entries of a uniform permutation of 0..n-1 *)
Definition usample (n k : nat) : dist (list nat) :=
  dbind (uperm nat (seq 0 n)) (fun o => dret (firstn k o)).

(* unit number i is among the chosen ones *)
Definition selected (i : nat) (idxs : list nat) : bool := memb nat Nat.eqb i idxs.

(* equality of two lists of positions *)
Definition idxs_eqb (a b : list nat) : bool := LawSpec.list_eqb nat Nat.eqb a b.

(* the elements standing at the chosen positions *)
Definition pick {A} (dflt : A) (us : list A) (idxs : list nat) : list A :=
  map (fun i => nth i us dflt) idxs.

(* expectation of a rational-valued function under a finite distribution *)
Definition expect {A} (f : A -> Q) (d : dist A) : Q := qsum (map (fun aw => snd aw * f (fst aw)) d).

Section WithCand.
Variable cand : Type.

Notation ranking := (ranking cand).

(* the unit ballots handed to random.sample: int(weight) copies of each population entry, in
   order (Python: [Ballot(ranking, weight 1)] * int(weight); a non-positive count gives no copy) *)
Definition units (pop : list (ranking * Q)) : list ranking :=
  concat (map (fun p => repeat (fst p) (Z.to_nat (Qtrunc (snd p)))) pop).

(* the law of the list of rankings returned by random.sample(units pop, k) *)
Definition law_sample_ballots (pop : list (ranking * Q)) (k : nat) : dist (list ranking) :=
  dbind (usample (length (units pop)) k) (fun idxs => dret (pick [] (units pop) idxs)).

End WithCand.
