(* Spec/ScoreSpec.v — small, readable specification vocabulary for C04 (positional scoring and
   top-m election), written from the English of the property, independently of the model code. *)
From VK Require Import Base Core.

Section WithCand.
Variable cand : Type.
Variable ceqb : cand -> cand -> bool.

Notation cset := (cset cand).
Notation ranking := (ranking cand).
Notation ballot := (ballot cand).
Notation profile := (profile cand).
Notation scores := (scores cand).

(* ---------- well-formed input ---------- *)

(* a ranked ballot over the candidate list [cs]: at least one position, no empty position, no
   candidate listed twice (so positions are duplicate-free and pairwise disjoint), only known
   candidates *)
Definition wf_ranking (cs : cset) (r : ranking) : Prop :=
  r <> [] /\ Forall (fun g => g <> []) r /\ NoDup (flat cand r) /\ incl (flat cand r) cs.

Definition wf_profile (p : profile) : Prop :=
  NoDup (cands p) /\ Forall (fun b => wf_ranking (cands p) (rk b)) (ballots p).

(* non-increasing and non-negative *)
Fixpoint non_increasing (v : list Q) : Prop :=
  match v with
  | [] => True
  | x :: v' => (match v' with [] => True | y :: _ => y <= x end) /\ non_increasing v'
  end.
Definition valid_vector (v : list Q) : Prop := Forall (fun x => 0 <= x) v /\ non_increasing v.

(* ---------- the allocation of one ballot, from the English ---------- *)

(* entry i of the score vector; positions beyond its end are worth 0 *)
Definition entry (v : list Q) (i : nat) : Q := nth i v 0.

(* mean of the k entries i, i+1, ..., i+k-1 *)
Definition span_mean (v : list Q) (i k : nat) : Q := qsum (map (entry v) (seq i k)) / Qnat k.

(* a candidate listed on the ballot: the mean of the entries spanned by its position group, the
   group starting at offset [i] *)
Fixpoint listed_alloc (v : list Q) (i : nat) (r : ranking) (c : cand) : Q :=
  match r with
  | [] => 0
  | g :: r' => if memb cand ceqb c g then span_mean v i (length g)
               else listed_alloc v (i + length g) r' c
  end.

(* points candidate [c] of the candidate list [cs] receives from a ballot with ranking [r]:
   listed candidates as above; the unlisted ones share the next |cs| - |listed| entries equally *)
Definition ballot_alloc (cs : cset) (v : list Q) (r : ranking) (c : cand) : Q :=
  let listed := length (flat cand r) in
  if memb cand ceqb c (flat cand r) then listed_alloc v 0 r c
  else span_mean v listed (length cs - listed).

(* the score of [c] recorded in a score list *)
Definition has_score (d : scores) (c : cand) (q : Q) : Prop := In (c, q) d.

(* ---------- tie-breaking by first-place votes / Borda needs the tied candidates to be
   candidates of a duplicate-free profile ---------- *)
Definition tb_profile_ok (p : option profile) (tb : option tb_kind) (cs : cset) : Prop :=
  match tb with
  | Some TBFirstPlace | Some TBBorda =>
      forall pr, p = Some pr -> NoDup (cands pr) /\ incl cs (cands pr)
  | _ => True
  end.

End WithCand.
