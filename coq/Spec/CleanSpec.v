(* Spec/CleanSpec.v — specification vocabulary for the cleaning-module part of property C12
   (Model/Cleaning.v).  Definitions only, no proofs. *)
From VK Require Import Base Core Cleaning EditSpec.

Section WithCand.
Variable cand : Type.
Variable ceqb : cand -> cand -> bool.

(* l1 is l2 with some elements struck out (relative order kept) *)
Inductive subseq {A : Type} : list A -> list A -> Prop :=
| subseq_nil : subseq [] []
| subseq_skip : forall x l1 l2, subseq l1 l2 -> subseq l1 (x :: l2)
| subseq_keep : forall x l1 l2, subseq l1 l2 -> subseq (x :: l1) (x :: l2).

(* every position holds exactly one candidate (the ballots the loaders produce) *)
Definition untied (r : ranking cand) : Prop := Forall (fun s => exists c, s = [c]) r.

(* no two positions are equal as sets *)
Definition distinct_positions (r : ranking cand) : Prop :=
  ForallOrdPairs (fun s t => cset_eqb cand ceqb s t = false) r.

(* the position is exactly {x} for a listed non-candidate x *)
Definition noncand_pos (non : cset cand) (s : cset cand) : bool :=
  existsb (fun x => cset_eqb cand ceqb s [x]) non.

(* what remove_noncands makes of a ranking: non-candidate positions struck out, then repeated
   positions struck out (first occurrence kept) *)
Definition cleaned (non : cset cand) (r : ranking cand) : ranking cand :=
  dedup_positions cand ceqb [] (filter (fun s => negb (noncand_pos non s)) r).

Definition rankless (b : ballot cand) : bool := negb (nonempty (rk b)).

(* x is a voter of some ballot of the group *)
Definition voter_of (g : list (ballot cand)) (x : positive) : Prop :=
  exists b l, In b g /\ vs b = Some l /\ In x l.

(* the voter set of a merged ballot: the union of the voter sets of the group, None if the group
   has no voter at all *)
Definition merged_voters (g : list (ballot cand)) (v : option (list positive)) : Prop :=
  match v with
  | None => forall x, ~ voter_of g x
  | Some l => (exists x, voter_of g x) /\ forall x, In x l <-> voter_of g x
  end.

(* b is the merge of the (non-empty) group g *)
Definition merged_from (g : list (ballot cand)) (b : ballot cand) : Prop :=
  exists b0 rest, g = b0 :: rest /\ rk b = rk b0 /\ wt b = qsum (map wt g) /\
                  sc b = [] /\ bid b = None /\ merged_voters g (vs b).

End WithCand.

Arguments subseq {A}.
