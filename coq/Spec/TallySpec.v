(* Spec/TallySpec.v — vocabulary for the last sentence of C02: "the tallies and candidate order
   reported for each round are exactly the first-place weights of the ballots that result from
   these steps".  Definitions only; facts are in Proofs/C02_tallies.v.
   [tally c bs] (Spec/STVSpec.v) is the summed weight of the ballots of bs whose first position
   is c. *)
From VK Require Import Base Core STV EditSpec.
From VK.Spec Require Import STVSpec.
From Coq Require Import Permutation.

Section WithCand.
Variable cand : Type.
Variable ceqb : cand -> cand -> bool.

Notation profile := (profile cand).
Notation ranking := (ranking cand).
Notation scores := (scores cand).
Notation flat := (flat cand).
Notation tally := (tally cand ceqb).

(* the score dictionary d has one entry per candidate of p (in the order of [cands p]) and the
   entry of c is c's current first-place tally in p *)
Definition scores_are_tallies (p : profile) (d : scores) : Prop :=
  map fst d = cands p /\ NoDup (map fst d) /\
  (forall c q, In (c, q) d -> q == tally c (ballots p)) /\
  (forall c, In c (cands p) -> exists q, In (c, q) d /\ q == tally c (ballots p)).

(* the ranking r lists the candidates of p, each once, grouped into the maximal classes of equal
   first-place tally, the classes in strictly descending order of tally.  (A profile without
   candidates is reported as the single empty group, the library's (frozenset(),).) *)
Definition ranked_by_tally (p : profile) (r : ranking) : Prop :=
  Permutation (flat r) (cands p) /\ NoDup (flat r) /\
  (cands p <> [] -> forall g, In g r -> g <> []) /\
  (cands p = [] -> r = [[]]) /\
  (* same group -> same tally *)
  (forall g a b, In g r -> In a g -> In b g -> tally a (ballots p) == tally b (ballots p)) /\
  (* earlier group -> strictly larger tally (hence: same tally -> same group) *)
  (forall pre g1 mid g2 post a b, r = pre ++ g1 :: mid ++ g2 :: post -> In a g1 -> In b g2 ->
     tally b (ballots p) < tally a (ballots p)) /\
  (* maximality of the classes, explicitly *)
  (forall a b, In a (cands p) -> In b (cands p) ->
     ((exists g, In g r /\ In a g /\ In b g) <-> tally a (ballots p) == tally b (ballots p))).

End WithCand.
