(* Spec/McmcLinkSpec.v — vocabulary that connects the MCMC step FUNCTIONS of Model/Generators.v
   (bt_mcmc_step, slate_mcmc_step: a proposal position j and a number u are given, the swap is made
   iff u < acceptance value) with the transition MATRIX [swap_kernel] of Spec/GenLaws.v.
   u is the value of random.random(), uniform on [0,1): the probability that the step from x with
   proposal position j lands on y is the LENGTH of { u in [0,1) | step x (j,u) = y }.  That set is
   an interval [step_lo, step_hi); its length is [step_len].
   [acc x j] is the acceptance value the step compares u with (bt_accept iv / slate_accept own c).
   Definitions only; no proofs. *)
From VK Require Import Base Core GenValidation PrefInterval Generators Laws.
From VK.Spec Require Import GenLaws.

(* left end: 0 when the swapped state is y (u small = accepted), min(1, acc) when only "stay" gives y *)
Definition step_lo (acc : list positive -> nat -> Q) (x : list positive) (j : nat) (y : list positive) : Q :=
  if list_peqb (swap_adj j x) y then 0
  else if list_peqb x y then Qmin1 (acc x j) else 0.

(* right end: 1 when staying gives y (u large = rejected), min(1, acc) when only the swap gives y *)
Definition step_hi (acc : list positive -> nat -> Q) (x : list positive) (j : nat) (y : list positive) : Q :=
  if list_peqb x y then 1
  else if list_peqb (swap_adj j x) y then Qmin1 (acc x j) else 0.

Definition step_len (acc : list positive -> nat -> Q) (x : list positive) (j : nat) (y : list positive) : Q :=
  step_hi acc x j y - step_lo acc x j y.

(* the state after running the chain over a list of (proposal, u) pairs *)
Definition chain_state {S X : Type} (step : S -> X -> S) (cur : S) (steps : list X) : S :=
  fold_left step steps cur.
