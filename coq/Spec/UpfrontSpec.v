(* Spec/UpfrontSpec.v — the checks each election class makes on its arguments and on the profile
   before it looks at any vote count (constructor argument checks, then _validate_profile), in the
   order the constructors make them.  Used by C20: a request refused by these checks is refused
   whatever the random source would have produced.  Definitions only. *)
From VK Require Import Base Core STV Pairwise Rules PV.
From VK.Spec Require Import OneShotSpec.

Section WithCand.
Variable cand : Type.

Notation profile := (profile cand).

Definition upfront (r : rule) (p : profile) : res unit :=
  match r with
  | RSTV cfg => let! _ := stv_init cand cfg p in ok tt
  | RPlurality _ _ | RDominating | RCondoBorda _ | RTopTwo _ => ranking_validate cand p
  | RBorda _ v _ =>
      let! _ := validate_vector (match v with Some (x :: l) => x :: l | _ => default_borda cand p end) in
      ranking_validate cand p
  | RRating m L k _ => let! _ := rating_args m L k in rating_validate cand L k p
  | RLimited m k _ =>
      if Qlt_bool (inject_Z m) k then err EValue
      else let! _ := rating_args m k (Some k) in rating_validate cand k (Some k) p
  | RBloc m k _ =>
      let! _ := rating_args m 1 (Some (inject_Z (bloc_budget m k))) in
      rating_validate cand 1 (Some (inject_Z (bloc_budget m k))) p
  | RAlaska m1 m2 _ => let! _ := alaska_args m1 m2 in ranking_validate cand p
  | RRandomDictator m | RBoosted m => let! _ := dictator_args cand m p in ranking_validate cand p
  end.

(* PluralityVeto: the profile first, then the seat count *)
Definition pv_upfront (m : Z) (p : profile) : res unit :=
  let! _ := pv_validate cand p in
  if (m <=? 0)%Z then err EValue
  else if (Z.of_nat (length (cands p)) <? m)%Z then err EValue else ok tt.

End WithCand.
