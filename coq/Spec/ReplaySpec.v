(* Spec/ReplaySpec.v — vocabulary for the multi-round part of C09 (get_profile of a finished STV
   election replays the count): the trace of a count.  Definitions only; facts are in
   Proofs/C09_replay.v. *)
From VK Require Import Base Core STV Rules.
From VK.Spec Require Import STVSpec.

Section WithCand.
Variable cand : Type.
Variable ceqb : cand -> cand -> bool.

Notation profile := (profile cand).
Notation estate := (estate cand).
Notation mstate := (mstate cand).

(* [ps], [sts], [ss] list, round by round (round 0 first), the profile the count had after the
   round, the record stored for the round, and the state of the random source after the round:
   - the record of round r reports the first-place tallies of the profile after round r;
   - round r+1 is one [stv_step] from (profile, record) of round r to those of round r+1, with
     threshold [t], initial profile [p0], and — as its "number elected so far" — the candidates
     elected in the records of rounds 0..r. *)
Definition stv_trace (cfg : stv_cfg) (t : Q) (p0 : profile) (sts : list estate)
           (ps : list profile) (ss : list mstate) : Prop :=
  length ps = length sts /\ length ss = length sts /\
  (forall r pr st, nth_error ps r = Some pr -> nth_error sts r = Some st ->
     state_of cand ceqb pr st) /\
  (forall r pr st sa pr' st' sb,
     nth_error ps r = Some pr -> nth_error sts r = Some st -> nth_error ss r = Some sa ->
     nth_error ps (S r) = Some pr' -> nth_error sts (S r) = Some st' ->
     nth_error ss (S r) = Some sb ->
     stv_step cand ceqb cfg t p0 (count_elected cand (firstn (S r) sts)) pr st sa
       = inl ((pr', st'), sb)).

End WithCand.
