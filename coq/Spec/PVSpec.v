(* Spec/PVSpec.v — small, readable vocabulary for the run-level statements about PluralityVeto
   (Model/PV.v): the unit ballots the rule works on, the first-place tallies it starts from, the
   shape of a finished run, what a recorded tie-break is, and the run with an explicit bound on the
   number of rounds (to say "never terminates").  Definitions only. *)
From VK Require Import Base Core STV Rules PV.
From VK.Spec Require Import ScoreSpec.
From Coq Require Import Permutation.

Section WithCand.
Variable cand : Type.
Variable ceqb : cand -> cand -> bool.

Notation cset := (cset cand).
Notation ranking := (ranking cand).
Notation ballot := (ballot cand).
Notation profile := (profile cand).
Notation scores := (scores cand).
Notation estate := (estate cand).
Notation M := (M cand).

(* no ballot of the profile has a tied position *)
Definition pv_untied (p : profile) : bool := negb (existsb (has_tie cand) (ballots p)).

(* the ballots of weight one the rule works on (a ballot of integer weight w is copied w times),
   and the profile they form *)
Definition pv_unit_ballots (p : profile) : list ballot := decondense cand (ballots p).
Definition pv_unit_profile (p : profile) : profile := mkProfile (pv_unit_ballots p) (cands p).

(* round 0: everybody remaining, grouped by first-place tally [d0] *)
Definition pv_start_state (d0 : scores) : estate :=
  state_of_scores cand 0 (no_group cand) (no_group cand) [] d0.

(* the candidates without a positive tally, and how many have one *)
Definition pv_zero_tally (d : scores) : list cand :=
  map fst (filter (fun q => Qle_bool (snd q) 0) d).
Definition pv_positive_count (d : scores) : nat :=
  length (filter (fun q : cand * Q => negb (Qle_bool (snd q) 0)) d).

(* the last round: whoever remained after [prev] is elected, nobody else is touched *)
Definition pv_elect_state (prev : estate) : estate :=
  mkState (rnd prev + 1) (no_group cand) (remaining prev) (no_group cand) [] [].

(* a recorded tie-break: at least two candidates of the profile, and a strict order of exactly
   that set *)
Definition pv_tiebreak_ok (cs : cset) (x : cset * ranking) : Prop :=
  (2 <= length (fst x))%nat /\ NoDup (fst x) /\ incl (fst x) cs /\
  exists l, snd x = singletons cand l /\ Permutation l (fst x).

(* shape of a finished run over the candidates [cs], for [m] seats, from the tallies [d0]:
   round 0, then (unless there are as many seats as candidates) a round that removes every
   candidate without a positive tally and the first candidate struck out, then rounds that remove
   exactly one candidate each, then the electing round; nobody is elected before the last round;
   every round records at most one tie-break *)
Definition pv_run_shape (cs : cset) (m : Z) (d0 : scores) (sts : list estate) : Prop :=
  exists mids prev,
    sts = (pv_start_state d0 :: mids) ++ [pv_elect_state prev] /\
    last (pv_start_state d0 :: mids) (pv_start_state d0) = prev /\
    Forall (fun st => elected st = [[]]) (pv_start_state d0 :: mids) /\
    match mids with
    | [] => m = Z.of_nat (length cs)
    | st1 :: later =>
        (m < Z.of_nat (length cs))%Z /\
        (exists c, In c cs /\ eliminated st1 = [dedup cand ceqb (pv_zero_tally d0 ++ [c])]) /\
        Forall (fun st => exists c, eliminated st = [[c]]) later
    end /\
    Forall (fun st => Forall (pv_tiebreak_ok cs) (tiebreaks st) /\ (length (tiebreaks st) <= 1)%nat) sts.

(* the errors a configured tie-break rule [tb] can cause during a run: a replay script that does
   not fit (random draws), an unknown rule name, or a scored rule applied to a profile holding an
   exhausted ballot *)
Definition pv_tiebreak_error (tb : option tb_kind) (e : exn) : Prop :=
  (tb <> None /\ e = EScript) \/ (tb = Some TBInvalid /\ e = EValue) \/
  ((tb = Some TBFirstPlace \/ tb = Some TBBorda) /\ e = EType).

(* the scripted outcome of numpy.random.shuffle is missing, of the wrong kind, or not an ordering of
   the [nb] voters *)
Definition pv_shuffle_rejected (nb : nat) (s : mstate cand) : Prop :=
  match scr s with
  | DIdxs order :: _ => is_perm_nat order nb = false
  | _ => True
  end.

(* [run_pv] with the bound on the number of rounds as a parameter ([run_pv] uses
   2 * candidates + 4): an [EFuel] answer for every bound is the model's way of saying that the
   real loop never stops *)
Definition run_pv_fuel (fuel : nat) (m : Z) (tb : option tb_kind) (p : profile) : M (list estate) :=
  do! _ := mlift (pv_validate cand p) in
  if (m <=? 0)%Z then mfail EValue
  else if (Z.of_nat (length (cands p)) <? m)%Z then mfail EValue
  else
    do! _ := (match tb with
              | None => if existsb (has_tie cand) (ballots p) then mfail EAttr else mret tt
              | Some _ => mret tt
              end) in
    let bs := decondense cand (ballots p) in
    do! dp := mlift (mk_profile cand ceqb bs (cands p)) in
    do! d0 := next_draw cand (CShuffle (length bs)) in
    match d0 with
    | DIdxs order =>
        if negb (is_perm_nat order (length bs)) then mfail EScript
        else
          do! _ := mlift (ranking_validate cand dp) in
          do! s0 := mlift (round0 cand ceqb SKFpv dp) in
          pv_loop cand ceqb fuel m tb (length (cands dp)) (mkPV cand order bs []) dp [s0]
    | _ => mfail EScript
    end.

End WithCand.
