(* Spec/BTSpec.v — specification vocabulary for C15 (preference intervals, Bradley-Terry tables).
   Small, readable definitions only; no proofs. *)
From VK Require Import Base Core GenValidation PrefInterval.
From Coq Require Import Permutation.

(* product of a list of rationals *)
Definition qprod (l : list Q) : Q := fold_right Qmult 1 l.

(* all pairs (l_i, l_j) with i < j, i.e. "l_i is above l_j" *)
Fixpoint ordered_pairs {A : Type} (l : list A) : list (A * A) :=
  match l with
  | [] => []
  | a :: l' => map (pair a) l' ++ ordered_pairs l'
  end.

(* Bradley-Terry weight of a ranking: product over ordered pairs (a above b) of x_a / (x_a + x_b) *)
Definition bt_weight (x : pcand -> Q) (r : list pcand) : Q :=
  qprod (map (fun p => x (fst p) / (x (fst p) + x (snd p))) (ordered_pairs r)).

(* number of pairs i < j with t_i = up and t_j = down ("up above down") *)
Definition above_pairs (up down : bloc) (t : list bloc) : nat :=
  length (filter (fun p => Pos.eqb up (fst p) && Pos.eqb down (snd p)) (ordered_pairs t)).

(* slate-Bradley-Terry weight of a ballot type *)
Definition slate_weight (c : Q) (own opp : bloc) (t : list bloc) : Q :=
  Qpow' c (above_pairs own opp t) * Qpow' (1 - c) (above_pairs opp own t).

(* a normalised preference interval: positive shares summing to one *)
Definition wf_interval (i : pinterval) : Prop :=
  (forall c v, In (c, v) (pi_int i) -> 0 < v) /\ qsum (map snd (pi_int i)) == 1.

(* [L] enumerates, without repetition, exactly the rearrangements of [l] *)
Definition enumerates {A : Type} (L : list (list A)) (l : list A) : Prop :=
  NoDup L /\ forall t, In t L <-> Permutation t l.
