(* Spec/Anon.v — specification vocabulary for the anonymity / representation-independence half of
   property C08.  Two lists of ballots are "the same electorate" when every ballot content
   ((ranking, scores) pair, positions compared as sets) carries the same total weight in both:
   this single relation covers reordering the ballots, splitting a ballot into several of the same
   content, merging, and condensing.  Outcomes are compared up to the order inside a group
   (groups are sets) and up to [==] on rational tallies.  Only definitions here. *)
From Coq Require Import Permutation.
From VK Require Import Base Core STV Pairwise Rules.
From VK.Spec Require Import Content ScoreSpec EditSpec.

Section Anon.
Variable cand : Type.
Variable ceqb : cand -> cand -> bool.

(* same weight on every content *)
Definition dist_eq (bs bs' : list (ballot cand)) : Prop :=
  forall k, wtof cand ceqb k bs == wtof cand ceqb k bs'.

(* the same ranking up to the order of the candidates inside each group *)
Definition groups_equiv (r r' : ranking cand) : Prop := Forall2 (@Permutation cand) r r'.

(* the same score dictionary: same keys (in any order), [==] values *)
Definition scores_equiv (d d' : scores cand) : Prop :=
  Permutation (map fst d) (map fst d') /\
  forall c q q', In (c, q) d -> In (c, q') d' -> q == q'.

(* the same recorded tiebreak *)
Definition tiebreak_equiv (t t' : cset cand * ranking cand) : Prop :=
  Permutation (fst t) (fst t') /\ groups_equiv (snd t) (snd t').

(* the same round *)
Definition state_equiv (s s' : estate cand) : Prop :=
  rnd s = rnd s' /\
  groups_equiv (remaining s) (remaining s') /\
  groups_equiv (elected s) (elected s') /\
  groups_equiv (eliminated s) (eliminated s') /\
  Forall2 tiebreak_equiv (tiebreaks s) (tiebreaks s') /\
  scores_equiv (escores s) (escores s').

(* the same profile: same electorate, same candidates in any order *)
Definition profile_equiv (p p' : profile cand) : Prop :=
  dist_eq (ballots p) (ballots p') /\ Permutation (cands p) (cands p').

(* two results that fail with the same error or succeed with related values *)
Definition res_equiv {A : Type} (R : A -> A -> Prop) (x y : res A) : Prop :=
  match x, y with
  | inl a, inl b => R a b
  | inr e, inr e' => e = e'
  | _, _ => False
  end.

(* two monadic results: additionally the draw script and call log left behind are identical *)
Definition mres_equiv {A : Type} (R : A -> A -> Prop) (x y : res (A * mstate cand)) : Prop :=
  res_equiv (fun a b => R (fst a) (fst b) /\ snd a = snd b) x y.

(* the same answer of elect_cands_from_set_ranking when no tiebreak was needed:
   (elected, remaining, no recorded tiebreak) *)
Definition elect_equiv (x y : ranking cand * ranking cand * option (cset cand * ranking cand)) : Prop :=
  groups_equiv (fst (fst x)) (fst (fst y)) /\ groups_equiv (snd (fst x)) (snd (fst y)) /\
  snd x = None /\ snd y = None.

(* ---- input domains ---- *)
(* ranked ballots: ScoreSpec.wf_profile, EditSpec.score_free; all weights >= 0 *)
Definition nonneg_wts (bs : list (ballot cand)) : Prop := Forall (fun b => 0 <= wt b) bs.

(* rated ballots: a non-empty score map without repeated keys, all keys declared; no ranking *)
Definition wf_rated_ballot (cs : cset cand) (b : ballot cand) : Prop :=
  rk b = [] /\ sc b <> [] /\ NoDup (map fst (sc b)) /\ incl (map fst (sc b)) cs.
Definition wf_rated_profile (p : profile cand) : Prop :=
  NoDup (cands p) /\ Forall (wf_rated_ballot (cands p)) (ballots p).

(* domain of the one-shot rules: non-negative weights; ranked, score-free, well-formed ballots for
   the positional kinds, rated ballots for the ballot-score kind *)
Definition one_shot_domain (k : score_kind) (p : profile cand) : Prop :=
  nonneg_wts (ballots p) /\
  match k with
  | SKBallotScores => wf_rated_profile p
  | _ => wf_profile cand p /\ EditSpec.score_free cand (ballots p)
  end.

(* ---- the STV family ---- *)
(* an untied ranked ballot over [cs]: non-empty ranking of single candidates, nobody listed twice,
   only declared candidates, no scores, weight >= 0 *)
Definition stv_ballot_ok (cs : cset cand) (b : ballot cand) : Prop :=
  rk b <> [] /\ Forall (fun g => length g = 1%nat) (rk b) /\ NoDup (flat cand (rk b)) /\
  incl (flat cand (rk b)) cs /\ 0 <= wt b /\ sc b = [].
Definition stv_domain (p : profile cand) : Prop :=
  NoDup (cands p) /\ Forall (stv_ballot_ok (cands p)) (ballots p).

(* the round [st] reports tallies for exactly the candidates of [p], and its remaining-ranking is
   those tallies sorted (what initial_state and every step produce) *)
Definition stv_state_ok (p : profile cand) (st : estate cand) : Prop :=
  map fst (escores st) = cands p /\
  remaining st = score_to_ranking cand (escores st) true.

(* one step, related: same next profile, same next round, and both stay in the domain *)
Definition stv_step_equiv (x y : profile cand * estate cand) : Prop :=
  profile_equiv (fst x) (fst y) /\ state_equiv (snd x) (snd y) /\
  stv_domain (fst x) /\ stv_domain (fst y) /\
  stv_state_ok (fst x) (snd x) /\ stv_state_ok (fst y) (snd y).

End Anon.
