(* Spec/RatingSpec.v — small, readable vocabulary for C05 / C20: what the score-ballot rules
   (GeneralRating and its subclasses) require of their arguments and of every ballot, written
   from the English of the properties, independently of the model code. *)
From VK Require Import Base Core.

Section WithCand.
Variable cand : Type.

Notation ballot := (ballot cand).
Notation profile := (profile cand).

(* GeneralRating(m, L, k): at least one seat, a positive per-candidate limit, and, when a budget
   is given, a positive budget not below the per-candidate limit *)
Definition rating_args_ok (m : Z) (L : Q) (k : option Q) : Prop :=
  (1 <= m)%Z /\ 0 < L /\
  match k with None => True | Some k' => 0 < k' /\ L <= k' end.

(* ... and the violations, in the order the constructor tests them *)
Definition rating_args_bad (m : Z) (L : Q) (k : option Q) : Prop :=
  (m <= 0)%Z \/ L <= 0 \/ exists k', k = Some k' /\ (k' <= 0 \/ k' < L).

(* a ballot acceptable to GeneralRating(L, k): it carries scores (zero scores were dropped when
   the ballot was built, so "no non-zero score" is "no scores"), each score lies in [0, L], and
   the scores sum to at most the budget when there is one *)
Definition score_ballot_ok (L : Q) (k : option Q) (b : ballot) : Prop :=
  sc b <> [] /\
  (forall c q, In (c, q) (sc b) -> 0 <= q /\ q <= L) /\
  match k with None => True | Some k' => qsum (map snd (sc b)) <= k' end.

Definition score_ballot_bad (L : Q) (k : option Q) (b : ballot) : Prop :=
  sc b = [] \/
  (exists c q, In (c, q) (sc b) /\ (L < q \/ q < 0)) \/
  (exists k', k = Some k' /\ k' < qsum (map snd (sc b))).

(* the total of candidate c: sum over ballots of (score given to c, 0 if none) times weight *)
Definition score_total (ceqb : cand -> cand -> bool) (p : profile) (c : cand) : Q :=
  qsum (map (fun b => lookup0 cand ceqb c (sc b) * wt b) (ballots p)).

End WithCand.
