(* Spec/AnonRules2.v — vocabulary for Properties/C08_scripts2.v (anonymity of the rules with EVERY
   tiebreak setting and EVERY draw script, and the "whenever no random tiebreak is recorded"
   reading of C08), on top of Spec/Anon.v and Spec/AnonRules.v.  Only definitions here. *)
From Coq Require Import Permutation.
From VK Require Import Base Core STV Pairwise Rules.
From VK.Spec Require Import Content ScoreSpec EditSpec Anon AnonRules TieSpec.

Section AnonRules2.
Variable cand : Type.
Variable ceqb : cand -> cand -> bool.

Notation profile := (profile cand).
Notation estate := (estate cand).

(* "no random tiebreak is recorded": no round of the run carries a tiebreak record *)
Definition no_tiebreaks (sts : list estate) : Prop := Forall (fun st => tiebreaks st = []) sts.

(* the tiebreak rules that re-score the tied candidates from the RANKINGS of the profile *)
Definition scored_tb (tb : option tb_kind) : Prop := tb = Some TBFirstPlace \/ tb = Some TBBorda.

(* on rated ballots (which carry no ranking) first_place_votes / borda_scores raise TypeError on the
   first ballot, whatever its weight, but succeed on a profile WITHOUT ballots: the two profiles
   must agree on having ballots at all when such a tiebreak rule is configured *)
Definition rated_tiebreak_ok (tb : option tb_kind) (p p' : profile) : Prop :=
  scored_tb tb -> (ballots p = [] <-> ballots p' = []).

(* Alaska replays its STV stage (get_profile) and the replay draws again, so it may leave the
   recorded run.  The theorem is proved when the replayed simultaneous election cannot divide by a
   zero tally: one-by-one mode, or Droop quota (threshold >= 1), or the full-weight transfer *)
Definition alaska_script_ok (cfg : stv_cfg) : Prop :=
  s_simul cfg = false \/ s_quota cfg = QDroop \/ s_transfer cfg = TFullWeight.

(* the input domain on which each deterministic rule (TieSpec.deterministic) is proved anonymous;
   nothing is claimed here for the two dictator rules (see c08_dictator_runs) *)
Definition anon_domain (r : rule) (p : profile) : Prop :=
  match r with
  | RSTV _ | RAlaska _ _ _ => stv_domain cand p
  | RPlurality _ _ | RTopTwo _ => one_shot_domain cand SKFpv p
  | RBorda _ _ _ | RCondoBorda _ => one_shot_domain cand SKBorda p
  | RRating _ L k _ => rating_domain cand L k p
  | RLimited _ k _ => rating_domain cand k (Some k) p
  | RBloc m k _ => rating_domain cand 1 (Some (inject_Z (bloc_limit m k))) p
  | RDominating => pw_domain cand p
  | RRandomDictator _ | RBoosted _ => False
  end.

(* the two caveats of the every-script theorems, per rule *)
Definition script_caveats (r : rule) (p p' : profile) : Prop :=
  match r with
  | RRating _ _ _ tb | RLimited _ _ tb | RBloc _ _ tb => rated_tiebreak_ok tb p p'
  | RAlaska _ _ cfg => alaska_script_ok cfg
  | _ => True
  end.

End AnonRules2.
