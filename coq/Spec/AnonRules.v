(* Spec/AnonRules.v — vocabulary for the rule-level part of the anonymity / representation
   independence half of C08 (Properties/C08_rules.v), on top of Spec/Anon.v.

   Note on scores: the content relation behind [dist_eq] (Spec/Content.v, [same_content]) compares
   the ranking AND the score map of a ballot, so [dist_eq] / [profile_equiv] are already the right
   notion of "same electorate" for rated ballots; no separate score-aware relation is needed.

   Only definitions here. *)
From Coq Require Import Permutation.
From VK Require Import Base Core STV Pairwise Rules PV Laws.
From VK.Spec Require Import Content ScoreSpec EditSpec Anon.

Section AnonRules.
Variable cand : Type.
Variable ceqb : cand -> cand -> bool.

Notation ballot := (ballot cand).
Notation profile := (profile cand).
Notation ranking := (ranking cand).
Notation scores := (scores cand).
Notation mstate := (mstate cand).

(* ---------- the pairwise layer ---------- *)

(* ranked ballots (ties and short ballots allowed), non-negative weights *)
Definition pw_domain (p : profile) : Prop := wf_profile cand p /\ nonneg_wts cand (ballots p).

(* the same pairwise dictionary: the same keys, [==] margins (entries in any order) *)
Definition dict_incl (es es' : list (cand * cand * Q)) : Prop :=
  forall a b v, In (a, b, v) es -> exists v', In (a, b, v') es' /\ v == v'.
Definition dict_equiv (es es' : list (cand * cand * Q)) : Prop := dict_incl es es' /\ dict_incl es' es.

(* the same pairwise comparison graph: same candidates, same dictionary, same dominating tiers
   (as sets, in the same order) *)
Definition pwc_equiv (g g' : pwc cand) : Prop :=
  Permutation (pw_cands g) (pw_cands g') /\ dict_equiv (pw_dict g) (pw_dict g') /\
  groups_equiv cand (pw_tiers g) (pw_tiers g').

(* ---------- elect_cands_from_set_ranking with a tiebreak rule ---------- *)
Definition opt_tiebreak_equiv (t t' : option (cset cand * ranking)) : Prop :=
  match t, t' with
  | Some x, Some y => tiebreak_equiv cand x y
  | None, None => True
  | _, _ => False
  end.
Definition elect_equiv_tb (x y : ranking * ranking * option (cset cand * ranking)) : Prop :=
  groups_equiv cand (fst (fst x)) (fst (fst y)) /\ groups_equiv cand (snd (fst x)) (snd (fst y)) /\
  opt_tiebreak_equiv (snd x) (snd y).

(* when a tiebreak rule may be used: none configured, or a ranked (positional) kind with an empty
   draw script — a tie that first-place votes / Borda scores do not resolve, or a "random" rule,
   then fails with EScript on both sides *)
Definition ranked_kind (k : score_kind) : Prop :=
  match k with SKBallotScores => False | _ => True end.
Definition det_tiebreak (k : score_kind) (tb : option tb_kind) (s : mstate) : Prop :=
  tb = None \/ (ranked_kind k /\ scr s = []).

(* ---------- the rating family ---------- *)
(* what GeneralRating._validate_profile accepts *)
Definition rating_ballot_ok (L : Q) (k : option Q) (b : ballot) : Prop :=
  (forall c q, In (c, q) (sc b) -> 0 <= q /\ q <= L) /\
  match k with Some k' => qsum (map snd (sc b)) <= k' | None => True end.
(* rated ballots, non-negative weights; a ballot of weight zero (invisible in the electorate) must
   be a valid rating *)
Definition rating_domain (L : Q) (k : option Q) (p : profile) : Prop :=
  one_shot_domain cand SKBallotScores p /\
  Forall (fun b => wt b == 0 -> rating_ballot_ok L k b) (ballots p).

(* the per-ballot limit BlocPlurality passes to GeneralRating: k, or m when k is 0 / missing *)
Definition bloc_limit (m : Z) (k : option Z) : Z :=
  match k with Some x => if Z.eqb x 0 then m else x | None => m end.

(* ---------- RandomDictator / BoostedRandomDictator ---------- *)
(* ranked, score-free, non-negative weights, and not "some ballots, all of weight zero" *)
Definition dictator_domain (p : profile) : Prop :=
  one_shot_domain cand SKFpv p /\ (ballots p <> [] -> 0 < total_wt cand (ballots p)).

(* the population handed to random.choices / random.sample: total weight of each ranking *)
Definition pop_weight (r : ranking) (pop : list (ranking * Q)) : Q :=
  qsum (map snd (filter (fun x => ranking_eqb cand ceqb r (fst x)) pop)).
Definition pop_equiv (pop pop' : list (ranking * Q)) : Prop :=
  forall r, pop_weight r pop == pop_weight r pop'.

(* the same probability table handed to numpy's choice: same keys in any order, and the same value
   for every candidate ([lookup0]: the value of the first entry for the candidate, 0 if absent) *)
Definition table_equiv (d d' : scores) : Prop :=
  Permutation (map fst d) (map fst d') /\ forall c, lookup0 cand ceqb c d == lookup0 cand ceqb c d'.

(* the same primitive call, up to the representation of its argument *)
Definition call_equiv (c c' : call cand) : Prop :=
  match c, c' with
  | CSample s, CSample s' => Permutation s s'
  | CChoices pop, CChoices pop' => pop_equiv pop pop'
  | CSampleBallots pop k, CSampleBallots pop' k' => pop_equiv pop pop' /\ k = k'
  | CUniform, CUniform => True
  | CNpChoice d, CNpChoice d' => table_equiv d d'
  | CShuffle n, CShuffle n' => n = n'
  | _, _ => False
  end.

(* the same state of the random source: the same draws left, equivalent calls logged *)
Definition mstate_equiv (s s' : mstate) : Prop :=
  scr s = scr s' /\ Forall2 call_equiv (lg s) (lg s').

(* two monadic results: same error, or related values leaving equivalent source states *)
Definition mres_equiv_log {A : Type} (R : A -> A -> Prop) (x y : res (A * mstate)) : Prop :=
  res_equiv (fun a b => R (fst a) (fst b) /\ mstate_equiv (snd a) (snd b)) x y.

(* the finite distribution over candidates is the same: every candidate has the same probability *)
Definition same_law (d d' : Laws.dist cand) : Prop :=
  forall c, Laws.prob (ceqb c) d == Laws.prob (ceqb c) d'.

(* ---------- PluralityVeto ---------- *)
(* whole-number weights (PluralityVeto de-condenses the profile into unit ballots) *)
Definition integral_wts (bs : list ballot) : Prop :=
  Forall (fun b => exists n : nat, wt b == Qnat n) bs.

End AnonRules.
