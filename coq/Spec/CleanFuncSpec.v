(* Spec/CleanFuncSpec.v — C12: cleaning.clean_profile(pp, clean_ballot_func) for an ARBITRARY
   cleaning function, expressed with the model's own pieces (Model/Cleaning.v).  The Python code is
     cleaned = map(clean_ballot_func, pp.ballots)
     grouped = groupby(cleaned, key=ranking);  new_ballots = [merge_ballots(g) for g in grouped]
     return PreferenceProfile(ballots=new_ballots)
   i.e. [merge_adjacent] applied to the cleaned ballots; the cleaning function may raise, in which
   case the first exception (in ballot order) propagates.  deduplicate_profiles and remove_noncands
   of Model/Cleaning.v are the instances with f = deduplicate_ballot / remove_noncands_ballot (the
   latter followed by dropping empty rankings).  No proofs. *)
From VK Require Import Base Core Cleaning.

Section WithCand.
Variable cand : Type.
Variable ceqb : cand -> cand -> bool.

Definition clean_profile (f : ballot cand -> res (ballot cand)) (p : profile cand) : res (profile cand) :=
  match rmap f (ballots p) with
  | inl cleaned => merge_adjacent cand ceqb cleaned
  | inr e => inr e
  end.

End WithCand.
