(* Spec/StatusSpec.v — small, readable vocabulary for the "status queries agree with the per-round
   records" half of C09, in terms of the Election queries of Model/Rules.v (get_elected,
   get_remaining, get_eliminated, get_status) and the vocabulary of Spec/QuerySpec.v.
   Definitions only. *)
From Coq Require Import List ZArith Permutation.
From VK Require Import Base Core STV Rules.
From VK.Spec Require Import ScoreSpec EditSpec STVSpec PairwiseSpec RunSpec QuerySpec.

Section WithCand.
Variable cand : Type.
Variable ceqb : cand -> cand -> bool.

Notation cset := (cset cand).
Notation ranking := (ranking cand).
Notation estate := (estate cand).
Notation flat := (flat cand).

(* get_status_df agrees with the other queries, at EVERY index i (positive or negative) that the
   queries accept: with e, m, x the answers of get_elected(i), get_remaining(i), get_eliminated(i)
   and t the status table (rows (candidate, (code, round))),
   - the table lists the candidates of e, then m, then x, in that order, and this is a
     rearrangement of the candidate list [cs] (every candidate has exactly one row);
   - a row says Elected iff its candidate is in e, Eliminated iff it is in x, Remaining iff it is
     in m;
   - a Remaining row carries the round addressed by i, and the row of a candidate that some round
     j in 1..r elected or eliminated carries that round j. *)
Definition status_agrees (cs : cset) (sts : list estate) : Prop :=
  forall (cs' : cset) (i : Z) (e m x : ranking) (t : list (cand * (Z * Z))),
    get_elected cand sts i = inl e -> get_remaining cand sts i = inl m ->
    get_eliminated cand sts i = inl x -> get_status cand ceqb cs' sts i = inl t ->
    map fst t = flat e ++ flat m ++ flat x /\
    Permutation (map fst t) cs /\
    forall c code rd, In (c, (code, rd)) t ->
      (code = st_elected <-> In c (flat e)) /\
      (code = st_eliminated <-> In c (flat x)) /\
      (code = st_remaining <-> In c (flat m)) /\
      (code = st_remaining -> rd = Z.of_nat (round_of (length sts) i)) /\
      (forall j s, (1 <= j <= round_of (length sts) i)%nat -> nth_error sts j = Some s ->
                   touched cand c s -> rd = Z.of_nat j).

(* an elected candidate is never later remaining or eliminated, and an eliminated candidate is
   never later remaining or elected: for rounds r <= r', whoever get_elected(r) names is named by
   get_elected(r') and by neither get_remaining(r') nor get_eliminated(r'); symmetrically for
   get_eliminated(r); and at r' nobody is listed twice *)
Definition statuses_exclusive (sts : list estate) : Prop :=
  forall (r r' : nat) (e x e' m' x' : ranking), (r <= r')%nat -> (r' < length sts)%nat ->
    get_elected cand sts (Z.of_nat r) = inl e -> get_eliminated cand sts (Z.of_nat r) = inl x ->
    get_elected cand sts (Z.of_nat r') = inl e' -> get_remaining cand sts (Z.of_nat r') = inl m' ->
    get_eliminated cand sts (Z.of_nat r') = inl x' ->
    NoDup (flat e' ++ flat m' ++ flat x') /\
    (forall c, In c (flat e) -> In c (flat e') /\ ~ In c (flat m') /\ ~ In c (flat x')) /\
    (forall c, In c (flat x) -> In c (flat x') /\ ~ In c (flat m') /\ ~ In c (flat e')).

(* the same on the records themselves: the partition invariant of Spec/QuerySpec.v holds for every
   candidate along the rounds 1, 2, ...: a round that elects or eliminates c does only one of the
   two, does not keep c as remaining, and no later round names c in any field *)
Definition all_settled (sts : list estate) : Prop :=
  forall c : cand, settled_once cand c (tl sts).

(* the round-0 record elects and eliminates nobody *)
Definition round0_blank (sts : list estate) : Prop :=
  exists s0 rest, sts = s0 :: rest /\ flat (elected s0) = [] /\ flat (eliminated s0) = [].

(* the three together: what a finished election guarantees about its status queries *)
Definition consistent_statuses (cs : cset) (sts : list estate) : Prop :=
  round0_blank sts /\ all_settled sts /\ statuses_exclusive sts /\ status_agrees cs sts.

(* the inputs on which the run-level theorems of C01 describe each rule (Properties/C01_rules.v,
   Properties/C01_stv.v): distinct candidates for the one-shot rules (Plurality / SNTV, Borda, the
   rating family) and TopTwo; untied ranked ballots for DominatingSets and CondoBorda;
   valid-or-empty STV input (and, for the random transfer, a script whose sampled rankings have
   singleton positions) for STV and Alaska; valid ranked ballots for the random dictators *)
Definition rule_domain (r : rule) (p : profile cand) (s : mstate cand) : Prop :=
  match r with
  | RSTV cfg | RAlaska _ _ cfg =>
      wf_stv0 cand p /\ (s_transfer cfg = TRandom -> script_ok cand s)
  | RPlurality _ _ | RBorda _ _ _ | RRating _ _ _ _ | RLimited _ _ _ | RBloc _ _ _ | RTopTwo _ =>
      NoDup (cands p)
  | RDominating | RCondoBorda _ => untied_profile cand p
  | RRandomDictator _ | RBoosted _ => ranked_profile cand p
  end.

End WithCand.
