(* Spec/TypesLawSpec.v — specification vocabulary for the closed form of the slate-Plackett-Luce
   ballot-type law (property C16, sample_cohesion_ballot_types).  Small, readable definitions only;
   no proofs. *)
From VK Require Import Base Core GenValidation PrefInterval Generators.
From VK.Spec Require Import GenSpec.

(* the slates of [blocs] that the partial type [acc] has not used up yet *)
Definition avail (sizes : list (bloc * nat)) (blocs acc : list bloc) : list bloc :=
  filter (fun b => Nat.ltb (count_bloc b acc) (size_of sizes b)) blocs.

(* P(t) = prod_i v(t_i) / (sum of v over the slates not used up by t_0 .. t_(i-1)); a position
   holding a slate that is already used up (or is not a slate at all) has probability 0.
   [acc] is the part of the type already drawn, most recent first. *)
Fixpoint types_closed (v : bloc -> Q) (sizes : list (bloc * nat)) (blocs acc t : list bloc) : Q :=
  match t with
  | [] => 1
  | b :: t' =>
      (if existsb (Pos.eqb b) (avail sizes blocs acc)
       then v b / qsum (map v (avail sizes blocs acc)) else 0)
      * types_closed v sizes blocs (b :: acc) t'
  end.
