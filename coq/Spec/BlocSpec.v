(* Spec/BlocSpec.v — vocabulary for the generator-side argument checks (C20):
   BallotGenerator.__init__ (bloc proportions / bloc names / cohesion rows) and
   combine_preference_intervals (disjoint candidate sets, proportions).
   Blocs and candidates are numbered (positive), dictionaries are association lists. *)
From VK Require Import Base.

(* round(x, 8) == 1, as the model reads it: |x - 1| < 5e-9 *)
Definition sums_to_one (q : Q) : Prop := 1 - (5 # 1000000000) < q /\ q < 1 + (5 # 1000000000).

(* dict.keys() == dict.keys(): the same set of names, whatever the order or repetitions *)
Definition same_names (a b : list positive) : Prop := forall x, In x a <-> In x b.

(* the total of a dictionary's values *)
Definition dict_total (d : list (positive * Q)) : Q := qsum (map snd d).

(* the four documented preconditions of the bloc parameters *)
Definition props_ok (props : list (positive * Q)) : Prop := sums_to_one (dict_total props).
Definition names_pi_ok (props : list (positive * Q)) (interval_keys : list positive) : Prop :=
  same_names (map fst props) interval_keys.
Definition names_coh_ok (props : list (positive * Q))
           (cohesion : list (positive * list (positive * Q))) : Prop :=
  same_names (map fst props) (map fst cohesion).
Definition row_ok (row : positive * list (positive * Q)) : Prop := sums_to_one (dict_total (snd row)).
Definition rows_ok (cohesion : list (positive * list (positive * Q))) : Prop :=
  forall row, In row cohesion -> row_ok row.

(* two of the candidate lists share a candidate / one list repeats a candidate *)
Definition overlapping (ls : list (list positive)) : Prop :=
  exists i j x, (i < j < length ls)%nat /\ In x (nth i ls []) /\ In x (nth j ls []).
Definition self_repeating (ls : list (list positive)) : Prop :=
  exists l, In l ls /\ ~ NoDup l.
