(* Spec/PCSpec.v — specification vocabulary for C07 (Droop proportionality for solid coalitions).
   Definitions only; facts are in Proofs/C07_lib.v and Proofs/C07_pc.v. *)
From VK Require Import Base Core STV EditSpec STVSpec.
From Coq Require Import Permutation.

Section WithCand.
Variable cand : Type.
Variable ceqb : cand -> cand -> bool.

Notation cset := (cset cand).
Notation ranking := (ranking cand).
Notation ballot := (ballot cand).
Notation profile := (profile cand).
Notation estate := (estate cand).

(* the ranking r puts the members of A above everybody else: it is [pre ++ suf] where the
   positions of [pre] list exactly the members of A, each once, in some order *)
Definition solid (A : cset) (r : ranking) : Prop :=
  exists pre suf, r = pre ++ suf /\ Permutation (flat cand pre) A.

(* the same with "the positions of [pre] mention exactly the members of A" (repetitions ignored);
   for a ranking that lists nobody twice and a duplicate-free A the two coincide
   ([solid_set_iff_solid] in Proofs/C07_lib.v) *)
Definition solid_set (A : cset) (r : ranking) : Prop :=
  exists pre suf, r = pre ++ suf /\ seteq cand (flat cand pre) A.

(* executable test: some leading segment of r mentions exactly the members of A *)
Definition solidb (A : cset) (r : ranking) : bool :=
  existsb (fun i => cset_eqb cand ceqb (flat cand (firstn i r)) A) (seq 0 (S (length r))).

(* weight of the solid coalition for A: summed weight of the ballots that rank A above all others *)
Definition coal_wt (A : cset) (bs : list ballot) : Q :=
  wt_where cand (fun b => solidb A (rk b)) bs.

(* the entries of l that are members of A *)
Definition members (A : cset) (l : list cand) : list cand := filter (fun c => memb cand ceqb c A) l.

(* members of A still standing in the current profile / elected so far *)
Definition standing (A : cset) (p : profile) : cset := members A (cands p).
Definition elected_of (A : cset) (sts : list estate) : cset := members A (all_elected cand sts).

(* number of members of A among the winners *)
Definition winners_in (A : cset) (winners : list cand) : nat :=
  length (filter (fun c => memb cand ceqb c winners) A).

(* the round invariant behind Droop proportionality ([sts] newest first, [p] the current profile,
   [t] the threshold, [k] the number of quotas the coalition started with):
   - elected members + standing members >= min k |A|;
   - while a member is standing and fewer than k are elected, the ballots that rank the standing
     members above all other standing candidates weigh at least (k - elected) quotas *)
Record pc_inv (A : cset) (k : nat) (t : Q) (p : profile) (sts : list estate) : Prop := {
  pc_count : (Nat.min k (length A) <= length (elected_of A sts) + length (standing A p))%nat;
  pc_weight : standing A p <> [] -> (length (elected_of A sts) < k)%nat ->
     Qnat (k - length (elected_of A sts)) * t <= coal_wt (standing A p) (ballots p)
}.

End WithCand.
