(* Spec/RunLawSpec.v — vocabulary for the adequacy part of C17 (Properties/C17_adequacy.v): which
   scripts of primitive draw results the Python primitives can actually produce, stated on the
   draws a run consumes paired with the calls it logs.  No proofs.

   The winners of a run are read off the list of states with [all_elected] (Spec/STVSpec.v): the
   candidates of the [elected] field of every state, oldest state first — for a dictator run the
   round-0 state elects nobody and every later state exactly one candidate, so this is the sequence
   of winners seat by seat. *)
From VK Require Import Base Core STV Rules Laws.

Section WithCand.
Variable cand : Type.
Variable ceqb : cand -> cand -> bool.

Notation draw := (draw cand).
Notation call := (call cand).
Notation mstate := (mstate cand).

(* the answer [d] is one the primitive called as [c] can return:
   - random.uniform(0, 1) returns a number of [0, 1);
   - numpy.random.choice(keys, p = probabilities) never returns an entry whose probability is 0:
     the candidate returned is the key of an entry of POSITIVE probability;
   the model itself already refuses every other ill-formed answer (a drawn ballot that is not a
   positive-weight ballot of the profile, an order that is not a permutation of the tied set, a
   candidate that is not a key), so nothing more is asked of the other pairs *)
Definition draw_admissible (c : call) (d : draw) : Prop :=
  match c, d with
  | CUniform, DUnit u => 0 <= u /\ u < 1
  | CNpChoice pop, DCand w => exists q, In (w, q) pop /\ 0 < q
  | _, _ => True
  end.

(* between the randomness states [st] (before) and [st'] (after) a computation has consumed the
   draws [ds] and logged the calls [cs] (both oldest first; the log is kept newest first), and
   every draw is an admissible answer to the call it answers *)
Definition admissible_between (st st' : mstate) : Prop :=
  exists (ds : list draw) (cs : list call),
    scr st = ds ++ scr st' /\ lg st' = rev cs ++ lg st /\ Forall2 draw_admissible cs ds.

End WithCand.
