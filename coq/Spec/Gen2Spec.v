(* Spec/Gen2Spec.v — specification vocabulary for the C14 statements about Model/Generators2.v
   (BallotSimplex with a table over all complete rankings, CambridgeSampler).
   Small, readable definitions only; no proofs. *)
From VK Require Import Base Core GenValidation PrefInterval Generators Generators2.
From VK.Spec Require Import GenSpec.

(* CambridgeSampler fills the slots of a historical ballot type [t] (a sequence of bloc labels) with
   the voter's own-slate candidates (slots labelled [own]) and opposing-slate candidates (every other
   label).  A slot whose slate is used up is skipped.  [cam_kept own t na no] is the subsequence of
   the slots of [t] that do receive a candidate when [na] own-slate and [no] opposing-slate
   candidates are available: an own-label slot is served as long as fewer than [na] own-label slots
   were served before it, and likewise for the other labels with [no]. *)
Fixpoint cam_kept (own : bloc) (t : btype) (na no : nat) : btype :=
  match t with
  | [] => []
  | b :: t' =>
      if Pos.eqb b own then
        match na with S na' => b :: cam_kept own t' na' no | O => cam_kept own t' O no end
      else
        match no with S no' => b :: cam_kept own t' na no' | O => cam_kept own t' na O end
  end.

(* number of slots of a type that do not carry the label [own] *)
Definition count_other (own : bloc) (t : btype) : nat :=
  length (filter (fun b => negb (Pos.eqb b own)) t).

(* the same thing without recursion: slot number i of t is served iff fewer than na (resp. no)
   slots with an own (resp. other) label precede it *)
Definition cam_served (own : bloc) (t : btype) (na no : nat) (i : nat) (b : bloc) : bool :=
  if Pos.eqb b own then Nat.ltb (count_bloc own (firstn i t)) na
  else Nat.ltb (count_other own (firstn i t)) no.
Definition cam_kept_direct (own : bloc) (t : btype) (na no : nat) : btype :=
  map snd (filter (fun ib => cam_served own t na no (fst ib) (snd ib)) (combine (seq 0 (length t)) t)).

(* the candidates a filled ballot [r] carries at the positions its (served) type [k] does NOT label
   [own]; the positions labelled [own] are [slots own k r] of Spec/GenSpec.v *)
Definition other_slots (own : bloc) (k : btype) (r : list pcand) : list pcand :=
  map snd (filter (fun p => negb (Pos.eqb own (fst p))) (combine k r)).

(* consecutive pairs (n_bloc, n_cross) of the voter-type sizes returned by the apportionment *)
Fixpoint pairs_of (l : list nat) : list (nat * nat) :=
  match l with
  | a :: b :: l' => (a, b) :: pairs_of l'
  | _ => []
  end.
