(* Spec/RunSpec.v — small, readable vocabulary for the run-level half of property C01 (rules other
   than the STV family): what the finished Election object reports, round by round, through its
   three queries get_elected / get_remaining / get_eliminated (Model/Rules.v), written from the
   English of the property.  Definitions only. *)
From VK Require Import Base Core STV Rules.
From VK.Spec Require Import ScoreSpec EditSpec.
From Coq Require Import Permutation.

Section WithCand.
Variable cand : Type.

Notation cset := (cset cand).
Notation ranking := (ranking cand).
Notation profile := (profile cand).
Notation estate := (estate cand).
Notation flat := (flat cand).

(* the three groups the Election object reports for round r: elected so far, still remaining,
   eliminated so far *)
Definition groups_at (sts : list estate) (r : nat) (e m x : ranking) : Prop :=
  get_elected cand sts (Z.of_nat r) = inl e /\
  get_remaining cand sts (Z.of_nat r) = inl m /\
  get_eliminated cand sts (Z.of_nat r) = inl x.

(* at every recorded round the elected, remaining and eliminated groups together list each
   candidate of [cs] exactly once (with [NoDup cs], the listing has no repetition either) *)
Definition partitions (cs : cset) (sts : list estate) : Prop :=
  forall r, (r < length sts)%nat ->
    exists e m x, groups_at sts r e m x /\ Permutation (flat e ++ flat m ++ flat x) cs.

(* a candidate reported elected (eliminated) at round r is reported elected (eliminated) at every
   later round r' *)
Definition status_kept (sts : list estate) : Prop :=
  forall r r' e e' x x', (r <= r')%nat -> (r' < length sts)%nat ->
    get_elected cand sts (Z.of_nat r) = inl e -> get_elected cand sts (Z.of_nat r') = inl e' ->
    get_eliminated cand sts (Z.of_nat r) = inl x -> get_eliminated cand sts (Z.of_nat r') = inl x' ->
    incl (flat e) (flat e') /\ incl (flat x) (flat x').

(* the final result, election.get_elected() = get_elected(-1), names exactly k candidates, all
   different *)
Definition elects_exactly (sts : list estate) (k : Z) : Prop :=
  exists e, get_elected cand sts (-1) = inl e /\ Z.of_nat (length (flat e)) = k /\ NoDup (flat e).

(* rounds are numbered 0, 1, 2, ... *)
Definition numbered (sts : list estate) : Prop :=
  forall i st, nth_error sts i = Some st -> rnd st = Z.of_nat i.

(* valid input of the ranking rules: distinct candidates; every ballot a non-empty ranking of
   non-empty groups, nobody listed twice, only declared candidates (ScoreSpec.wf_profile); and the
   ballots carry no scores *)
Definition ranked_profile (p : profile) : Prop :=
  wf_profile cand p /\ score_free cand (ballots p).

(* group g of the ranking r straddles seat m: fewer than m candidates come before it, more than m
   are reached with it *)
Definition straddles_seat (r : ranking) (m : Z) : Prop :=
  exists pre g post, r = pre ++ g :: post /\
    (Z.of_nat (length (flat pre)) < m)%Z /\ (m < Z.of_nat (length (flat pre) + length g))%Z.

End WithCand.
