(* Spec/LiveSpec.v — vocabulary for the liveness half of C01 / C07 on the STV family
   ("running the rule terminates and elects exactly m candidates ... for all outcomes of the random
   choices"): which sets a round asks random.sample to order, when a replay script serves such a
   request, the points a count passes through, and the scripts that serve every request of the
   count ([admissible_script]).  Definitions only; the facts are in Proofs/C01_live.v. *)
From VK Require Import Base Core STV Rules.
From VK.Spec Require Import STVSpec TieSpec.
From Coq Require Import Permutation.

Section WithCand.
Variable cand : Type.
Variable ceqb : cand -> cand -> bool.

Notation cset := (cset cand).
Notation ranking := (ranking cand).
Notation profile := (profile cand).
Notation scores := (scores cand).
Notation estate := (estate cand).
Notation mstate := (mstate cand).

(* the script left in [s] starts with the answers to the requests [reqs], in order: for every
   requested set one draw [DPerm l] where l is a duplicate-free permutation of exactly that set *)
Definition serves (reqs : list cset) (s : mstate) : Prop :=
  exists (ls : list (list cand)) (rest : list (draw cand)),
    scr s = map (fun l => DPerm l) ls ++ rest /\
    Forall2 (fun l g => Permutation l g /\ NoDup l) ls reqs.

(* the script left in [s] fails on the requests [reqs]: it answers the first requests [pre] and then
   its next draw is missing, or is not a DPerm, or is not a duplicate-free permutation of exactly
   the next requested set g *)
Definition next_unserved (reqs : list cset) (s : mstate) : Prop :=
  exists (pre : list cset) (g : cset) (post : list cset) (ls : list (list cand)) (rest : list (draw cand)),
    reqs = pre ++ g :: post /\
    scr s = map (fun l => DPerm l) ls ++ rest /\
    Forall2 (fun l g' => Permutation l g' /\ NoDup l) ls pre /\
    ~ (exists l rest', rest = DPerm l :: rest' /\ Permutation l g /\ NoDup l).

(* a first_place / borda tiebreak of the set g with score table d asks for a random order of every
   group of two or more members of g that still tie on that score, best group first *)
Definition scored_requests (d : scores) (g : cset) : list cset :=
  filter (big cand)
         (score_to_ranking cand (filter (fun x => memb cand ceqb (fst x) g) d) true).

(* the sets [tiebreak_set g (Some q) kind] asks random.sample to order: g itself for "random";
   the groups still tied on the first-place (resp. Borda) scores of q otherwise *)
Definition tb_requests (kind : tb_kind) (q : profile) (g : cset) : list cset :=
  match kind with
  | TBRandom => [g]
  | TBFirstPlace =>
      match first_place_votes cand ceqb q with inl d => scored_requests d g | inr _ => [] end
  | TBBorda =>
      match borda_scores cand ceqb q with inl d => scored_requests d g | inr _ => [] end
  | TBInvalid => []
  end.

(* what the round that starts from profile pr with record prev (threshold t, n elected so far,
   initial profile p0) asks the random source, if anything:
   - one-by-one mode, somebody reaches the threshold and the top group g of the ranking has two or
     more candidates: the configured tiebreak of g on the CURRENT profile pr;
   - nobody reaches the threshold, the candidates are not exactly the open seats and the last group
     low of the ranking has two or more candidates: the first_place tiebreak of low on the INITIAL
     profile p0.
   (Simultaneous elections, default elections, untied rounds and the fractional / full-weight
   transfers ask nothing.) *)
Definition round_asks (cfg : stv_cfg) (t : Q) (n : Z) (p0 pr : profile) (prev : estate)
           (reqs : list cset) : Prop :=
  ((exists c, reaches cand ceqb t pr c) /\ s_simul cfg = false /\
   exists g rest kind, remaining prev = g :: rest /\ (2 <= length g)%nat /\
     s_tiebreak cfg = Some kind /\ reqs = tb_requests kind pr g)
  \/
  ((forall c, In c (cands pr) -> tally cand ceqb c (ballots pr) < t) /\
   Z.of_nat (length (cands pr)) <> (s_m cfg - n)%Z /\
   exists pre low, remaining prev = pre ++ [low] /\ (2 <= length low)%nat /\
     reqs = tb_requests TBFirstPlace p0 low).

(* the points (current profile, records newest first, random source) a count passes through when
   it is started at (pa, stsa, sa): the start; and, from a point with seats still open, the result
   of one successful round *)
Inductive reached (cfg : stv_cfg) (t : Q) (p0 : profile)
          (pa : profile) (stsa : list estate) (sa : mstate)
  : profile -> list estate -> mstate -> Prop :=
| reached_here : reached cfg t p0 pa stsa sa pa stsa sa
| reached_next : forall pr prev older s1 np st s2,
    reached cfg t p0 pa stsa sa pr (prev :: older) s1 ->
    count_elected cand (prev :: older) <> s_m cfg ->
    stv_step cand ceqb cfg t p0 (count_elected cand (prev :: older)) pr prev s1
      = inl ((np, st), s2) ->
    reached cfg t p0 pa stsa sa np (st :: prev :: older) s2.

(* the script of s is admissible for the count of p under cfg: at every point the count passes
   through with seats still open, whatever the round asks to order is served by the script left at
   that point ("every DPerm requested is served by a permutation of the requested set") *)
Definition admissible_script (cfg : stv_cfg) (p : profile) (s : mstate) : Prop :=
  forall t s0 (pr : profile) prev older (s1 : mstate) reqs,
    stv_init cand cfg p = inl t -> initial_state cand ceqb p = inl s0 ->
    reached cfg t p p [s0] s pr (prev :: older) s1 ->
    count_elected cand (prev :: older) <> s_m cfg ->
    round_asks cfg t (count_elected cand (prev :: older)) p pr prev reqs ->
    serves reqs s1.

End WithCand.
