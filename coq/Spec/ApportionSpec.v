(* Spec/ApportionSpec.v — vocabulary for the bloc-size statements of C14.  Definitions only.

   Every bloc-structured generator asks the external package for
     apportionment.compute("huntington", props, N)
   and generates that many ballots per bloc.  The crossover generators (AlternatingCrossover,
   CambridgeSampler) apportion over the voter types
     (b1,"bloc"), (b1,"cross"), (b2,"bloc"), (b2,"cross"), ...
   with proportions cohesion_b * prop_b and (1 - cohesion_b) * prop_b, and bloc b generates
   n_(b,bloc) + n_(b,cross) ballots. *)
From VK Require Import Base.

(* voter_props of the crossover generators, from the list of (cohesion_b, prop_b) in bloc order *)
Definition cross_props (cp : list (Q * Q)) : list Q :=
  concat (map (fun x => [fst x * snd x; (1 - fst x) * snd x]) cp).

(* sizes per bloc from sizes per voter type: consecutive pairs added up *)
Fixpoint pair_sums (l : list nat) : list nat :=
  match l with
  | a :: b :: l' => (a + b)%nat :: pair_sums l'
  | _ => []
  end.
