(* Spec/TopMSpec.v — what "the m candidates with the highest scores are elected" means for the
   outcome (elected groups [el], remaining groups [rem], recorded tiebreak [tbi]) of a one-shot
   election over the score list [d].  This is, verbatim, the conclusion of Properties/C04.v
   [c04_top_m], packaged so that C05 / C13 can refer to it. *)
From VK Require Import Base Core.
From Coq Require Import Permutation.

Section WithCand.
Variable cand : Type.

Notation cset := (cset cand).
Notation ranking := (ranking cand).
Notation scores := (scores cand).
Notation flat := (flat cand).

Definition top_m_facts (d : scores) (m : Z) (el rem : ranking) (tbi : option (cset * ranking))
  : Prop :=
  (* exactly m elected; elected and remaining partition the candidates *)
  Z.of_nat (length (flat el)) = m /\
  Permutation (flat el ++ flat rem) (map fst d) /\
  (* no elected candidate scores less than a remaining one *)
  (forall c1 c2 q1 q2, In c1 (flat el) -> In c2 (flat rem) -> In (c1, q1) d -> In (c2, q2) d ->
     q2 <= q1) /\
  (* groups are reported in descending score order: strictly, except inside the group that the
     recorded tiebreak split *)
  (forall pre g1 mid g2 post c1 c2 q1 q2,
     el ++ rem = pre ++ g1 :: mid ++ g2 :: post ->
     In c1 g1 -> In c2 g2 -> In (c1, q1) d -> In (c2, q2) d ->
     q2 < q1 \/ (q1 == q2 /\ exists g t, tbi = Some (g, t) /\ In c1 g /\ In c2 g)) /\
  (* members of one reported group have equal scores *)
  (forall g c1 c2 q1 q2, In g (el ++ rem) -> In c1 g -> In c2 g -> In (c1, q1) d -> In (c2, q2) d ->
     q1 == q2) /\
  (* equal scores are reported tied, unless the recorded tiebreak separated them *)
  (forall c1 c2 q1 q2, In (c1, q1) d -> In (c2, q2) d -> q1 == q2 ->
     (exists g, In g (el ++ rem) /\ In c1 g /\ In c2 g) \/
     (exists g t, tbi = Some (g, t) /\ In c1 g /\ In c2 g)) /\
  (* without a recorded tiebreak the score ranking is reported unchanged *)
  (tbi = None -> el ++ rem = score_to_ranking cand d true) /\
  (* a recorded tiebreak is a linear order of one whole group of the score ranking *)
  (forall g t, tbi = Some (g, t) ->
     In g (score_to_ranking cand d true) /\ exists l, t = singletons cand l /\ Permutation l g).

End WithCand.
