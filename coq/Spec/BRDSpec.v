(* Spec/BRDSpec.v — vocabulary for the multi-seat BoostedRandomDictator part of C17: the law of
   the sequence of winners (the iterated one-step law [law_brd_winner] of Model/Laws.v, the profile
   and the score list being updated between seats exactly as the run does in [elect_one]), the
   closed form of one step, the product along a path, the path/tree invariants, a checkable
   sufficient condition on the initial profile, and the chain of (profile, state) pairs a run of
   [run_dictator] goes through.  No proofs. *)
From VK Require Import Base Core STV Rules Laws.
From VK.Spec Require Import ScoreSpec EditSpec LawSpec.

Section WithCand.
Variable cand : Type.
Variable ceqb : cand -> cand -> bool.

Notation cset := (cset cand).
Notation ranking := (ranking cand).
Notation ballot := (ballot cand).
Notation profile := (profile cand).
Notation scores := (scores cand).
Notation estate := (estate cand).
Notation mstate := (mstate cand).

(* ---------- between two seats ---------- *)

(* what [elect_one w] computes before building the new state: the profile with the winner removed
   (ballots condensed, emptied ballots dropped) and ITS first-place tally, which becomes the
   [escores] of the new state and hence the score list of the next step *)
Definition brd_next (w : cand) (p : profile) : res (profile * scores) :=
  match remove_cand_prof cand ceqb [w] true false p with
  | inl np =>
      match first_place_votes cand ceqb np with
      | inl d' => inl (np, d')
      | inr e => inr e
      end
  | inr e => inr e
  end.

(* ---------- the law of the sequence of winners ---------- *)

(* [d] plays the part of [escores prev]; an exception of the run (remove_cand / first_place_votes
   failing) is the empty sub-distribution *)
Fixpoint law_brd_sequence (seats : nat) (p : profile) (d : scores) : dist (list cand) :=
  match seats with
  | O => dret []
  | S k =>
      dbind (law_brd_winner cand p d) (fun w =>
        match brd_next w p with
        | inl (np, d') => dbind (law_brd_sequence k np d') (fun l => dret (w :: l))
        | inr _ => []
        end)
  end.

(* the whole run: the round-0 state carries the first-place tally of the input profile *)
Definition law_brd_run (seats : nat) (p : profile) : dist (list cand) :=
  match first_place_votes cand ceqb p with
  | inl d => law_brd_sequence seats p d
  | inr _ => []
  end.

(* ---------- closed forms ---------- *)

(* the mixing weight 1/(c-1) for the c candidates of the current profile *)
Definition brd_lambda (p : profile) : Q := 1 / (Qnat (length (cands p)) - 1).

(* one step: a single remaining candidate is elected outright; otherwise the mixture of the
   proportional-to-squares rule on [d] (weight lambda) and RandomDictator (weight 1 - lambda) *)
Definition brd_closed_form (p : profile) (d : scores) (w : cand) : Q :=
  match cands p with
  | [c] => if ceqb w c then 1 else 0
  | _ => brd_lambda p * squares_closed_form cand ceqb d w +
         (1 - brd_lambda p) * rd_closed_form cand ceqb p w
  end.

(* the squares rule written with the first-place SHARES of the current profile:
   share_w^2 / sum over the candidates c of share_c^2 *)
Definition sq_share_form (p : profile) (w : cand) : Q :=
  (rd_closed_form cand ceqb p w * rd_closed_form cand ceqb p w) /
  qsum (map (fun c => rd_closed_form cand ceqb p c * rd_closed_form cand ceqb p c) (cands p)).

(* one step written with the first-place shares of the current profile only *)
Definition brd_share_form (p : profile) (w : cand) : Q :=
  match cands p with
  | [c] => if ceqb w c then 1 else 0
  | _ => brd_lambda p * sq_share_form p w + (1 - brd_lambda p) * rd_closed_form cand ceqb p w
  end.

(* ... and its product along the sequence of winners [ws], each profile being the previous one
   with the previous winner removed *)
Fixpoint brd_share_path (ws : list cand) (p : profile) : Q :=
  match ws with
  | [] => 1
  | w :: ws' =>
      brd_share_form p w *
      match remove_cand_prof cand ceqb [w] true false p with
      | inl np => brd_share_path ws' np
      | inr _ => 0
      end
  end.

(* the product of the one-step closed forms along the sequence of winners [ws] *)
Fixpoint brd_path_prob (ws : list cand) (p : profile) (d : scores) : Q :=
  match ws with
  | [] => 1
  | w :: ws' =>
      brd_closed_form p d w *
      match brd_next w p with
      | inl (np, d') => brd_path_prob ws' np d'
      | inr _ => 0
      end
  end.

(* ---------- domains ---------- *)

(* the domain of one Boosted step with score list [d]: either one candidate is left, or there are
   at least two, the RandomDictator step is defined, [d] has no repeated key and some non-zero entry *)
Definition brd_domain (p : profile) (d : scores) : Prop :=
  (exists c, cands p = [c]) \/
  (rd_domain cand p /\ (2 <= length (cands p))%nat /\ NoDup (map fst d) /\
   0 < qsum (map (fun q => snd q * snd q) d)).

(* every (profile, score list) met along the sequence [ws] is in the domain of a step *)
Fixpoint brd_path_ok (ws : list cand) (p : profile) (d : scores) : Prop :=
  match ws with
  | [] => True
  | w :: ws' =>
      brd_domain p d /\
      match brd_next w p with
      | inl (np, d') => brd_path_ok ws' np d'
      | inr _ => True
      end
  end.

(* who can come out of one step: the only candidate; or a key of [d] (squares branch) or a
   candidate listed first on some ballot (RandomDictator branch) *)
Definition brd_support (p : profile) (d : scores) (w : cand) : Prop :=
  cands p = [w] \/ In w (map fst d) \/ some_first cand p w.

(* for [k] seats: every (profile, score list) reachable by electing possible winners stays in the
   domain, and the run's update between seats never fails *)
Fixpoint brd_tree_ok (k : nat) (p : profile) (d : scores) : Prop :=
  match k with
  | O => True
  | S k' =>
      brd_domain p d /\
      forall w, brd_support p d w ->
        exists np d', brd_next w p = inl (np, d') /\ brd_tree_ok k' np d'
  end.

(* a sufficient, checkable condition on the profile for [k] seats: well-formed ranked ballots over a
   duplicate-free candidate list (ScoreSpec.wf_profile), no scores, positive weights, every ballot
   ranks at least [k] candidates, and at least one ballot if a seat is to be filled *)
Definition brd_seats_ok (k : nat) (p : profile) : Prop :=
  wf_profile cand p /\ score_free cand (ballots p) /\
  Forall (fun b => 0 < wt b /\ (k <= length (flat cand (rk b)))%nat) (ballots p) /\
  ((0 < k)%nat -> ballots p <> []).

(* ---------- the run ---------- *)

(* the (profile, state) pairs produced, oldest first, by successive steps of the dictator loop
   started on profile [p] with previous state [prev] and randomness state [st], ending in [st'] *)
Fixpoint dict_chain (boosted : bool) (p : profile) (prev : estate) (st : mstate)
         (chain : list (profile * estate)) (st' : mstate) : Prop :=
  match chain with
  | [] => st' = st
  | (np, e) :: rest =>
      exists st1,
        (if boosted then brd_step cand ceqb p prev st else rd_step cand ceqb p prev st)
          = inl ((np, e), st1) /\
        dict_chain boosted np e st1 rest st'
  end.

(* the state reports the first-place tally of the profile it is paired with *)
Definition tally_linked (pe : profile * estate) : Prop :=
  first_place_votes cand ceqb (fst pe) = inl (escores (snd pe)).

End WithCand.
