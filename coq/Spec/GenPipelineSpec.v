(* Spec/GenPipelineSpec.v — constructor followed by generate_profile, for the name models
   (property C20, "generators refuse ... ; in every such case no partial result is produced").
   [gen_construct] (Spec/GenConstructSpec.v) is the transcription of BallotGenerator.__init__ +
   the name models' __init__ (bloc checks, then one combined interval per voter bloc);
   [gen_pl_run] / [gen_cumulative_run] / [gen_bt_run] (Spec/GenRunSpec.v) are the model's
   generate_profile given the per-bloc combined intervals.  The pipelines below hand the
   constructed intervals, in bloc order, to the run together with the recorded draws of each bloc.
   Like [gen_construct] itself this composition is a specification-level transcription (the
   differential harness validates the two halves separately).  Definitions only. *)
From VK Require Import Base Core GenValidation PrefInterval Generators.
From VK.Spec Require Import BTSpec BlocSpec GenSpec GenRunSpec GenConstructSpec.

(* blocs in construction order, each with its recorded draws *)
Definition with_draws {D : Type} (ivs : list (positive * pinterval)) (draws : list D)
  : list (bloc * pinterval * D) :=
  map (fun p : (positive * pinterval) * D => (fst (fst p), snd (fst p), snd p)) (combine ivs draws).

(* name_PlackettLuce / short_name_PlackettLuce(ballot_length = bl) *)
Definition name_pl_pipeline (props : list (positive * Q))
           (intervals : list (positive * list (positive * pinterval)))
           (cohesion : list (positive * list (positive * Q))) (bl : nat)
           (draws : list (list (list pcand * list pcand))) : res gen_out :=
  let! ivs := gen_construct props intervals cohesion in
  gen_pl_run bl (with_draws ivs draws).

(* name_Cumulative(num_votes = nv) *)
Definition name_cumulative_pipeline (props : list (positive * Q))
           (intervals : list (positive * list (positive * pinterval)))
           (cohesion : list (positive * list (positive * Q))) (nv : nat)
           (draws : list (list (list pcand))) : res gen_out :=
  let! ivs := gen_construct props intervals cohesion in
  gen_cumulative_run nv (with_draws ivs draws).
