(* Spec/TieSpec.v — small, readable vocabulary for C10 (randomness only breaks genuine ties, and
   every tiebreak is recorded), written from the English of the property. *)
From VK Require Import Base Core STV Rules.

Section WithCand.
Variable cand : Type.

Notation cset := (cset cand).
Notation ranking := (ranking cand).
Notation scores := (scores cand).
Notation mstate := (mstate cand).
Notation estate := (estate cand).

(* number of primitive random calls made between two states of the draw monad (every call is
   logged by [next_draw], the only consumer of the script) *)
Definition draws_used (s s' : mstate) : nat := length (lg s') - length (lg s).

(* the rules that are not intentionally random: everything except RandomDictator,
   BoostedRandomDictator and the STV family with the random (Cambridge) transfer *)
Definition deterministic (r : rule) : Prop :=
  match r with
  | RRandomDictator _ | RBoosted _ => False
  | RSTV cfg | RAlaska _ _ cfg => s_transfer cfg <> TRandom
  | _ => True
  end.

(* the rules that elect the top m of a round-0 score ranking in one step, with the scoring, the
   seat count and the tiebreak option they use *)
Definition one_shot_params (r : rule) (p : profile cand)
  : option (score_kind * Z * option tb_kind) :=
  match r with
  | RPlurality m tb => Some (SKFpv, m, tb)
  | RBorda m v tb =>
      Some (SKVector (match v with Some (x :: l) => x :: l | _ => default_borda cand p end), m, tb)
  | RRating m _ _ tb | RLimited m _ tb | RBloc m _ tb => Some (SKBallotScores, m, tb)
  | _ => None
  end.

(* a round that records no tiebreak *)
Definition no_tiebreak (st : estate) : Prop := tiebreaks st = [].

(* all members of [g] carry the common value [k] in the score list [d] (the deciding tally) *)
Definition tied_at (d : scores) (g : cset) (k : Q) : Prop :=
  forall c, In c g -> exists q, In (c, q) d /\ q == k.
Definition tied_on (d : scores) (g : cset) : Prop := exists k : Q, tied_at d g k.

(* a group that needs a random order: two or more members *)
Definition big (g : cset) : bool := Nat.ltb 1 (length g).

(* the ranking obtained from [r] by replacing its big groups, in order, by the orders [ls] *)
Fixpoint rebuild (r : ranking) (ls : list (list cand)) : ranking :=
  match r with
  | [] => []
  | g :: r' =>
      if big g
      then match ls with
           | l :: ls' => singletons cand l ++ rebuild r' ls'
           | [] => g :: rebuild r' []
           end
      else g :: rebuild r' ls
  end.

End WithCand.
