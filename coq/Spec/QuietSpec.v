(* Spec/QuietSpec.v — vocabulary for the part of C09 about get_profile of rounds that "involved no
   random choice", for every transfer rule.  Definitions only. *)
From Coq Require Import List.
From VK Require Import Base Core STV Rules.

Section WithCand.
Variable cand : Type.

(* a recorded STV round that cannot have consumed a random draw: it records no tiebreak and, when
   the transfer rule is the random (Cambridge) one, it elected nobody (so no surplus was
   transferred: the round is the initial one or an elimination) *)
Definition quiet_round (cfg : stv_cfg) (st : estate cand) : Prop :=
  tiebreaks st = [] /\ (s_transfer cfg = TRandom -> flat cand (elected st) = []).

End WithCand.
