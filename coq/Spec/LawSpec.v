(* Spec/LawSpec.v — small, readable vocabulary for C17 (laws of the randomised rules and of the
   random tiebreak): events on a resolution order, the domain of one RandomDictator step, and the
   path/tree invariants of the multi-seat law.  No proofs. *)
From VK Require Import Base Core STV Rules Laws.

Section WithCand.
Variable cand : Type.
Variable ceqb : cand -> cand -> bool.

Notation cset := (cset cand).
Notation ranking := (ranking cand).
Notation ballot := (ballot cand).
Notation profile := (profile cand).

(* ---------- events ---------- *)

(* equality of two orders (lists of candidates), position by position *)
Fixpoint list_eqb (a b : list cand) : bool :=
  match a, b with
  | [], [] => true
  | x :: a', y :: b' => ceqb x y && list_eqb a' b'
  | _, _ => false
  end.

(* candidate [c] stands at position [i] (0-based) of the order [l] *)
Definition at_pos (c : cand) (i : nat) (l : list cand) : bool :=
  match nth_error l i with Some x => ceqb c x | None => false end.

(* [c] is the head of the order: it takes a single contested seat *)
Definition is_head (c : cand) (l : list cand) : bool := at_pos c 0 l.

(* [c] is among the first [k] of the order: it takes one of [k] contested seats *)
Definition among_first (k : nat) (c : cand) (l : list cand) : bool :=
  memb cand ceqb c (firstn k l).

(* [c] is the last of the order: it is the one eliminated *)
Definition is_last (c : cand) (l : list cand) : bool := at_pos c (length l - 1) l.

(* ---------- the domain of one RandomDictator step ---------- *)

(* the ranking has a first position, and that position is a non-empty duplicate-free set *)
Definition first_group_ok (r : ranking) : Prop :=
  exists s r', r = s :: r' /\ s <> [] /\ NoDup s.

(* every ballot has a proper first position and the total weight is positive *)
Definition rd_domain (p : profile) : Prop :=
  Forall (fun b => first_group_ok (rk b)) (ballots p) /\ 0 < total_wt cand (ballots p).

Definition nonneg_weights (p : profile) : Prop := Forall (fun b => 0 <= wt b) (ballots p).

(* [w] is listed in the first position of some ballot of [p] *)
Definition some_first (p : profile) (w : cand) : Prop :=
  exists b s r', In b (ballots p) /\ rk b = s :: r' /\ In w s.

(* ---------- multi-seat RandomDictator ---------- *)

(* the product of the one-step closed forms along the sequence of winners [ws], the profile of
   each seat being the previous one with the previous winner removed *)
Fixpoint rd_path_prob (ws : list cand) (p : profile) : Q :=
  match ws with
  | [] => 1
  | w :: ws' =>
      rd_closed_form cand ceqb p w *
      match remove_cand_prof cand ceqb [w] true false p with
      | inl np => rd_path_prob ws' np
      | inr _ => 0
      end
  end.

(* every profile met along the sequence [ws] is in the domain of a RandomDictator step *)
Fixpoint rd_path_ok (ws : list cand) (p : profile) : Prop :=
  match ws with
  | [] => True
  | w :: ws' =>
      rd_domain p /\
      match remove_cand_prof cand ceqb [w] true false p with
      | inl np => rd_path_ok ws' np
      | inr _ => True
      end
  end.

(* for [k] seats, every profile reachable by electing candidates listed first stays in the domain *)
Fixpoint rd_tree_ok (k : nat) (p : profile) : Prop :=
  match k with
  | O => True
  | S k' =>
      rd_domain p /\
      forall w, some_first p w ->
        exists np, remove_cand_prof cand ceqb [w] true false p = inl np /\ rd_tree_ok k' np
  end.

(* a sufficient, checkable condition for [k] seats: a duplicate-free candidate list, at least one
   ballot, and every ballot is score-free, has positive weight, lists no candidate twice, has no
   empty position and ranks at least [k] candidates *)
Definition rd_ballot_ok (k : nat) (b : ballot) : Prop :=
  sc b = [] /\ 0 < wt b /\ NoDup (flat cand (rk b)) /\ Forall (fun g => g <> []) (rk b) /\
  (k <= length (flat cand (rk b)))%nat.
Definition rd_seats_ok (k : nat) (p : profile) : Prop :=
  (0 < k)%nat -> NoDup (cands p) /\ ballots p <> [] /\ Forall (rd_ballot_ok k) (ballots p).

End WithCand.
