(* Spec/TieLawSpec.v — small, readable vocabulary linking the uniform-permutation law of the random
   tiebreak ([uperm], Model/Laws.v) to the MODEL's functions that consume the drawn order: the law
   of an outcome is the push-forward of the law of the drawn order through the model function run on
   a script whose next draw is that order; the outcomes are read off the model's own answers.
   Definitions only. *)
From VK Require Import Base Core STV Rules Laws.

(* push-forward of a finite law through an outcome function: the outcome [f a] inherits the weight
   of every support point [a]; with [prob] (Model/Laws.v: the sum of the weights of the support
   points satisfying a boolean event), P_{push law f}(ev) = P_law(ev o f) *)
Definition push {A B} (law : dist A) (f : A -> B) : dist B := dbind law (fun a => dret (f a)).

Section WithCand.
Variable cand : Type.
Variable ceqb : cand -> cand -> bool.

Notation cset := (cset cand).
Notation ranking := (ranking cand).
Notation profile := (profile cand).
Notation estate := (estate cand).
Notation mstate := (mstate cand).
Notation flat := (flat cand).

(* the state of the random source whose next answer is the order [l] (then [rest]) *)
Definition next_order (l : list cand) (rest : list (draw cand)) (lg0 : list (call cand)) : mstate :=
  mkM (DPerm l :: rest) lg0.

(* the event "[c] is one of the listed candidates" *)
Definition listed (c : cand) (l : list cand) : bool := memb cand ceqb c l.

(* ---------- outcomes, read off the model's answers (nobody when the call fails) ---------- *)

(* the candidates among the first [j] entries of the answer of [tiebreak_set] *)
Definition tiebreak_first (j : nat) (x : res (ranking * mstate)) : list cand :=
  match x with inl (t, _) => flat (firstn j t) | inr _ => [] end.

(* the candidates elected by [elect_top_m] (elect_cands_from_set_ranking) *)
Definition top_m_elected (x : res ((ranking * ranking * option (cset * ranking)) * mstate))
  : list cand :=
  match x with inl ((el, _, _), _) => flat el | inr _ => [] end.

(* election.get_elected() of a finished run *)
Definition run_winners (x : res (list estate * mstate)) : list cand :=
  match x with
  | inl (sts, _) => match get_elected cand sts (-1) with inl e => flat e | inr _ => [] end
  | inr _ => []
  end.

(* the candidates elected / eliminated in one STV round [stv_step] *)
Definition round_elected (x : res ((profile * estate) * mstate)) : list cand :=
  match x with inl ((_, st), _) => flat (elected st) | inr _ => [] end.
Definition round_eliminated (x : res ((profile * estate) * mstate)) : list cand :=
  match x with inl ((_, st), _) => flat (eliminated st) | inr _ => [] end.

End WithCand.
