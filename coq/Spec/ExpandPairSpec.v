(* Spec/ExpandPairSpec.v — specification vocabulary for "pairwise totals are unchanged by expanding
   ties" (C12).  Small, readable definitions only; no proofs.

   [pair_share r a b] is the fraction of a ballot with (possibly tied) ranking [r] that counts for
   "a over b" once the ties are expanded into all consistent linear orders with equal weight:
     1    if a's position comes before b's, or a is listed and b is not;
     1/2  if a and b share a position;
     0    if a's position comes after b's, or a is not listed. *)
From VK Require Import Base Core.

Section ExpandPairSpec.
Variable cand : Type.
Variable ceqb : cand -> cand -> bool.

Fixpoint pair_share (r : ranking cand) (a b : cand) : Q :=
  match r with
  | [] => 0
  | g :: r' =>
      if memb cand ceqb a g then (if memb cand ceqb b g then 1 / 2 else 1)
      else if memb cand ceqb b g then 0
      else pair_share r' a b
  end.

(* a and b never stand in one position of r *)
Definition never_tied (r : ranking cand) (a b : cand) : Prop :=
  forall g, In g r -> In a g -> In b g -> False.

End ExpandPairSpec.
