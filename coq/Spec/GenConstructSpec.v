(* Spec/GenConstructSpec.v — the constructor of the "name" ballot generators, as a specification-level
   TRANSCRIPTION (properties C15 / C20).

   What is transcribed: /repo/src/votekit/ballot_generator.py
     - BallotGenerator.__init__, lines 105-166 (the bloc-parameter checks), and
     - short_name_PlackettLuce.__init__, lines 481-500 (the same text is repeated in
       name_BradleyTerry.__init__ 677-696 and name_Cumulative.__init__ 1453-1473; name_PlackettLuce
       inherits it):
           self.pref_interval_by_bloc = {
               bloc: combine_preference_intervals(
                   [self.pref_intervals_by_bloc[bloc][b] for b in self.blocs],
                   [self.cohesion_parameters[bloc][b] for b in self.blocs])
               for bloc in self.blocs}                 with  self.blocs = list(bloc_voter_prop.keys())

   Status.  The two ingredients are MODEL functions that the differential harness compares with the
   Python code on every run: [bloc_checks] (Model/GenValidation.v, op 65) and [combine_intervals]
   (Model/PrefInterval.v, op 91; it calls [combine_checks], op 66, itself).  No generator model
   calls [bloc_checks], so their COMPOSITION below — checks first, then one combination per voter
   bloc, in the order of bloc_voter_prop — is written here by reading the Python text; the
   composition itself is NOT exercised by the differential harness.  Theorems about [gen_construct]
   are theorems about this transcription.

   Dictionaries are association lists over numbered blocs ([positive], as in Model/GenValidation.v
   and Spec/BlocSpec.v; Model/PrefInterval.v's [bloc] is the same type); a Python dict has distinct keys, and
   [dict_get] returns the first entry of a key.  A missing key is Python's KeyError ([EKey]).
   bloc_checks compares only the OUTER keys of the three dictionaries; the inner dictionaries
   (pref_intervals_by_bloc[b], cohesion_parameters[b]) are indexed by every bloc name without a
   prior test, so a missing inner key surfaces as KeyError after the checks passed.

   Not transcribed: the kwargs-presence tests of lines 108-132 ("at least one of candidates or
   slate_to_candidates", "if one of the three bloc parameters is given all must be"): the arguments
   are typed here, all three are always present. *)
From VK Require Import Base Core GenValidation PrefInterval.
From VK.Spec Require Import BTSpec BlocSpec.

(* d[k] *)
Definition dict_get {A : Type} (d : list (positive * A)) (k : positive) : res A :=
  match find (fun x => Pos.eqb k (fst x)) d with
  | Some x => ok (snd x)
  | None => err EKey
  end.

(* [tbl[b][b2] for b2 in blocs] *)
Definition row_values {A : Type} (tbl : list (positive * list (positive * A))) (blocs : list positive) (b : positive)
  : res (list A) :=
  let! row := dict_get tbl b in rmap (dict_get row) blocs.

(* [self.pref_intervals_by_bloc[b][b2] for b2 in self.blocs] *)
Definition bloc_intervals (intervals : list (positive * list (positive * pinterval))) (blocs : list positive)
           (b : positive) : res (list pinterval) := row_values intervals blocs b.
(* [self.cohesion_parameters[b][b2] for b2 in self.blocs] *)
Definition bloc_cohesion (cohesion : list (positive * list (positive * Q))) (blocs : list positive) (b : positive)
  : res (list Q) := row_values cohesion blocs b.

(* one entry of the dict comprehension *)
Definition construct_bloc (intervals : list (positive * list (positive * pinterval)))
           (cohesion : list (positive * list (positive * Q))) (blocs : list positive) (b : positive)
  : res (positive * pinterval) :=
  let! is := bloc_intervals intervals blocs b in
  let! ps := bloc_cohesion cohesion blocs b in
  let! r := combine_intervals is ps in
  ok (b, r).

(* the constructor: nested dictionary of intervals, combined by cohesion *)
Definition gen_construct (props : list (positive * Q))
           (intervals : list (positive * list (positive * pinterval)))
           (cohesion : list (positive * list (positive * Q))) : res (list (positive * pinterval)) :=
  let! _ := bloc_checks props (map fst intervals) cohesion in
  rmap (construct_bloc intervals cohesion (map fst props)) (map fst props).

(* the other branch of lines 486-489: the values are already PreferenceInterval objects *)
Definition gen_construct_flat (props : list (positive * Q)) (intervals : list (positive * pinterval))
           (cohesion : list (positive * list (positive * Q))) : res (list (positive * pinterval)) :=
  let! _ := bloc_checks props (map fst intervals) cohesion in ok intervals.

(* ---------- vocabulary for the statements ---------- *)

(* every inner dictionary has an entry for every bloc name *)
Definition rows_cover {A : Type} (tbl : list (positive * list (positive * A))) (blocs : list positive) : Prop :=
  forall row, In row tbl -> forall b2, In b2 blocs -> In b2 (map fst (snd row)).

(* every inner dictionary has exactly the bloc names as keys, each once *)
Definition rows_exact {A : Type} (tbl : list (positive * list (positive * A))) (blocs : list positive) : Prop :=
  forall row, In row tbl -> NoDup (map fst (snd row)) /\ same_names (map fst (snd row)) blocs.

(* the intervals handed in are PreferenceInterval objects: positive shares summing to one *)
Definition intervals_wf (intervals : list (positive * list (positive * pinterval))) : Prop :=
  forall row, In row intervals -> forall x, In x (snd row) -> wf_interval (snd x).
Definition cohesion_nonneg (cohesion : list (positive * list (positive * Q))) : Prop :=
  forall row, In row cohesion -> forall x, In x (snd row) -> 0 <= snd x.

(* documented precondition: the intervals a voter bloc holds for the slates have disjoint
   candidate sets (neither shares a candidate with another, none lists a candidate twice) *)
Definition blocs_disjoint (intervals : list (positive * list (positive * pinterval))) (blocs : list positive)
  : Prop :=
  forall b is, In b blocs -> bloc_intervals intervals blocs b = inl is ->
    ~ self_repeating (map pi_cands is) /\ ~ overlapping (map pi_cands is).

(* the proportions combine_preference_intervals is called with sum to one.  When every cohesion
   row has exactly the bloc names as keys this is the row test of __init__ again *)
Definition picked_rows_ok (cohesion : list (positive * list (positive * Q))) (blocs : list positive) : Prop :=
  forall b ps, In b blocs -> bloc_cohesion cohesion blocs b = inl ps -> sums_to_one (qsum ps).
