(* Spec/GenRunSpec.v — whole-run functions of the ballot generators, typed.

   Model/Dispatch.v assembles a whole generator run ([generate_profile(N, by_bloc=True)]) from the
   per-ballot kernels of Model/Generators.v / Generators2.v inside the harness entry points
   [op_gen_*], on ENCODED arguments.  The functions below are the same compositions on DECODED
   (typed) arguments: per bloc the kernel, then [run_finish] (= Dispatch.gen_finish: condense per
   bloc, add up, list the primitive calls).  Proofs/C14_dispatch.v proves, for every generator,
   that the Dispatch op on an encoded argument equals the encoding of the function below on the
   decoded argument (whenever the argument decodes), so the theorems about these functions are
   theorems about what the harness runs against the Python code.

   The second half is the vocabulary of the whole-run statements (property C14): [run_wf] (sizes,
   positive whole weights, by-bloc profiles add up to the aggregate, every ballot has the model's
   documented shape) and the shapes.  Definitions only; no proofs. *)
From VK Require Import Base Core GenValidation PrefInterval Generators Generators2.
From VK.Spec Require Import Content GenSpec.
From Coq Require Import Permutation.

(* ------------------------------------------------------------------ *)
(** * The common tail *)

Definition gen_out : Type := (list (bloc * gprofile) * gprofile * list gcall)%type.

(* literally Dispatch.gen_finish *)
Definition run_finish (pools : list (bloc * (list gballot * list gcall))) : res gen_out :=
  let! r := finish_blocs (map (fun x => (fst x, fst (snd x))) pools) in
  ok (fst r, snd r, concat (map (fun x => snd (snd x)) pools)).

(* ------------------------------------------------------------------ *)
(** * name_PlackettLuce / short_name_PlackettLuce (op 95) *)

(* one bloc: (bloc id, the bloc's combined interval, one recorded draw per requested ballot:
   (Plackett-Luce order of supported candidates, tied zero-support candidates)) *)
Definition pl_in : Type := (bloc * pinterval * list (list pcand * list pcand))%type.
Definition pl_pool (bl : nat) (x : pl_in) : res (bloc * (list gballot * list gcall)) :=
  let! r := pl_bloc (snd (fst x)) bl (snd x) in ok (fst (fst x), r).
Definition gen_pl_run (bl : nat) (blocs : list pl_in) : res gen_out :=
  let! pools := rmap (pl_pool bl) blocs in run_finish pools.

(* ------------------------------------------------------------------ *)
(** * name_Cumulative (op 96) *)

Definition cum_in : Type := (bloc * pinterval * list (list pcand))%type.
Definition cum_pool (nv : nat) (x : cum_in) : res (bloc * (list gballot * list gcall)) :=
  let! r := cumulative_bloc (snd (fst x)) nv (snd x) in ok (fst (fst x), r).
Definition gen_cumulative_run (nv : nat) (blocs : list cum_in) : res gen_out :=
  let! pools := rmap (cum_pool nv) blocs in run_finish pools.

(* ------------------------------------------------------------------ *)
(** * exact name_BradleyTerry (op 97) *)

(* (bloc id, combined interval, number of ballots requested, the recorded rankings) *)
Definition bt_in : Type := (bloc * pinterval * nat * list (list pcand))%type.
Definition bt_iv (x : bt_in) : pinterval := snd (fst (fst x)).
Definition bt_pool (x : bt_in) : res (bloc * (list gballot * list gcall)) :=
  let! r := table_bloc (bt_pdf (pi_int (bt_iv x))) (pi_zero (bt_iv x)) (snd (fst x)) (snd x) in
  ok (fst (fst (fst x)), r).
Definition gen_bt_run (blocs : list bt_in) : res gen_out :=
  let! pools := rmap bt_pool blocs in run_finish pools.

(* ------------------------------------------------------------------ *)
(** * slate_PlackettLuce (op 99) *)

(* one ballot: its coin flips, the recorded shuffle (if the loop needs one), the per-slate orders *)
Definition spl_draw : Type := (list Q * option (list bloc) * list (bloc * list pcand))%type.
Record spl_in : Type := mkSPL {
  spl_id : bloc;
  spl_ivs : list (bloc * pinterval);        (* the voter bloc's interval for every slate *)
  spl_sizes : list (bloc * nat);            (* number of supported candidates per slate *)
  spl_coh : list (bloc * Q);                (* the voter bloc's cohesion row, in its dict order *)
  spl_zero : list pcand;
  spl_ballots : list spl_draw }.
Definition spl_one (x : spl_in) (d : spl_draw) : res (gballot * (list gcall * list gcall)) :=
  let! tc := type_loop (fst (fst d)) (map fst (spl_coh x)) (map snd (spl_coh x)) (spl_sizes x) []
                       (snd (fst d)) in
  let! bc := slate_ballot (spl_ivs x) (spl_zero x) (fst tc) (snd d) in
  ok (fst bc, (snd tc, snd bc)).
Definition spl_pool (x : spl_in) : res (bloc * (list gballot * list gcall)) :=
  let ncand := fold_right Nat.add O (map snd (spl_sizes x)) in
  let! bs := rmap (spl_one x) (spl_ballots x) in
  ok (spl_id x, (map fst bs, GUniforms (ncand * length bs) :: concat (map (fun y => fst (snd y)) bs)
                                ++ concat (map (fun y => snd (snd y)) bs))).
Definition gen_slate_pl_run (blocs : list spl_in) : res gen_out :=
  let! pools := rmap spl_pool blocs in run_finish pools.

(* ------------------------------------------------------------------ *)
(** * exact slate_BradleyTerry (op 100) *)

Record sbt_in : Type := mkSBT {
  sbt_id : bloc;
  sbt_ivs : list (bloc * pinterval);
  sbt_sizes : list (bloc * nat);
  sbt_own : bloc; sbt_opp : bloc; sbt_coh : Q;
  sbt_zero : list pcand;
  sbt_ballots : list (list bloc * list (bloc * list pcand)) }.   (* (recorded type, per-slate orders) *)
Definition sbt_one (x : sbt_in) (d : list bloc * list (bloc * list pcand)) : res (gballot * list gcall) :=
  if negb (existsb (fun e => type_eqb (fst e) (fst d) && Qlt_bool 0 (snd e))
                   (slate_bt_pdf (sbt_sizes x) (sbt_own x) (sbt_opp x) (sbt_coh x)))
  then err EScript
  else slate_ballot (sbt_ivs x) (sbt_zero x) (fst d) (snd d).
Definition sbt_pool (x : sbt_in) : res (bloc * (list gballot * list gcall)) :=
  let! bs := rmap (sbt_one x) (sbt_ballots x) in
  ok (sbt_id x, (map fst bs,
                 GTypeTable (slate_bt_pdf (sbt_sizes x) (sbt_own x) (sbt_opp x) (sbt_coh x)) (length bs)
                 :: concat (map snd bs))).
Definition gen_slate_bt_run (blocs : list sbt_in) : res gen_out :=
  let! pools := rmap sbt_pool blocs in run_finish pools.

(* ------------------------------------------------------------------ *)
(** * AlternatingCrossover (op 101) *)

Record ac_in : Type := mkAC {
  ac_id : bloc; ac_ncross : nat;
  ac_bcands : list pcand; ac_ocands : list pcand;   (* supported own / opposing candidates *)
  ac_pb : list Q; ac_po : list Q;                     (* their supports, in the same order *)
  ac_draws : list (list pcand * list pcand) }.
Definition ac_pool (x : ac_in) : res (bloc * (list gballot * list gcall)) :=
  let! r := ac_bloc (ac_ncross x) O (ac_bcands x) (ac_ocands x) (ac_pb x) (ac_po x) (ac_draws x) in
  ok (ac_id x, r).
Definition gen_ac_run (blocs : list ac_in) : res gen_out :=
  let! pools := rmap ac_pool blocs in run_finish pools.

(* ------------------------------------------------------------------ *)
(** * spatial models (op 102): one row of distances per voter *)

Definition gen_spatial_run (cs : list pcand) (dists : list (list Q)) : res gprofile :=
  pool_to_profile (map (sort_by_distance cs) dists) cs.

(* ------------------------------------------------------------------ *)
(** * name_BradleyTerry MCMC (op 103) *)

(* (bloc id, combined interval, seed ranking, one (proposal, uniform) per requested ballot) *)
Definition btm_in : Type := (bloc * pinterval * list pcand * list (nat * Q))%type.
Definition btm_pool (x : btm_in) : res (bloc * (list gballot * list gcall)) :=
  let! bs := bt_mcmc_bloc (snd (fst (fst x))) (snd (fst x)) (snd x) in
  ok (fst (fst (fst x)), (bs, [])).
Definition gen_bt_mcmc_run (blocs : list btm_in) : res gen_out :=
  let! pools := rmap btm_pool blocs in run_finish pools.

(* ------------------------------------------------------------------ *)
(** * slate_BradleyTerry MCMC (op 104) *)

Record sm_in : Type := mkSM {
  sm_id : bloc;
  sm_ivs : list (bloc * pinterval);
  sm_own : bloc; sm_coh : Q;
  sm_zero : list pcand;
  sm_seed : list bloc;
  sm_steps : list (nat * Q);
  sm_orders : list (list (bloc * list pcand)) }.
Definition sm_pool (x : sm_in) : res (bloc * (list gballot * list gcall)) :=
  if negb (forallb (fun s => Nat.ltb (S (fst s)) (length (sm_seed x))) (sm_steps x)) then err EScript else
  let types := slate_mcmc_run (sm_own x) (sm_coh x) (sm_seed x) (sm_steps x) in
  if negb (Nat.eqb (length types) (length (sm_orders x))) then err EScript else
  let! bs := rmap (fun to => slate_ballot (sm_ivs x) (sm_zero x) (fst to) (snd to))
                  (combine types (sm_orders x)) in
  ok (sm_id x, (map fst bs, concat (map snd bs))).
Definition gen_slate_mcmc_run (blocs : list sm_in) : res gen_out :=
  let! pools := rmap sm_pool blocs in run_finish pools.

(* ------------------------------------------------------------------ *)
(** * CambridgeSampler (op 106) *)

Record cam_in : Type := mkCAM {
  cam_id : bloc;
  cam_iv : pinterval;                    (* the voter bloc's combined interval *)
  cam_own : bloc; cam_opp : bloc;        (* historical labels *)
  cam_so : list pcand; cam_sp : list pcand;  (* own / opposing slate *)
  cam_nb : nat; cam_nc : nat;
  cam_draws : list (btype * list pcand) }.
Definition cam_out : Type := (list (bloc * gprofile) * gprofile * list camcall)%type.
Definition cam_pool (freqs : list (btype * Q)) (x : cam_in) : res (bloc * (list gballot * list camcall)) :=
  let! r := cam_bloc freqs (cam_iv x) (cam_own x) (cam_opp x) (cam_so x) (cam_sp x)
                     (cam_nb x) (cam_nc x) (cam_draws x) in
  ok (cam_id x, r).
Definition gen_cambridge_run (freqs : list (btype * Q)) (blocs : list cam_in) : res cam_out :=
  let! pools := rmap (cam_pool freqs) blocs in
  let! r := finish_blocs (map (fun x => (fst x, fst (snd x))) pools) in
  ok (fst r, snd r, concat (map (fun x => snd (snd x)) pools)).

(* ================================================================== *)
(** * Vocabulary of the whole-run statements *)

Section RunWf.
Context {X : Type}.
Variable bid : X -> bloc.                 (* the bloc's name *)
Variable size : X -> nat.                 (* number of ballots requested from the bloc *)
Variable shape : X -> ranking pcand -> list (pcand * Q) -> Prop.   (* documented ballot shape *)

(* one profile per bloc, in order, named like the bloc, of total weight exactly the number of
   ballots requested from it, with positive whole weights and ballots of the documented shape; the
   aggregate lists exactly the ballots of the by-bloc profiles (so the by-bloc profiles add up to
   it, content by content), has total weight the total number of ballots requested, positive whole
   weights, and its declared candidates are the candidates cast *)
Definition run_wf (blocs : list X) (by_bloc : list (bloc * gprofile)) (agg : gprofile) : Prop :=
  Forall2 (fun x (bq : bloc * gprofile) =>
             fst bq = bid x /\
             total_wt pcand (ballots (snd bq)) == Qnat (size x) /\
             whole_pos_weights (ballots (snd bq)) /\
             (forall b, In b (ballots (snd bq)) -> shape x (rk b) (sc b)))
          blocs by_bloc /\
  ballots agg = concat (map (fun bq : bloc * gprofile => ballots (snd bq)) by_bloc) /\
  (forall k, wtof pcand Pos.eqb k (ballots agg) ==
             qsum (map (fun bq : bloc * gprofile => wtof pcand Pos.eqb k (ballots (snd bq))) by_bloc)) /\
  total_wt pcand (ballots agg) == Qnat (list_sum (map size blocs)) /\
  whole_pos_weights (ballots agg) /\
  (forall b, In b (ballots agg) -> exists x, In x blocs /\ shape x (rk b) (sc b)) /\
  (blocs <> [] -> cands agg = cast_cands pcand Pos.eqb (ballots agg)).
End RunWf.

(* a ranking-only ballot that lists every candidate exactly once: the supported ones [nz] as
   singleton positions in some order, then the zero-support ones [zero] as ONE final tied group
   (absent when there is none) *)
Definition complete_shape (nz zero : list pcand) (r : ranking pcand) (s : list (pcand * Q)) : Prop :=
  s = [] /\
  exists order tail,
    Permutation order nz /\ Permutation tail zero /\
    r = singletons pcand order ++ (match tail with [] => [] | _ => [tail] end) /\
    flat pcand r = order ++ tail /\
    Permutation (flat pcand r) (nz ++ zero) /\
    (NoDup (nz ++ zero) -> NoDup (flat pcand r)).

(* short Plackett-Luce: exactly [bl] candidates, min(bl, #supported) supported ones as singleton
   positions, the rest zero-support candidates in one final tied group; only declared candidates,
   none twice; complete when [bl] is the number of candidates *)
Definition short_pl_shape (iv : pinterval) (bl : nat) (r : ranking pcand) (s : list (pcand * Q)) : Prop :=
  s = [] /\
  length (flat pcand r) = bl /\
  incl (flat pcand r) (pi_cands iv) /\
  (NoDup (pi_cands iv) -> NoDup (flat pcand r)) /\
  (exists order tail,
     r = singletons pcand order ++ (match tail with [] => [] | _ => [tail] end) /\
     length order = Nat.min bl (length (pi_int iv)) /\ NoDup order /\ incl order (map fst (pi_int iv)) /\
     length tail = (bl - length (pi_int iv))%nat /\ NoDup tail /\ incl tail (pi_zero iv)) /\
  (NoDup (pi_cands iv) -> bl = length (pi_cands iv) ->
     complete_shape (map fst (pi_int iv)) (pi_zero iv) r s).

(* cumulative: no ranking; the scores distribute exactly [nv] points, in positive whole numbers,
   among distinct supported candidates *)
Definition cumulative_shape (iv : pinterval) (nv : nat) (r : ranking pcand) (s : list (pcand * Q)) : Prop :=
  r = [] /\ NoDup (map fst s) /\ incl (map fst s) (map fst (pi_int iv)) /\
  (forall c v, In (c, v) s -> whole_pos v) /\
  qsum (map snd s) == Qnat nv.

(* the supported candidates of a list of per-slate intervals *)
Definition slate_nz (ivs : list (bloc * pinterval)) : list pcand :=
  concat (map (fun x : bloc * pinterval => map fst (pi_int (snd x))) ivs).

(* AlternatingCrossover: a ranking of singleton positions over the two supported slates, no
   candidate twice; bloc-first ballots list all of them; crossover ballots alternate
   opposing/own and are complete exactly when the two slates have the same size *)
Definition ac_shape (bc oc : list pcand) (r : ranking pcand) (s : list (pcand * Q)) : Prop :=
  s = [] /\ exists l, r = singletons pcand l /\ flat pcand r = l /\
    incl l (bc ++ oc) /\ (NoDup (bc ++ oc) -> NoDup l) /\
    (length bc = length oc -> Permutation l (bc ++ oc)).

(* CambridgeSampler: singleton positions over the supported candidates of the two slates *)
Definition cam_shape (iv : pinterval) (so sp : list pcand) (r : ranking pcand) (s : list (pcand * Q)) : Prop :=
  s = [] /\ exists l, r = singletons pcand l /\ flat pcand r = l /\
    incl l (map fst (pi_int iv)) /\
    (forall c, In c l -> In c so \/ In c sp) /\
    ((forall c, In c so -> In c sp -> False) -> NoDup l).

(* ------------------------------------------------------------------ *)
(** * admissible parameters / recorded draws of the slate models *)

(* the voter bloc's intervals and slate sizes fit together: distinct slate names, [sizes] lists
   every slate with the number of its supported candidates (in the order of the intervals), every
   slate has a supported candidate, candidates are distinct across slates *)
Definition slate_params_ok (ivs : list (bloc * pinterval)) (sizes : list (bloc * nat)) : Prop :=
  NoDup (map fst ivs) /\
  sizes = map (fun x : bloc * pinterval => (fst x, length (pi_int (snd x)))) ivs /\
  (forall bl iv, In (bl, iv) ivs -> (1 <= length (pi_int iv))%nat) /\
  NoDup (slate_nz ivs).

(* the cohesion row names exactly the slates, once each, with non-negative values *)
Definition coh_row_ok (ivs : list (bloc * pinterval)) (coh : list (bloc * Q)) : Prop :=
  NoDup (map fst coh) /\ (forall b, In b (map fst coh) <-> In b (map fst ivs)) /\
  Forall (fun v => 0 <= v) (map snd coh).

(* the per-slate orders of one ballot are possible results of the Plackett-Luce draws: one complete
   duplicate-free order per slate *)
Definition orders_ok (ivs : list (bloc * pinterval)) (orders : list (bloc * list pcand)) : Prop :=
  forall bl iv, In (bl, iv) ivs -> pi_int iv <> [] ->
    valid_sample (map fst (pi_int iv)) (length (pi_int iv)) (order_of orders bl) = true.

(* the ballot-type multiset of a list of per-slate intervals: every slate name as often as the
   slate has supported candidates *)
Definition slate_multiset (ivs : list (bloc * pinterval)) : list bloc :=
  concat (map (fun x : bloc * pinterval => repeat (fst x) (length (pi_int (snd x)))) ivs).

(* ================================================================== *)
(** * Per-family vocabulary of the run theorems (name, size and ballot shape of a bloc; admissible
    recorded draws) *)

Definition pl_bid (x : pl_in) : bloc := fst (fst x).

Definition pl_size (x : pl_in) : nat := length (snd x).

Definition pl_shape_of (bl : nat) (x : pl_in) := short_pl_shape (snd (fst x)) bl.

(* a bloc asks for more tied places than it has zero-support candidates: documented ValueError *)
Definition pl_short_of_zero (bl : nat) (x : pl_in) : Prop :=
  (length (pi_zero (snd (fst x))) < bl - length (pi_int (snd (fst x))))%nat.

(* the recorded draws of one bloc are results the two primitives can return *)
Definition pl_draws_ok (bl : nat) (x : pl_in) : Prop :=
  let iv := snd (fst x) in
  forall d, In d (snd x) ->
    valid_sample (map fst (pi_int iv)) (Nat.min bl (length (pi_int iv))) (fst d) = true /\
    ((length (pi_int iv) < bl)%nat ->
       valid_sample (pi_zero iv) (bl - length (pi_int iv)) (snd d) = true).

Definition cum_bid (x : cum_in) : bloc := fst (fst x).

Definition cum_size (x : cum_in) : nat := length (snd x).

Definition cum_shape_of (nv : nat) (x : cum_in) := cumulative_shape (snd (fst x)) nv.

Definition bt_bid (x : bt_in) : bloc := fst (fst (fst x)).

Definition bt_size (x : bt_in) : nat := snd (fst x).

Definition bt_shape_of (x : bt_in) := complete_shape (map fst (pi_int (bt_iv x))) (pi_zero (bt_iv x)).

Definition btm_bid (x : btm_in) : bloc := fst (fst (fst x)).

Definition btm_iv (x : btm_in) : pinterval := snd (fst (fst x)).

Definition btm_size (x : btm_in) : nat := length (snd x).

Definition btm_shape_of (x : btm_in) := complete_shape (map fst (pi_int (btm_iv x))) (pi_zero (btm_iv x)).

Definition ac_size (x : ac_in) : nat := length (ac_draws x).

Definition ac_shape_of (x : ac_in) := ac_shape (ac_bcands x) (ac_ocands x).

Definition cam_size (x : cam_in) : nat := (cam_nb x + cam_nc x)%nat.

Definition cam_shape_of (x : cam_in) := cam_shape (cam_iv x) (cam_so x) (cam_sp x).

(* nb + nc recorded draws; the first nb historical types have positive conditional probability
   given "own label first", the other nc given "opposing label first"; every Plackett-Luce order
   is a complete arrangement of the supported candidates of the combined interval *)
Definition cam_draws_ok (freqs : list (btype * Q)) (x : cam_in) : Prop :=
  length (cam_draws x) = (cam_nb x + cam_nc x)%nat /\
  (forall d, In d (firstn (cam_nb x) (cam_draws x)) ->
     exists v, In (fst d, v) (cond_table freqs (cam_own x)) /\ 0 < v) /\
  (forall d, In d (skipn (cam_nb x) (cam_draws x)) ->
     exists v, In (fst d, v) (cond_table freqs (cam_opp x)) /\ 0 < v) /\
  (forall d, In d (cam_draws x) ->
     valid_sample (map fst (pi_int (cam_iv x))) (length (pi_int (cam_iv x))) (snd d) = true).

Definition spl_size (x : spl_in) : nat := length (spl_ballots x).

Definition spl_shape_of (x : spl_in) := complete_shape (slate_nz (spl_ivs x)) (spl_zero x).

(* what the run theorem asks of the recorded draws of one ballot: one flip per supported candidate,
   and — as the model does not check the recorded shuffle — that whenever the type loop reports a
   shuffle of [pop] the recorded result is a rearrangement of [pop] *)
Definition spl_draw_shape_ok (x : spl_in) (d : spl_draw) : Prop :=
  length (fst (fst d)) = list_sum (map (size_of (spl_sizes x)) (map fst (spl_coh x))) /\
  (forall t calls,
     type_loop (fst (fst d)) (map fst (spl_coh x)) (map snd (spl_coh x)) (spl_sizes x) [] (snd (fst d))
       = inl (t, calls) ->
     forall pop, In (GShuffle pop) calls -> exists s, snd (fst d) = Some s /\ Permutation s pop).

Definition spl_params_ok (x : spl_in) : Prop :=
  slate_params_ok (spl_ivs x) (spl_sizes x) /\ coh_row_ok (spl_ivs x) (spl_coh x).

(* the recorded draws of one ballot are results the primitives can return: flips in (0,1) (the
   value 0, which np.random.uniform can return with probability 0, is a TypeError in the code), a
   recorded shuffle whenever one can be needed (some cohesion value is 0), valid per-slate orders *)
Definition spl_draw_ok (x : spl_in) (d : spl_draw) : Prop :=
  length (fst (fst d)) = list_sum (map (size_of (spl_sizes x)) (map fst (spl_coh x))) /\
  Forall (fun u => 0 < u /\ u < 1) (fst (fst d)) /\
  ((forall v, In v (map snd (spl_coh x)) -> 0 < v) \/ exists s, snd (fst d) = Some s) /\
  (forall t calls,
     type_loop (fst (fst d)) (map fst (spl_coh x)) (map snd (spl_coh x)) (spl_sizes x) [] (snd (fst d))
       = inl (t, calls) ->
     forall pop, In (GShuffle pop) calls -> exists s, snd (fst d) = Some s /\ Permutation s pop) /\
  orders_ok (spl_ivs x) (snd d).

Definition sbt_size (x : sbt_in) : nat := length (sbt_ballots x).

Definition sbt_shape_of (x : sbt_in) := complete_shape (slate_nz (sbt_ivs x)) (sbt_zero x).

Definition sbt_table (x : sbt_in) : list (list bloc * Q) :=
  slate_bt_pdf (sbt_sizes x) (sbt_own x) (sbt_opp x) (sbt_coh x).

Definition sm_size (x : sm_in) : nat := length (sm_steps x).

Definition sm_shape_of (x : sm_in) := complete_shape (slate_nz (sm_ivs x)) (sm_zero x).

Definition sm_params_ok (x : sm_in) : Prop :=
  NoDup (map fst (sm_ivs x)) /\ NoDup (slate_nz (sm_ivs x)) /\
  Permutation (sm_seed x) (slate_multiset (sm_ivs x)).

(* the calls a Plackett-Luce ballot logs: they depend on the interval and the length only *)
Definition pl_calls (iv : pinterval) (bl : nat) : list gcall :=
  GPL (pi_int iv) (Nat.min bl (length (pi_int iv))) ::
  (if Nat.eqb (bl - length (pi_int iv)) 0 then [] else [GUniSub (pi_zero iv) (bl - length (pi_int iv))]).

(* what is said of one slate ballot [b] built from type [t] and the recorded per-slate orders *)
Definition within_slate_order (ivs : list (bloc * pinterval)) (orders : list (bloc * list pcand))
           (b : gballot) : Prop :=
  forall bl iv, In (bl, iv) ivs -> pi_int iv <> [] ->
    filter (fun c => pmem c (map fst (pi_int iv))) (flat pcand (rk b)) = order_of orders bl /\
    valid_sample (map fst (pi_int iv)) (length (pi_int iv)) (order_of orders bl) = true.

Definition slate_calls (ivs : list (bloc * pinterval)) : list gcall :=
  map (fun x : bloc * pinterval => GPL (pi_int (snd x)) (length (pi_int (snd x))))
      (filter (fun x : bloc * pinterval => nonempty (pi_int (snd x))) ivs).

(* ---------- bloc-first versus opposing-first ballots (AlternatingCrossover, CambridgeSampler) *)
(* 1 when the ranking starts with a (single) candidate of [sl], else 0 *)
Definition first_in (sl : list pcand) (r : ranking pcand) : Q :=
  match r with
  | (c :: _) :: _ => if pmem c sl then 1 else 0
  | _ => 0
  end.
(* total weight of the ballots that start with a candidate of [sl] *)
Definition weight_first_in (sl : list pcand) (bs : list gballot) : Q :=
  qsum (map (fun b => wt b * first_in sl (rk b)) bs).
