(* Spec/OneShotSpec.v — small, readable vocabulary for the run-level statements about the rules that
   elect the top m of a score ranking in one step (Plurality / SNTV, Borda, GeneralRating, Limited,
   BlocPlurality): the scores from the English of C04, "the m highest scorers are elected" for an
   arbitrary scoring function (the conclusion of Properties/C05.v [c05_top_m] with the total replaced
   by [f]), and the valid input of each of these rules.  Definitions only. *)
From VK Require Import Base Core STV Rules.
From VK.Spec Require Import ScoreSpec EditSpec RatingSpec Anon TieSpec RunSpec.
From Coq Require Import Permutation.

Section WithCand.
Variable cand : Type.
Variable ceqb : cand -> cand -> bool.

Notation cset := (cset cand).
Notation ranking := (ranking cand).
Notation profile := (profile cand).
Notation flat := (flat cand).

(* first-place votes: every ballot gives weight / |first position| to each member of its first
   position and nothing to anybody else *)
Definition fpv_score (p : profile) (c : cand) : Q :=
  qsum (map (fun b => if memb cand ceqb c (hd [] (rk b))
                      then wt b / Qnat (length (hd [] (rk b))) else 0) (ballots p)).

(* positional score for the vector v: weight-summed allocation of every ballot, where
   [ballot_alloc] (Spec/ScoreSpec.v) gives a listed candidate the mean of the vector entries its
   position spans and lets the unlisted candidates share the next entries equally *)
Definition positional_score (p : profile) (v : list Q) (c : cand) : Q :=
  qsum (map (fun b => wt b * ballot_alloc cand ceqb (cands p) v (rk b) c) (ballots p)).

(* the outcome (elected groups [el], remaining groups [rem], recorded tiebreaks [tbs]) of electing
   m of the candidates [cs] by the scores [f], [r0] being the round-0 ranking *)
Definition top_m_by (f : cand -> Q) (cs : cset) (m : Z) (r0 el rem : ranking)
           (tbs : list (cset * ranking)) : Prop :=
  (* exactly m elected; elected and remaining partition the candidates *)
  Z.of_nat (length (flat el)) = m /\
  Permutation (flat el ++ flat rem) cs /\
  (* no elected candidate scores less than a remaining one *)
  (forall c1 c2, In c1 (flat el) -> In c2 (flat rem) -> f c2 <= f c1) /\
  (* groups are reported in descending score order: strictly, except inside the one group that the
     recorded tiebreak split *)
  (forall pre g1 mid g2 post c1 c2,
     el ++ rem = pre ++ g1 :: mid ++ g2 :: post -> In c1 g1 -> In c2 g2 ->
     f c2 < f c1 \/
     (f c1 == f c2 /\ exists g t, tbs = [(g, t)] /\ In c1 g /\ In c2 g)) /\
  (* members of one reported group have equal scores *)
  (forall g c1 c2, In g (el ++ rem) -> In c1 g -> In c2 g -> f c1 == f c2) /\
  (* equal scores are reported tied, unless the recorded tiebreak separated them *)
  (forall c1 c2, In c1 cs -> In c2 cs -> f c1 == f c2 ->
     (exists g, In g (el ++ rem) /\ In c1 g /\ In c2 g) \/
     (exists g t, tbs = [(g, t)] /\ In c1 g /\ In c2 g)) /\
  (* without a recorded tiebreak the round-0 ranking is reported unchanged *)
  (tbs = [] -> el ++ rem = r0) /\
  (* a recorded tiebreak is the only one and is a linear order of one whole group of the round-0
     ranking *)
  (forall g t, In (g, t) tbs ->
     tbs = [(g, t)] /\ In g r0 /\ exists l, t = singletons cand l /\ Permutation l g).

(* the candidates of [g] written in the order [l], cut after seat j: what a tiebreak of the group
   straddling the last seat produces *)
Definition split_group (pre post : ranking) (l : list cand) (j : nat) : ranking * ranking :=
  (pre ++ singletons cand (firstn j l), singletons cand (skipn j l) ++ post).

(* valid input of each one-shot rule: a ranked profile (ScoreSpec.wf_profile, no scores) for
   Plurality and Borda, with a valid score vector for Borda; for the rating family arguments and
   ballots accepted by GeneralRating (RatingSpec) on rated ballots (Anon.wf_rated_profile: no
   ranking, a score list without repeated keys over declared candidates) *)
Definition bloc_budget (m : Z) (k : option Z) : Z :=
  match k with Some x => if Z.eqb x 0 then m else x | None => m end.

Definition one_shot_valid (r : rule) (p : profile) : Prop :=
  match r with
  | RPlurality _ _ => ranked_profile cand p
  | RBorda _ v _ =>
      ranked_profile cand p /\
      valid_vector (match v with Some (x :: l) => x :: l | _ => default_borda cand p end)
  | RRating m L k _ =>
      rating_args_ok m L k /\ Forall (score_ballot_ok cand L k) (ballots p) /\ wf_rated_profile cand p
  | RLimited m k _ =>
      k <= inject_Z m /\ rating_args_ok m k (Some k) /\
      Forall (score_ballot_ok cand k (Some k)) (ballots p) /\ wf_rated_profile cand p
  | RBloc m k _ =>
      rating_args_ok m 1 (Some (inject_Z (bloc_budget m k))) /\
      Forall (score_ballot_ok cand 1 (Some (inject_Z (bloc_budget m k)))) (ballots p) /\
      wf_rated_profile cand p
  | _ => False
  end.

(* the rating family among them *)
Definition rating_rule (r : rule) : Prop :=
  match r with RRating _ _ _ _ | RLimited _ _ _ | RBloc _ _ _ => True | _ => False end.

End WithCand.
