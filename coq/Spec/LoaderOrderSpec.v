(* Spec/LoaderOrderSpec.v — specification vocabulary for the ORDER in which load_csv emits its
   ballots, and for the to_csv -> load_csv round trip (property C18, Model/Loaders.v).
   Definitions only, no proofs. *)
From VK Require Import Base Core Loaders.
From VK.Spec Require Import LoaderSpec.

#[local] Arguments CBlank {cand}.
#[local] Arguments CStr {cand}.
#[local] Arguments CNum {cand}.
#[local] Arguments CId {cand}.

(* ---------- first-occurrence de-duplication ---------- *)

(* keep the head, strike its later copies out of the de-duplicated tail: every value is kept at
   its FIRST occurrence only, the kept values stay in the order of these first occurrences *)
Fixpoint dedup_first {A : Type} (eqb : A -> A -> bool) (l : list A) : list A :=
  match l with
  | [] => []
  | x :: l' => x :: filter (fun y => negb (eqb x y)) (dedup_first eqb l')
  end.

(* an occurrence of x strictly before an occurrence of y *)
Definition before {A : Type} (x y : A) (l : list A) : Prop :=
  exists a b c, l = a ++ x :: b ++ y :: c.

(* the first occurrence of x precedes the first occurrence of y (so x <> y) *)
Definition first_before {A : Type} (x y : A) (l : list A) : Prop :=
  exists a b c, l = a ++ x :: b ++ y :: c /\ ~ In x a /\ ~ In y (a ++ x :: b).

Section WithCand.
Variable cand : Type.
Variable ceqb : cand -> cand -> bool.
Variable blank : cand.

Notation cell := (cell cand).

(* the distinct patterns of the selected rank columns, in the order of their first row *)
Definition patterns_in_order (ranks : list nat) (rows : list (list cell)) : list (list cell) :=
  dedup_first (row_eqb cand ceqb) (map (pattern cand ranks) rows).

(* ---------- to_csv rows, and two ways to lay them out as a table load_csv can be given ---------- *)

Definition csv_row : Type := (Q * ranking cand * list (cand * Q))%type.

(* (a) LITERAL layout, the file PreferenceProfile.to_csv writes: three fields per row, the weight
   as a number, the whole ranking tuple rendered as ONE string, the whole score tuple as ONE
   string.  [enc_rk] / [enc_sc] stand for the renderings (any functions at all). *)
Definition literal_cells (enc_rk : ranking cand -> cand) (enc_sc : list (cand * Q) -> cand)
           (row : csv_row) : list cell :=
  [CNum (fst (fst row)); CStr (enc_rk (snd (fst row))); CStr (enc_sc (snd row))].

(* (b) CVR layout, an explicit decoding of a to_csv row into the format load_csv reads: weight
   in column 0, then one cell per position of the ranking (a position that is not a single
   candidate has no CVR cell: it is left blank), short rankings padded with empty cells up to
   n rank columns.  Scores have no place in a CVR and are dropped. *)
Definition pos_cell (s : cset cand) : cell := match s with [c] => CStr c | _ => CBlank end.
Definition cvr_cells (n : nat) (row : csv_row) : list cell :=
  CNum (fst (fst row))
  :: map pos_cell (snd (fst row)) ++ repeat CBlank (n - length (snd (fst row))).

(* domain of the CVR layout: no scores, at most n positions, each a single named candidate *)
Definition cvr_ballot (n : nat) (b : ballot cand) : Prop :=
  sc b = [] /\ (length (rk b) <= n)%nat /\
  Forall (fun s => exists c, s = [c] /\ c <> blank) (rk b).

(* what a short ballot becomes in an n-column CVR: explicit blank positions at the end *)
Definition pad_rk (n : nat) (r : ranking cand) : ranking cand :=
  r ++ repeat [blank] (n - length r).
Definition pad_ballot (n : nat) (b : ballot cand) : ballot cand :=
  mkBallot (pad_rk n (rk b)) (wt b) (sc b) (bid b) (vs b).

End WithCand.
