(* Spec/TypesPushSpec.v — specification vocabulary for the PUSHFORWARD of the coin flips of
   sample_cohesion_ballot_types (property C16, slate-Plackett-Luce ballot types): which sets of
   flip vectors produce which ballot type, as finite unions of BOXES (products of half-open
   intervals) with exact rational volumes.  Small, readable definitions only; no proofs. *)
From VK Require Import Base Core GenValidation PrefInterval Generators Laws.
From VK.Spec Require Import GenSpec GenLaws.

(* ---------- intervals (lo, hi] of the unit interval ---------- *)
Definition interval := (Q * Q)%type.
Definition in_interval (u : Q) (iv : interval) : Prop := fst iv < u /\ u <= snd iv.
Definition iv_len (iv : interval) : Q := snd iv - fst iv.

(* the flips that select index i of [values]: (v_0 + ... + v_(i-1), v_0 + ... + v_i] *)
Definition bin_interval (values : list Q) (i : nat) : interval :=
  (qsum (firstn i values), qsum (firstn (S i) values)).

(* ---------- boxes ---------- *)
(* what the loop does once the flips it consumed lie in the box: either the type is complete, or
   the remaining cohesion values are all zero and the type is the prefix [p] followed by the result
   of random.shuffle on the multiset [rem] *)
Inductive outcome :=
| Finished (t : list bloc)
| Shuffled (p rem : list bloc).

(* one interval per flip actually consumed (the flips after a shuffle are not read: unconstrained) *)
Definition box := (list interval * outcome)%type.

(* componentwise membership of the consumed prefix of the flips *)
Definition in_box (flips : list Q) (ivs : list interval) : Prop :=
  Forall2 in_interval (firstn (length ivs) flips) ivs.

(* product of the side lengths (unconstrained coordinates contribute the factor 1) *)
Definition box_volume (ivs : list interval) : Q := fold_right (fun iv acc => iv_len iv * acc) 1 ivs.

Definition push_front (iv : interval) (bx : box) : box := (iv :: fst bx, snd bx).

(* the boxes of the loop state (n flips to go, active slates [blocs] with current [values], partial
   type [acc], most recent first): the same case analysis and the same state updates as
   [type_loop] / [law_types], the flip of each iteration ranging over the bin of the drawn index *)
Fixpoint type_boxes (n : nat) (blocs : list bloc) (values : list Q) (sizes : list (bloc * nat))
         (acc : list bloc) : list box :=
  match n with
  | O => [([], Finished (rev acc))]
  | S n' =>
      concat (map (fun i =>
        match nth_error blocs i with
        | None => []
        | Some b =>
            let acc' := b :: acc in
            map (push_front (bin_interval values i))
              (if Nat.eqb (count_bloc b acc') (size_of sizes b)
               then
                 let blocs' := remove_nth i blocs in
                 let values' := remove_nth i values in
                 let tot := qsum values' in
                 if Qeq_bool tot 0 && nonempty values'
                 then [([], Shuffled (rev acc') (type_remaining sizes blocs'))]
                 else type_boxes n' blocs' (map (fun v => v / tot) values') sizes acc'
               else type_boxes n' blocs values sizes acc')
        end) (seq 0 (length values)))
  end.

(* ---------- reading an outcome ---------- *)
(* the type returned, given the recorded result [sh] of random.shuffle (if any) *)
Definition outcome_type (o : outcome) (sh : option (list bloc)) (t : list bloc) : Prop :=
  match o with
  | Finished t' => t = t'
  | Shuffled p _ => exists s, sh = Some s /\ t = p ++ s
  end.

(* the primitive calls logged besides the flips *)
Definition outcome_calls (o : outcome) : list gcall :=
  match o with
  | Finished _ => []
  | Shuffled _ rem => [GShuffle rem]
  end.

(* the law of the type given the outcome: random.shuffle yields a uniformly random arrangement *)
Definition outcome_law (o : outcome) : dist (list bloc) :=
  match o with
  | Finished t => dret t
  | Shuffled p rem => dbind (uniform_of (arrangements_ms rem)) (fun s => dret (p ++ s))
  end.

(* the probability that the outcome is the type t: 1 or 0 when finished; after a shuffle
   1 / (number of distinct arrangements of rem) when t is p followed by such an arrangement *)
Definition outcome_weight (t : list bloc) (o : outcome) : Q :=
  match o with
  | Finished t' => if list_peqb t t' then 1 else 0
  | Shuffled p rem =>
      if existsb (fun s => list_peqb t (p ++ s)) (arrangements_ms rem)
      then 1 / Qnat (length (arrangements_ms rem)) else 0
  end.

(* volume of the flip vectors that yield the type t *)
Definition type_volume (t : list bloc) (boxes : list box) : Q :=
  qsum (map (fun bx => box_volume (fst bx) * outcome_weight t (snd bx)) boxes).
