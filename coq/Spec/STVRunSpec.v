(* Spec/STVRunSpec.v — vocabulary for the run-level statements of C02 / C03 / C10 on the STV family
   (Properties/C02_run.v, C03_trace.v, C10_stv2.v).  Definitions only; the facts are in
   Proofs/C02_run.v, C03_trace.v, C10_stv2.v.  Builds on Spec/STVSpec.v (tally, reaches,
   keep_share, exhausted_wt, ...), Spec/EditSpec.v (wt_where, maps_to, exhausted) and
   Spec/ReplaySpec.v (stv_trace: the profiles / records / random-source states of a run, round by
   round). *)
From VK Require Import Base Core STV EditSpec.
From VK.Spec Require Import STVSpec TieSpec.
From Coq Require Import Permutation.

Section WithCand.
Variable cand : Type.
Variable ceqb : cand -> cand -> bool.

Notation cset := (cset cand).
Notation ranking := (ranking cand).
Notation ballot := (ballot cand).
Notation profile := (profile cand).
Notation scores := (scores cand).
Notation estate := (estate cand).
Notation mstate := (mstate cand).
Notation flat := (flat cand).
Notation strip := (strip cand ceqb).
Notation first_is := (first_is cand ceqb).
Notation total_wt := (total_wt cand).
Notation tally := (tally cand ceqb).

(* ---------- the random (Cambridge) transfer inside a round ---------- *)

(* the ballot is led by one of the candidates of W *)
Definition led_by (W : cset) (b : ballot) : bool :=
  match head_cand cand b with Some h => memb cand ceqb h W | None => false end.

(* [l] is a legal sample of whole ballots from the pile of winner w (threshold t, ballots bs):
   it has exactly tally w - t rankings; each is the continuation (w struck out, somebody left) of a
   ballot led by w; no ranking is drawn more often than the pile carries it *)
Definition sample_of (t : Q) (bs : list ballot) (w : cand) (l : list ranking) : Prop :=
  Qnat (length l) == tally w bs - t /\
  (forall r, In r l ->
     exists b, In b bs /\ first_is w b = true /\ strip [w] (rk b) <> [] /\
               ranking_eqb cand ceqb r (strip [w] (rk b)) = true) /\
  (forall r, In r l ->
     inject_Z (count_rk cand ceqb r l)
     <= wt_where cand (fun b => first_is w b && maps_to cand ceqb [w] r b) bs).

(* the weaker description used by the total-weight accounting of C03 *)
Definition sample_size (t : Q) (bs : list ballot) (w : cand) (l : list ranking) : Prop :=
  Qnat (length l) == tally w bs - t /\ forall r, In r l -> nonempty (strip [w] r) = true.

(* sampled rankings that arrive on r' once all of W is struck out / that are left with nobody *)
Definition samples_to (W : cset) (r' : ranking) (ls : list (list ranking)) : nat :=
  length (filter (fun r => ranking_eqb cand ceqb r' (strip W r)) (concat ls)).
Definition samples_dead (W : cset) (ls : list (list ranking)) : nat :=
  length (filter (fun r => negb (nonempty (strip W r))) (concat ls)).

(* ---------- C02: where the ballots of one round go, ranking by ranking ---------- *)

(* the round from (pr, sa) to (pr', st', sb), threshold t, n candidates elected before it:
   (E) somebody reaches t; fractional / full-weight rule: each continuing ranking r' receives the
       ballots that map to it when the winners W are struck out, winner-led ballots at
       weight*(tally-t)/tally (resp. full weight), the others untouched; random rule: r' receives
       one unit per sampled ranking that maps to it, plus the ballots not led by a winner;
   (D) default election: no ballot is left;
   (X) elimination of x: the ballots move on at full weight with x struck out *)
Definition round_weights (cfg : stv_cfg) (t : Q) (n : Z) (pr pr' : profile) (st' : estate)
           (sa sb : mstate) : Prop :=
  let bs := ballots pr in
  let W := flat (elected st') in
  let k := s_transfer cfg in
  ((exists c, reaches cand ceqb t pr c) /\
   (k <> TRandom ->
      forall r' : ranking, nonempty r' = true ->
        wtof_rk cand ceqb r' (ballots pr') ==
        moved_to cand ceqb W (keep_share cand ceqb k W t bs) r' bs) /\
   (k = TRandom ->
      exists (pre : list (draw cand)) (ls : list (list ranking)),
        scr sa = pre ++ map (fun l => DRanks l) ls ++ scr sb /\
        Forall2 (sample_of t bs) W ls /\
        forall r' : ranking, nonempty r' = true ->
          wtof_rk cand ceqb r' (ballots pr') ==
          Qnat (samples_to W r' ls) +
          wt_where cand (fun b => negb (led_by W b) && maps_to cand ceqb W r' b) bs))
  \/
  ((forall c, In c (cands pr) -> tally c bs < t) /\
   Z.of_nat (length (cands pr)) = (s_m cfg - n)%Z /\ ballots pr' = [])
  \/
  ((forall c, In c (cands pr) -> tally c bs < t) /\
   Z.of_nat (length (cands pr)) <> (s_m cfg - n)%Z /\
   exists x, eliminated st' = [[x]] /\
     forall r' : ranking, nonempty r' = true ->
       wtof_rk cand ceqb r' (ballots pr') == wt_where cand (maps_to cand ceqb [x] r') bs).

(* ---------- C03: where the weight of one round goes ---------- *)

(* the round from (pr, random source sa) to (pr', record st', random source sb), threshold t,
   n candidates elected before it.  Exactly one of:
   (E) somebody reaches t: with the fractional rule the weight drops by t per elected candidate plus
       the transferred weight of the ballots left with no surviving choice; with the full-weight
       rule only by the latter; with the random rule by t per elected candidate plus one unit per
       sampled ballot left with no surviving choice (one sample per winner, consumed from the
       script after the draws [pre] of a possible tie-break);
   (D) nobody reaches t and the candidates equal the open seats: no ballot had a surviving choice
       outside the elected, all the weight goes;
   (X) otherwise one candidate x is eliminated and exactly the ballots listing only x go. *)
Definition round_accounting (cfg : stv_cfg) (t : Q) (n : Z) (pr pr' : profile) (st' : estate)
           (sa sb : mstate) : Prop :=
  let bs := ballots pr in
  let W := flat (elected st') in
  let k := s_transfer cfg in
  ((exists c, reaches cand ceqb t pr c) /\
   (k <> TRandom ->
      total_wt bs - total_wt (ballots pr') ==
        match k with TFractional => t * Qnat (length W) | _ => 0 end
        + exhausted_wt cand ceqb W (keep_share cand ceqb k W t bs) bs /\
      0 <= exhausted_wt cand ceqb W (keep_share cand ceqb k W t bs) bs) /\
   (k = TRandom ->
      exists (pre : list (draw cand)) (ls : list (list ranking)),
        scr sa = pre ++ map (fun l => DRanks l) ls ++ scr sb /\
        Forall2 (sample_size t bs) W ls /\
        total_wt bs - total_wt (ballots pr') == t * Qnat (length W) + Qnat (samples_dead W ls)))
  \/
  ((forall c, In c (cands pr) -> tally c bs < t) /\
   Z.of_nat (length (cands pr)) = (s_m cfg - n)%Z /\
   ballots pr' = [] /\ (forall b, In b bs -> exhausted cand ceqb W b = true) /\
   total_wt bs - total_wt (ballots pr') == wt_where cand (exhausted cand ceqb W) bs)
  \/
  ((forall c, In c (cands pr) -> tally c bs < t) /\
   Z.of_nat (length (cands pr)) <> (s_m cfg - n)%Z /\
   exists x, eliminated st' = [[x]] /\
     total_wt bs - total_wt (ballots pr') == wt_where cand (exhausted cand ceqb [x]) bs).

(* ---------- C10: what a tiebreak recorded in an STV round means ---------- *)

(* the order [l] lists candidates by non-increasing score in d *)
Definition ordered_by (d : scores) (l : list cand) : Prop :=
  forall pre a mid b post qa qb, l = pre ++ a :: mid ++ b :: post ->
    In (a, qa) d -> In (b, qb) d -> qb <= qa.

(* how a first_place / borda tiebreak of the set g on profile q produced tt from the random source
   (state sa before, s1 after): with d the first-place (resp. Borda) scores of q, tt lists g by
   non-increasing score; the candidates of g are grouped by equal score (ranking r), exactly one
   permutation is drawn for each group of two or more, in order, and tt is r with those groups
   replaced by the drawn orders *)
Definition scored_resolution (kind : tb_kind) (q : profile) (g : cset) (tt : ranking)
           (sa s1 : mstate) : Prop :=
  exists d : scores,
    ((kind = TBFirstPlace /\ first_place_votes cand ceqb q = inl d) \/
     (kind = TBBorda /\ borda_scores cand ceqb q = inl d)) /\
    (forall l, tt = singletons cand l -> ordered_by d l) /\
    let r := score_to_ranking cand (filter (fun x => memb cand ceqb (fst x) g) d) true in
    exists ls : list (list cand),
      scr sa = map (fun l => DPerm l) ls ++ scr s1 /\
      Forall2 (fun l sg => Permutation l sg /\ NoDup l) ls (filter (big cand) r) /\
      tt = rebuild cand r ls.

(* a random tiebreak: one draw, a permutation of the whole set *)
Definition random_resolution (g : cset) (tt : ranking) (sa s1 : mstate) : Prop :=
  exists l, scr sa = DPerm l :: scr s1 /\ tt = singletons cand l /\ Permutation l g /\ NoDup l.

Definition resolution (kind : tb_kind) (q : profile) (g : cset) (tt : ranking) (sa s1 : mstate)
  : Prop :=
  match kind with
  | TBRandom => random_resolution g tt sa s1
  | TBFirstPlace | TBBorda => scored_resolution kind q g tt sa s1
  | TBInvalid => False
  end.

(* (g, tt) recorded in the round from (pr, prev, sa) to (st, sb) of a run on p0 with threshold t:
   g is a genuine tie of two or more candidates of pr; either
   - one-by-one election: g is the top group of the previous ranking = exactly the candidates of pr
     with the maximal tally k >= t; tt is the answer of the configured tiebreak ON THE PROFILE pr
     OF THE TRACE, consumed from sa (leaving s1, from which the transfer continues to sb; s1 = sb
     unless the transfer is random); it is a strict order of g whose first candidate is elected; or
   - elimination: nobody reaches t, g is the last group = exactly the candidates of pr with the
     minimal tally k; tt is the answer of the first_place tiebreak ON THE INITIAL PROFILE p0,
     consumed from sa leaving sb; a strict order of g whose last candidate x is eliminated *)
Definition stv_tie (cfg : stv_cfg) (t : Q) (p0 pr : profile) (prev st : estate) (sa sb : mstate)
           (g : cset) (tt : ranking) : Prop :=
  tiebreaks st = [(g, tt)] /\ (2 <= length g)%nat /\ NoDup g /\
  incl g (cands pr) /\ incl (cands pr) (cands p0) /\
  exists k : Q,
    tied_at cand (escores prev) g k /\
    (forall c, In c g <-> In c (cands pr) /\ tally c (ballots pr) == k) /\
    ((exists post kind s1 l,
        s_simul cfg = false /\ s_tiebreak cfg = Some kind /\ remaining prev = g :: post /\
        t <= k /\ (forall c, In c (cands pr) -> tally c (ballots pr) <= k) /\
        tiebreak_set cand ceqb g (Some pr) kind sa = inl (tt, s1) /\
        resolution kind pr g tt sa s1 /\
        scr_suffix cand s1 sb /\ (s_transfer cfg <> TRandom -> s1 = sb) /\
        tt = singletons cand l /\ Permutation l g /\ NoDup l /\
        elected st = firstn 1 tt /\ eliminated st = no_group cand)
     \/
     (exists rest x l',
        (forall c, In c (cands pr) -> tally c (ballots pr) < t) /\
        rev (remaining prev) = g :: rest /\
        (forall c, In c (cands pr) -> k <= tally c (ballots pr)) /\
        tiebreak_set cand ceqb g (Some p0) TBFirstPlace sa = inl (tt, sb) /\
        scored_resolution TBFirstPlace p0 g tt sa sb /\
        tt = singletons cand (l' ++ [x]) /\ Permutation (l' ++ [x]) g /\ NoDup (l' ++ [x]) /\
        eliminated st = [[x]] /\ elected st = no_group cand)).

End WithCand.
