(* Spec/QuerySpec.v — small, readable vocabulary for C09 (round-by-round queries of a finished
   election), written from the Python of models.py, independently of Model/Rules.v. *)
From VK Require Import Base Core STV.

Section WithCand.
Variable cand : Type.

Notation ranking := (ranking cand).
Notation estate := (estate cand).

(* valid Python indices into a list of length n, and the position they address *)
Definition in_range (n : nat) (i : Z) : Prop := (- Z.of_nat n <= i <= Z.of_nat n - 1)%Z.
Definition round_of (n : nat) (i : Z) : nat :=
  Z.to_nat (if (i <? 0)%Z then Z.of_nat n + i else i).

(* the field value (frozenset(),) : "nobody this round" *)
Definition is_sentinel (g : ranking) : bool :=
  match g with [[]] => true | _ => false end.

(* [s for state in states[:r+1] for s in state.elected if state.elected != (frozenset(),)] *)
Definition elected_upto (sts : list estate) (r : nat) : ranking :=
  concat (map (fun s => elected s)
              (filter (fun s => negb (is_sentinel (elected s))) (firstn (S r) sts))).

(* [s for state in states[r::-1] for s in state.eliminated[::-1]
      if state.eliminated != (frozenset(),)] *)
Definition eliminated_upto (sts : list estate) (r : nat) : ranking :=
  concat (map (fun s => rev (eliminated s))
              (filter (fun s => negb (is_sentinel (eliminated s))) (rev (firstn (S r) sts)))).

(* candidate c is named in a field of the record of one round *)
Definition in_elected (c : cand) (s : estate) : Prop := In c (flat cand (elected s)).
Definition in_eliminated (c : cand) (s : estate) : Prop := In c (flat cand (eliminated s)).
Definition in_remaining (c : cand) (s : estate) : Prop := In c (flat cand (remaining s)).
Definition touched (c : cand) (s : estate) : Prop := in_elected c s \/ in_eliminated c s.
Definition seen (c : cand) (s : estate) : Prop := touched c s \/ in_remaining c s.

(* "the last round of [l] (oldest first) that satisfies Q is s, at position |l1|, and no later
   round satisfies P" *)
Definition last_with (P Q : estate -> Prop) (l : list estate) (l1 : list estate) (s : estate)
  : Prop :=
  exists l2, l = l1 ++ s :: l2 /\ Q s /\ Forall (fun s' => ~ P s') l2.

(* partition invariant for candidate c along the rounds l (oldest first): a round that elects or
   eliminates c does only one of the two, does not also keep c as remaining, and c is named in no
   field of any later round *)
Definition settled_once (c : cand) (l : list estate) : Prop :=
  forall l1 s l2, l = l1 ++ s :: l2 -> touched c s ->
    ~ (in_elected c s /\ in_eliminated c s) /\ ~ in_remaining c s /\
    Forall (fun s' => ~ seen c s') l2.

(* status codes of get_status_df *)
Definition st_remaining : Z := 1.
Definition st_elected : Z := 2.
Definition st_eliminated : Z := 3.

End WithCand.
