(* Spec/Content.v — specification vocabulary for property C11 (ballot contents).
   A ballot's *content* is its (ranking, scores) pair, where position groups are compared
   as sets and score maps as sets of (candidate, value) pairs up to Qeq.  Weight, id and voter
   set are not part of the content.  Only definitions here; facts are in Proofs/Lib_content.v. *)
From VK Require Import Base Core.

Section Content.
Variable cand : Type.
Variable ceqb : cand -> cand -> bool.

(* same (ranking, scores) content; this is literally the model's [key_match] *)
Definition same_content (b b' : ballot cand) : bool :=
  ranking_eqb cand ceqb (rk b) (rk b') && scores_eqb cand ceqb (sc b) (sc b').

(* total weight a list of ballots gives to the content of k *)
Definition wtof (k : ballot cand) (bs : list (ballot cand)) : Q :=
  qsum (map wt (filter (same_content k) bs)).

(* pairwise different contents *)
Definition distinct_contents (l : list (ballot cand)) : Prop :=
  ForallOrdPairs (fun a b => same_content a b = false) l.

(* a condensed ballot carries neither id nor voter set *)
Definition anonymous (b : ballot cand) : Prop := bid b = None /\ vs b = None.

End Content.
