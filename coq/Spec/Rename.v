(* Spec/Rename.v — renaming of candidates through a function [f : A -> B], spelled out on every
   data type of the model (specification vocabulary of property C08).  A renaming maps [f] over
   every candidate occurrence and leaves weights, scores' values, ids, round numbers, error codes
   and all other non-candidate data untouched.  Only definitions here. *)
From VK Require Import Base Core STV Pairwise Rules.

Section Rename.
Variables A B : Type.
Variable f : A -> B.

Definition rn_cset (s : cset A) : cset B := map f s.
Definition rn_ranking (r : ranking A) : ranking B := map rn_cset r.
Definition rn_scores (d : scores A) : scores B := map (fun p => (f (fst p), snd p)) d.

Definition rn_ballot (b : ballot A) : ballot B :=
  mkBallot (rn_ranking (rk b)) (wt b) (rn_scores (sc b)) (bid b) (vs b).
Definition rn_ballots (bs : list (ballot A)) : list (ballot B) := map rn_ballot bs.
Definition rn_profile (p : profile A) : profile B :=
  mkProfile (rn_ballots (ballots p)) (rn_cset (cands p)).

(* a recorded tiebreak: (the tied set, its resolution) *)
Definition rn_tiebreak (t : cset A * ranking A) : cset B * ranking B :=
  (rn_cset (fst t), rn_ranking (snd t)).

(* one round of an election *)
Definition rn_state (s : estate A) : estate B :=
  mkState (rnd s) (rn_ranking (remaining s)) (rn_ranking (elected s)) (rn_ranking (eliminated s))
          (map rn_tiebreak (tiebreaks s)) (rn_scores (escores s)).
Definition rn_states (l : list (estate A)) : list (estate B) := map rn_state l.

(* scripted results of the random primitives, and the log of the calls made to them *)
Definition rn_pop (pop : list (ranking A * Q)) : list (ranking B * Q) :=
  map (fun x => (rn_ranking (fst x), snd x)) pop.
Definition rn_draw (d : draw A) : draw B :=
  match d with
  | DPerm l => DPerm (rn_cset l)
  | DRank r => DRank (rn_ranking r)
  | DRanks l => DRanks (map rn_ranking l)
  | DUnit q => DUnit q
  | DCand c => DCand (f c)
  | DIdxs l => DIdxs l
  end.
Definition rn_call (c : call A) : call B :=
  match c with
  | CSample pop => CSample (rn_cset pop)
  | CChoices pop => CChoices (rn_pop pop)
  | CSampleBallots pop k => CSampleBallots (rn_pop pop) k
  | CUniform => CUniform
  | CNpChoice pop => CNpChoice (rn_scores pop)
  | CShuffle n => CShuffle n
  end.
Definition rn_mstate (s : mstate A) : mstate B :=
  mkM (map rn_draw (scr s)) (map rn_call (lg s)).

(* results: [rn_res g] renames a pure result with [g] and keeps an error as it is;
   [rn_mres g] does the same for a monadic result (value, final draw script and call log) *)
Definition rn_res {X Y : Type} (g : X -> Y) (r : res X) : res Y :=
  match r with inl x => inl (g x) | inr e => inr e end.
Definition rn_mres {X Y : Type} (g : X -> Y) (r : res (X * mstate A)) : res (Y * mstate B) :=
  match r with inl (x, s) => inl (g x, rn_mstate s) | inr e => inr e end.

(* pairwise comparison graph *)
Definition rn_edges (es : list (A * A * Q)) : list (B * B * Q) :=
  map (fun e => (f (fst (fst e)), f (snd (fst e)), snd e)) es.
Definition rn_pwc (g : pwc A) : pwc B :=
  mkPwc B (rn_cset (pw_cands g)) (rn_edges (pw_dict g)) (rn_ranking (pw_tiers g)).

(* the result of elect_top_m: (elected, remaining, recorded tiebreak) *)
Definition rn_elect (x : ranking A * ranking A * option (cset A * ranking A))
  : ranking B * ranking B * option (cset B * ranking B) :=
  (rn_ranking (fst (fst x)), rn_ranking (snd (fst x)), option_map rn_tiebreak (snd x)).

End Rename.
Arguments rn_cset {A B}%type_scope f%function_scope _.
Arguments rn_ranking {A B}%type_scope f%function_scope _.
Arguments rn_scores {A B}%type_scope f%function_scope _.
Arguments rn_ballot {A B}%type_scope f%function_scope _.
Arguments rn_ballots {A B}%type_scope f%function_scope _.
Arguments rn_profile {A B}%type_scope f%function_scope _.
Arguments rn_tiebreak {A B}%type_scope f%function_scope _.
Arguments rn_state {A B}%type_scope f%function_scope _.
Arguments rn_states {A B}%type_scope f%function_scope _.
Arguments rn_pop {A B}%type_scope f%function_scope _.
Arguments rn_draw {A B}%type_scope f%function_scope _.
Arguments rn_call {A B}%type_scope f%function_scope _.
Arguments rn_mstate {A B}%type_scope f%function_scope _.
Arguments rn_edges {A B}%type_scope f%function_scope _.
Arguments rn_pwc {A B}%type_scope f%function_scope _.
Arguments rn_elect {A B}%type_scope f%function_scope _.
Arguments rn_mres {A B}%type_scope f%function_scope {X Y}%type_scope g%function_scope r.
