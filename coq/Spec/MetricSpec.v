(* Spec/MetricSpec.v — specification vocabulary for property C19 (Lp distance between profiles,
   the ballot graph).  Small, readable definitions only; facts are in Proofs/C19_*.v. *)
From VK Require Import Base Core Metrics.
From Coq Require Import Permutation Qabs.

Section WithCand.
Variable cand : Type.
Variable ceqb : cand -> cand -> bool.

Notation ranking := (ranking cand).
Notation ballot := (ballot cand).
Notation profile := (profile cand).

(* ---------- Part 1: the normalised ranking-weight distribution of a profile ---------- *)

(* weight a ballot list gives to ranking r (rankings compared position by position as sets);
   a ballot without ranking is filed under the one-empty-group ranking [[]] *)
Definition rwt (r : ranking) (bs : list ballot) : Q :=
  qsum (map wt (filter (fun b => ranking_eqb cand ceqb r (rk_or_empty cand b)) bs)).

(* share of the profile's total weight carried by ranking r *)
Definition ndist (p : profile) (r : ranking) : Q := rwt r (ballots p) / total_wt cand (ballots p).

(* a list of rankings without repetition (up to [ranking_eqb]) ... *)
Definition distinct_keys (ks : list ranking) : Prop :=
  ForallOrdPairs (fun a b => ranking_eqb cand ceqb a b = false) ks.

(* ... that lists the ranking of every ballot cast in p *)
Definition covers (ks : list ranking) (p : profile) : Prop :=
  forall b, In b (ballots p) ->
    exists k, In k ks /\ ranking_eqb cand ceqb k (rk_or_empty cand b) = true.

(* r is the ranking of some ballot of p *)
Definition cast_in (p : profile) (r : ranking) : Prop :=
  exists b, In b (ballots p) /\ ranking_eqb cand ceqb r (rk_or_empty cand b) = true.

(* |share in p1 - share in p2| *)
Definition absdiff (p1 p2 : profile) (r : ranking) : Q := Qabs (ndist p1 r - ndist p2 r).

(* sum over the key list of |difference|^n  — the n-th power of the L_n distance *)
Definition lp_pow_sum (p1 p2 : profile) (n : nat) (ks : list ranking) : Q :=
  qsum (map (fun r => absdiff p1 p2 r ^ Z.of_nat n) ks).

(* m is the largest element of l *)
Definition is_max (m : Q) (l : list Q) : Prop :=
  (exists x, In x l /\ m == x) /\ (forall x, In x l -> x <= m).

(* ballots are present but their weights add up to zero: standardising divides by zero *)
Definition degenerate (p : profile) : Prop :=
  ballots p <> [] /\ total_wt cand (ballots p) == 0.

(* every weight multiplied by c, rankings unchanged *)
Definition rescaled (c : Q) (bs bs' : list ballot) : Prop :=
  Forall2 (fun b b' => rk b' = rk b /\ wt b' == c * wt b) bs bs'.

(* ---------- Part 2: loading a profile on the ballot graph ---------- *)

(* 1-based position of c in cs, 0 when absent *)
Fixpoint pos_of (c : cand) (cs : list cand) : nat :=
  match cs with
  | [] => 0%nat
  | x :: cs' => if ceqb c x then 1%nat
                else match pos_of c cs' with O => O | S i => S (S i) end
  end.

(* the numbers 1..n absent from nums *)
Definition missing (n : nat) (nums : list nat) : list nat :=
  filter (fun i => negb (existsb (Nat.eqb i) nums)) (seq 1 n).

(* the node a ballot is filed under: the positions of its candidates in the candidate list, the
   missing candidate appended when exactly one is unranked *)
Definition spec_ballot_node (cs : list cand) (b : ballot) : node :=
  let nums := map (fun c => pos_of c cs) (flat cand (rk b)) in
  if Nat.eqb (length nums) (length cs - 1) then nums ++ missing (length cs) nums else nums.

(* an untied, non-empty ranking of distinct candidates of cs *)
Definition linear_ballot (cs : list cand) (b : ballot) : Prop :=
  rk b <> [] /\ Forall (fun s => length s = 1%nat) (rk b) /\
  NoDup (flat cand (rk b)) /\ incl (flat cand (rk b)) cs.

End WithCand.

(* weight recorded for node k *)
Definition weight_at (ws : list (node * Q)) (k : node) : Q :=
  match find (fun x => node_eqb (fst x) k) ws with Some x => snd x | None => 0 end.

Local Open Scope nat_scope.

(* a ranking of length 1..n except n-1 of distinct numbers from 1..n *)
Definition valid_node (n : nat) (k : node) : Prop :=
  NoDup k /\ (forall x, In x k -> 1 <= x <= n) /\ 1 <= length k <= n /\ length k <> n - 1.

(* b is a with two adjacent entries exchanged *)
Definition adjacent_swap (a b : node) : Prop :=
  exists l x y r, a = l ++ x :: y :: r /\ b = l ++ y :: x :: r.

(* b is a plus one more ranked candidate at the end; a ranking of n-2 candidates is also joined
   to its completions of length n *)
Definition extends_last (n : nat) (a b : node) : Prop :=
  (exists x, b = a ++ [x]) \/
  (length a = n - 2 /\ length b = n /\ 2 <= n /\ exists t, b = a ++ t).

Definition spec_adjacent_prop (n : nat) (a b : node) : Prop :=
  adjacent_swap a b \/ extends_last n a b \/ extends_last n b a.

(* {a,b} is an edge of g *)
Definition has_edge (g : graph) (a b : node) : Prop :=
  In (a, b) (g_edges g) \/ In (b, a) (g_edges g).
