(* Spec/GenLaws.v — specification vocabulary for property C16 (generated ballots follow the
   documented model distributions): the laws of the trusted primitives as finite rational
   distributions ([dist] of Model/Laws.v) and the closed forms the property states.
   Definitions only; no proofs. *)
From VK Require Import Base Core GenValidation PrefInterval Generators Laws BTSpec.

(* ---------- np.random.choice(cands, k, p=p, replace=False): successive sampling ---------- *)
(* remove the (first) entry of candidate c *)
Fixpoint remove_key (c : pcand) (pop : list (pcand * Q)) : list (pcand * Q) :=
  match pop with
  | [] => []
  | p :: rest => if Pos.eqb c (fst p) then rest else p :: remove_key c rest
  end.

(* pick c with probability w_c / (total weight still present), remove it, repeat k times *)
Fixpoint law_pl (pop : list (pcand * Q)) (k : nat) : dist (list pcand) :=
  match k with
  | O => dret []
  | S k' =>
      dbind (categorical pop) (fun c =>
        dbind (law_pl (remove_key c pop) k') (fun o => dret (c :: o)))
  end.

(* prod_i w(c_i) / (W - sum_{j<i} w(c_j)) *)
Fixpoint pl_closed (w : pcand -> Q) (W : Q) (order : list pcand) : Q :=
  match order with
  | [] => 1
  | c :: o => (w c / W) * pl_closed w (W - w c) o
  end.

(* ---------- np.random.choice(cands, k, p=p, replace=True): independent draws ---------- *)
Fixpoint law_iid (pop : list (pcand * Q)) (k : nat) : dist (list pcand) :=
  match k with
  | O => dret []
  | S k' => dbind (categorical pop) (fun c => dbind (law_iid pop k') (fun o => dret (c :: o)))
  end.

Fixpoint iid_closed (w : pcand -> Q) (W : Q) (draws : list pcand) : Q :=
  match draws with
  | [] => 1
  | c :: o => (w c / W) * iid_closed w W o
  end.

(* ---------- name-Plackett-Luce: one complete ballot from the (combined) interval ---------- *)
Definition pl_ballot_of (iv : pinterval) (order : list pcand) : gballot :=
  unit_ballot (rank_of order (pi_zero iv)).
Definition law_name_pl (iv : pinterval) : dist gballot :=
  dbind (law_pl (pi_int iv) (length (pi_int iv))) (fun o => dret (pl_ballot_of iv o)).

(* ---------- name-Cumulative: one ballot ---------- *)
Definition law_cumulative (iv : pinterval) (num_votes : nat) : dist gballot :=
  dbind (law_iid (pi_int iv) num_votes)
        (fun d => dret (mkBallot [] 1 (count_scores d []) None None)).

(* ---------- sample_cohesion_ballot_types ----------
   draw a slate with probability its (renormalised) cohesion value; when a slate is used up remove
   it and renormalise; if all remaining values are zero complete by a uniformly random arrangement
   of what is left *)
Definition type_remaining (sizes : list (bloc * nat)) (blocs : list bloc) : list bloc :=
  concat (map (fun b' => repeat b' (match find (fun x => Pos.eqb b' (fst x)) sizes
                                    with Some x => snd x | None => O end)) blocs).

Fixpoint law_types (n : nat) (blocs : list bloc) (values : list Q) (sizes : list (bloc * nat))
         (acc : list bloc) : dist (list bloc) :=
  match n with
  | O => dret (rev acc)
  | S n' =>
      dbind (categorical (combine (seq 0 (length values)) values)) (fun i =>
        match nth_error blocs i with
        | None => []
        | Some b =>
            let acc' := b :: acc in
            let size := match find (fun x => Pos.eqb b (fst x)) sizes with Some x => snd x | None => O end in
            if Nat.eqb (count_bloc b acc') size
            then
              let blocs' := remove_nth i blocs in
              let values' := remove_nth i values in
              let tot := qsum values' in
              if Qeq_bool tot 0 && nonempty values'
              then dbind (uniform_of (arrangements_ms (type_remaining sizes blocs')))
                         (fun s => dret (rev acc' ++ s))
              else law_types n' blocs' (map (fun v => v / tot) values') sizes acc'
            else law_types n' blocs values sizes acc'
        end)
  end.

(* ---------- MCMC chains ---------- *)
(* stationary weight of the name-Bradley-Terry chain: prod_i x_i^(n-1-i), which is the
   Bradley-Terry weight prod_{i<j} x_i/(x_i+x_j) up to a constant (C15) *)
Definition bt_stat (iv : list (pcand * Q)) (x : list pcand) : Q := make_pow (map (lookupP iv) x).

(* own-above-other and other-above-own pairs of a ballot type *)
Fixpoint own_above (own : bloc) (t : list bloc) : nat :=
  match t with
  | [] => O
  | x :: t' => ((if Pos.eqb x own then length (filter (fun y => negb (Pos.eqb y own)) t') else O)
                + own_above own t')%nat
  end.
Fixpoint own_below (own : bloc) (t : list bloc) : nat :=
  match t with
  | [] => O
  | x :: t' => ((if Pos.eqb x own then O else count_bloc own t') + own_below own t')%nat
  end.
(* documented stationary weight of the slate-Bradley-Terry chain: c^(own above) (1-c)^(own below);
   for two slates this is [slate_weight c own opp] of C15 *)
Definition slate_stat (own : bloc) (c : Q) (t : list bloc) : Q :=
  Qpow' c (own_above own t) * Qpow' (1 - c) (own_below own t).

(* a proposal "swap positions j, j+1" drawn uniformly among m positions, accepted with probability
   [acc x j] (a uniform number on [0,1) is compared with it, so values above 1 act as 1):
   one-step transition probability from x to y *)
Definition indic (b : bool) : Q := if b then 1 else 0.
Definition swap_kernel {A : Type} (eqb : list A -> list A -> bool) (acc : list A -> nat -> Q)
           (m : nat) (x y : list A) : Q :=
  qsum (map (fun j => (1 / Qnat m) *
                      (Qmin1 (acc x j) * indic (eqb (swap_adj j x) y) +
                       (1 - Qmin1 (acc x j)) * indic (eqb x y)))
            (seq 0 m)).
