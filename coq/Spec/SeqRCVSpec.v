(* Spec/SeqRCVSpec.v — one word of vocabulary for the wrapper-level reading of SequentialRCV's
   full-weight transfer (Properties/C13_alaska2.v).  Definitions only. *)
From VK Require Import Base Core.

Section WithCand.
Variable cand : Type.
Variable ceqb : cand -> cand -> bool.

(* once the candidates of W are struck out of ballot b, its first surviving choice is c *)
Definition next_is (W : cset cand) (c : cand) (b : ballot cand) : bool :=
  match strip cand ceqb W (rk b) with
  | g :: _ => cset_eqb cand ceqb g [c]
  | [] => false
  end.

End WithCand.
