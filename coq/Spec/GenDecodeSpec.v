(* Spec/GenDecodeSpec.v — the decoders of the generator entry points of Model/Dispatch.v
   (op_gen_pl ... op_gen_cambridge), collected per argument record: each is literally the sequence
   of decoding steps the op performs on one bloc (or one ballot) of its encoded argument, returning
   the typed record of Spec/GenRunSpec.v instead of running the kernel.  Used to state that an op is
   the encoding of the typed run function on the decoded argument (Properties/C14_dispatch.v).
   Definitions only. *)
From VK Require Import Base Core GenValidation PrefInterval Generators Generators2 Dispatch.
From VK.Spec Require Import GenSpec GenRunSpec.

Definition dPlBloc (b : val) : res pl_in :=
  match b with
  | VL [bid; iv; draws] =>
      let! bid' := dPos bid in let! iv' := dPI iv in
      let! ds := dList (dPair dCands dCands) draws in ok (bid', iv', ds)
  | _ => err EScript
  end.

Definition dCumBloc (b : val) : res cum_in :=
  match b with
  | VL [bid; iv; draws] =>
      let! bid' := dPos bid in let! iv' := dPI iv in
      let! ds := dList dCands draws in ok (bid', iv', ds)
  | _ => err EScript
  end.

Definition dBtBloc (b : val) : res bt_in :=
  match b with
  | VL [bid; iv; n; draws] =>
      let! bid' := dPos bid in let! iv' := dPI iv in let! n' := dNat n in
      let! ds := dList dCands draws in ok (bid', iv', n', ds)
  | _ => err EScript
  end.

Definition dSplDraw (x : val) : res spl_draw :=
  match x with
  | VL [flips; sh; orders] =>
      let! fl := dList dQ flips in let! sh' := dOpt dCands sh in
      let! os := dList (dPair dPos dCands) orders in ok (fl, sh', os)
  | _ => err EScript
  end.

Definition dSplBloc (b : val) : res spl_in :=
  match b with
  | VL [bid; ivs; sizes; coh; zero; ballots] =>
      let! bid' := dPos bid in let! ivs' := dSlateIv ivs in
      let! sz := dList (dPair dPos dNat) sizes in let! coh' := dList (dPair dPos dQ) coh in
      let! zero' := dCands zero in
      let! bs := dList dSplDraw ballots in ok (mkSPL bid' ivs' sz coh' zero' bs)
  | _ => err EScript
  end.

Definition dSbtDraw (x : val) : res (list bloc * list (bloc * list pcand)) :=
  match x with
  | VL [t; orders] =>
      let! t' := dCands t in let! os := dList (dPair dPos dCands) orders in ok (t', os)
  | _ => err EScript
  end.

Definition dSbtBloc (b : val) : res sbt_in :=
  match b with
  | VL [bid; ivs; sizes; own; opp; coh; zero; ballots] =>
      let! bid' := dPos bid in let! ivs' := dSlateIv ivs in
      let! sz := dList (dPair dPos dNat) sizes in let! own' := dPos own in let! opp' := dPos opp in
      let! coh' := dQ coh in let! zero' := dCands zero in
      let! bs := dList dSbtDraw ballots in ok (mkSBT bid' ivs' sz own' opp' coh' zero' bs)
  | _ => err EScript
  end.

Definition dAcBloc (b : val) : res ac_in :=
  match b with
  | VL [bid; ncross; bc; oc; pb; po; draws] =>
      let! bid' := dPos bid in let! nc := dNat ncross in let! bc' := dCands bc in let! oc' := dCands oc in
      let! pb' := dList dQ pb in let! po' := dList dQ po in
      let! ds := dList (dPair dCands dCands) draws in ok (mkAC bid' nc bc' oc' pb' po' ds)
  | _ => err EScript
  end.

Definition dBtmBloc (b : val) : res btm_in :=
  match b with
  | VL [bid; iv; seed; steps] =>
      let! bid' := dPos bid in let! iv' := dPI iv in let! sd := dCands seed in
      let! st := dList (dPair dNat dQ) steps in ok (bid', iv', sd, st)
  | _ => err EScript
  end.

Definition dSmBloc (b : val) : res sm_in :=
  match b with
  | VL [bid; ivs; own; coh; zero; seed; steps; orders] =>
      let! bid' := dPos bid in let! ivs' := dSlateIv ivs in let! own' := dPos own in let! coh' := dQ coh in
      let! zero' := dCands zero in let! sd := dCands seed in let! st := dList (dPair dNat dQ) steps in
      let! os := dList (dList (dPair dPos dCands)) orders in
      ok (mkSM bid' ivs' own' coh' zero' sd st os)
  | _ => err EScript
  end.

Definition dCamBloc (b : val) : res cam_in :=
  match b with
  | VL [bid; iv; own; opp; so; sp; nb; nc; draws] =>
      let! bid' := dPos bid in let! iv' := dPI iv in let! own' := dPos own in let! opp' := dPos opp in
      let! so' := dCands so in let! sp' := dCands sp in let! nb' := dNat nb in let! nc' := dNat nc in
      let! ds := dList (dPair (dList dPos) dCands) draws in
      ok (mkCAM bid' iv' own' opp' so' sp' nb' nc' ds)
  | _ => err EScript
  end.

Definition eCam (x : cam_out) : val :=
  match x with (by_bloc, agg, calls) =>
    VL [VS (map (fun bp => VL [ePos (fst bp); Codec.eProfile (snd bp)]) by_bloc); Codec.eProfile agg; VL (map eCamcall calls)]
  end.
