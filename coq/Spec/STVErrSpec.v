(* Spec/STVErrSpec.v — vocabulary for the exhaustive description of the errors of an STV count
   (Properties/C01_hare.v): the five ways in which one round can fail, the round at which too many
   candidates reach the threshold, and the Hare arithmetic.  Definitions only; the facts are in
   Proofs/C01_hare_lib.v and Proofs/C01_hare.v.  Builds on Spec/STVSpec.v. *)
From VK Require Import Base Core STV EditSpec.
From VK.Spec Require Import STVSpec.
From Coq Require Import Qround Permutation.

Section WithCand.
Variable cand : Type.
Variable ceqb : cand -> cand -> bool.

Notation cset := (cset cand).
Notation ranking := (ranking cand).
Notation ballot := (ballot cand).
Notation profile := (profile cand).
Notation estate := (estate cand).
Notation mstate := (mstate cand).
Notation tally := (tally cand ceqb).
Notation reaches := (reaches cand ceqb).
Notation max_tally := (max_tally cand ceqb).
Notation tied_with := (tied_with cand ceqb).

(* whole votes of the pile of w that can move on: ballots led by w that rank somebody after w *)
Definition transferable_units (p : profile) (w : cand) : Z :=
  fold_right Z.add 0%Z
    (map (fun b => Qtrunc (wt b))
         (filter (fun b => first_is cand ceqb w b && nonempty (strip cand ceqb [w] (rk b)))
                 (pile cand ceqb p w))).

(* In all five definitions: t = threshold, p = profile of the failing round, prev = its state,
   s = random source at the start of the round, e = the exception raised. *)

(* (T) one-by-one election: the top group g of the ranking (two or more candidates, all reaching t,
   all of maximal tally) is tied for the single seat of the round; ValueError when no tiebreak (or
   an unknown one) was configured, otherwise the replay script could not serve the tiebreak *)
Definition seat_tie_failure (cfg : stv_cfg) (t : Q) (p : profile) (prev : estate) (s : mstate)
           (e : exn) : Prop :=
  s_simul cfg = false /\
  exists g rest, remaining prev = g :: rest /\ (2 <= length g)%nat /\
    (forall w, In w g -> reaches t p w /\ max_tally p w /\ tied_with p w g) /\
    ((e = EValue /\ (s_tiebreak cfg = None \/ s_tiebreak cfg = Some TBInvalid)) \/
     (e = EScript /\ exists kind, s_tiebreak cfg = Some kind /\
        tiebreak_set cand ceqb g (Some p) kind s = inr EScript)).

(* (Z) fractional transfer of a winner without a single vote: only with threshold 0 *)
Definition zero_tally_failure (cfg : stv_cfg) (t : Q) (p : profile) (e : exn) : Prop :=
  e = EZeroDiv /\ s_transfer cfg = TFractional /\ t == 0 /\
  exists w, In w (cands p) /\ tally w (ballots p) == 0.

(* (R) random transfer of the pile of a winner w: a ballot of the pile has a fractional weight
   (TypeError); fewer transferable whole votes than the surplus (ValueError of random.sample); or
   the replay script could not serve the sample *)
Definition random_transfer_failure (cfg : stv_cfg) (t : Q) (p : profile) (e : exn) : Prop :=
  s_transfer cfg = TRandom /\
  exists w, reaches t p w /\
    ((e = EType /\ exists b, In b (ballots p) /\ first_is cand ceqb w b = true /\
                             is_integral (wt b) = false) \/
     (e = EValue /\
      (transferable_units p w < Qfloor (tally w (ballots p)) - Qfloor t)%Z) \/
     e = EScript).

(* (X) nobody reaches t, the candidates left are not exactly the open seats, the last group low of
   the ranking (two or more candidates, all of minimal tally) is tied for elimination and the replay
   script could not serve the first-place tiebreak (on the initial profile p0) among them *)
Definition elim_tie_failure (cfg : stv_cfg) (t : Q) (p0 p : profile) (prev : estate)
           (older : list estate) (s : mstate) (e : exn) : Prop :=
  e = EScript /\ (forall c, In c (cands p) -> tally c (ballots p) < t) /\
  Z.of_nat (length (cands p)) <> (s_m cfg - count_elected cand (prev :: older))%Z /\
  exists pre low, remaining prev = pre ++ [low] /\ (2 <= length low)%nat /\
    (forall x, In x low -> min_tally cand ceqb p x /\ tied_with p x low) /\
    tiebreak_set cand ceqb low (Some p0) TBFirstPlace s = inr EScript.

(* (I) more than m candidates have been elected and no candidate is left: IndexError *)
Definition overfilled_failure (cfg : stv_cfg) (p : profile) (sts : list estate) (e : exn) : Prop :=
  e = EIndex /\ cands p = [] /\ (s_m cfg < count_elected cand sts)%Z.

Definition round_failure (cfg : stv_cfg) (t : Q) (p0 p : profile) (prev : estate)
           (older : list estate) (s : mstate) (e : exn) : Prop :=
  seat_tie_failure cfg t p prev s e \/ zero_tally_failure cfg t p e \/
  random_transfer_failure cfg t p e \/ elim_tie_failure cfg t p0 p prev older s e \/
  overfilled_failure cfg p (prev :: older) e.

(* a reachable round (the invariant holds: pr is the current profile, prev :: older the records so
   far) with seats still open at which the set W of ALL candidates reaching the threshold is larger
   than the number of open seats *)
Definition overelecting_round (cfg : stv_cfg) (t N : Q) (p0 : profile) : Prop :=
  exists (pr : profile) prev older (W : cset),
    stv_inv cand ceqb cfg t N p0 pr (prev :: older) /\
    (count_elected cand (prev :: older) < s_m cfg)%Z /\
    NoDup W /\ (forall w, In w W <-> reaches t pr w) /\
    (s_m cfg < Z.of_nat (length W) + count_elected cand (prev :: older))%Z.

(* what C01 promises of a finished count [out] on profile p: exactly m elected, all different, and
   at every recorded round the elected so far, the remaining and the eliminated so far list every
   candidate exactly once (that a status is kept in later rounds holds for every list of records:
   c01_stv_monotone_elected / _eliminated in Properties/C01_stv.v) *)
Definition good_outcome (cfg : stv_cfg) (p : profile) (out : list estate) : Prop :=
  count_elected cand out = s_m cfg /\ NoDup (all_elected cand out) /\
  forall r st, nth_error out r = Some st ->
    Permutation (flat cand (elected_upto cand out r) ++ flat cand (remaining st) ++
                 flat cand (eliminated_upto cand out r))
                (cands p).

(* the exceptions an STV count can end with (EScript: the replay script of the model could not
   serve a random choice; never raised by the library itself) *)
Definition stv_error_kind (e : exn) : Prop :=
  e = EValue \/ e = EIndex \/ e = EZeroDiv \/ e = EType \/ e = EScript.

End WithCand.
