(* Spec/GenSpec.v — specification vocabulary for property C14 (ballot generators return
   well-formed profiles).  Small, readable definitions only; no proofs. *)
From VK Require Import Base Core GenValidation PrefInterval Generators.
From Coq Require Import Permutation.

(* a positive whole number *)
Definition whole_pos (q : Q) : Prop := exists n : nat, (0 < n)%nat /\ q == Qnat n.
Definition whole_pos_weights (bs : list (ballot pcand)) : Prop :=
  forall b, In b bs -> whole_pos (wt b).

(* how often a ranking occurs in a pool *)
Definition pool_count (pool : list (list pcand)) (r : list pcand) : nat :=
  count_occ (list_eq_dec Pos.eq_dec) pool r.

(* how often a candidate occurs in a list of draws *)
Definition draw_count (d : list pcand) (c : pcand) : nat := count_occ Pos.eq_dec d c.

(* number of non-zero candidates of slate [b] as the type loop reads it off [sizes] *)
Definition size_of (sizes : list (bloc * nat)) (b : bloc) : nat :=
  match find (fun x => Pos.eqb b (fst x)) sizes with Some x => snd x | None => O end.

(* the multiset a ballot type has to arrange: every bloc of [blocs], [size_of] times *)
Definition type_multiset (sizes : list (bloc * nat)) (blocs : list bloc) : list bloc :=
  concat (map (fun b => repeat b (size_of sizes b)) blocs).

(* the order drawn for slate [b] (first entry for [b]; none = empty) *)
Definition order_of (orders : list (bloc * list pcand)) (b : bloc) : list pcand :=
  match find (fun x => Pos.eqb b (fst x)) orders with Some x => snd x | None => [] end.

(* the candidates a filled ballot [r] carries at the positions its type [t] labels [b] *)
Definition slots (b : bloc) (t : list bloc) (r : list pcand) : list pcand :=
  map snd (filter (fun p => Pos.eqb b (fst p)) (combine t r)).

(* entries of a (candidate, distance) list at distance q, in list order *)
Definition at_distance (q : Q) (l : list (pcand * Q)) : list pcand :=
  map fst (filter (fun p => Qeq_bool (snd p) q) l).
