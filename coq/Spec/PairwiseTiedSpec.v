(* Spec/PairwiseTiedSpec.v — specification vocabulary for the part of C06 that goes beyond untied
   ballots of positive weight (Properties/C06_condo.v): ranked ballots WITH tied positions, ballots
   of weight zero mixed with ballots of positive weight.  Small, readable definitions only; no
   proofs.  Nothing here shares code with the model's ballot_fill / prefers / h2h. *)
From VK Require Import Base Core.
From VK.Spec Require Import ScoreSpec.

Section PairwiseTiedSpec.
Variable cand : Type.
Variable ceqb : cand -> cand -> bool.

Notation ballot := (ballot cand).
Notation profile := (profile cand).
Notation ranking := (ranking cand).

(* [a] is ranked STRICTLY above [b]: walking down the positions, the first position that holds a or b
   holds a and does not hold b (so a listed candidate is above every unlisted one, and two
   candidates sharing a position are NOT above one another) *)
Fixpoint above (a b : cand) (r : ranking) : bool :=
  match r with
  | [] => false
  | g :: r' => if memb cand ceqb b g then false
               else if memb cand ceqb a g then true
               else above a b r'
  end.

(* [a] and [b] share a position of the ranking *)
Definition together (a b : cand) (r : ranking) : bool :=
  existsb (fun g => memb cand ceqb a g && memb cand ceqb b g) r.

(* what one ballot contributes to "a strictly over b":
     its whole weight when a is strictly above b;
     half its weight when neither a nor b is listed;  nothing otherwise (in particular nothing
     when a and b share a position) *)
Definition spref_share (a b : cand) (x : ballot) : Q :=
  if above a b (rk x) then wt x
  else if memb cand ceqb a (flat cand (rk x)) || memb cand ceqb b (flat cand (rk x)) then 0
  else wt x / 2.

Definition spref_weight (bs : list ballot) (a b : cand) : Q := qsum (map (spref_share a b) bs).

(* weight of the ballots on which a and b share a position *)
Definition tie_share (a b : cand) (x : ballot) : Q := if together a b (rk x) then wt x else 0.
Definition tie_weight (bs : list ballot) (a b : cand) : Q := qsum (map (tie_share a b) bs).

(* signed head-to-head margin of a over b, and strict head-to-head victory *)
Definition smargin (bs : list ballot) (a b : cand) : Q := spref_weight bs a b - spref_weight bs b a.
Definition sbeats (bs : list ballot) (a b : cand) : Prop := spref_weight bs b a < spref_weight bs a b.

(* the input domain: a duplicate-free candidate list (candidates nobody lists are allowed); every
   ballot a ranked ballot in the sense of ScoreSpec.wf_ranking — at least one position, no empty
   position, nobody listed twice, only known candidates, TIED POSITIONS ALLOWED, short ballots
   allowed — whose score keys (if any) are known candidates and whose weight is >= 0; and at least
   one ballot of positive weight *)
Definition pw_ballot (cs : list cand) (x : ballot) : Prop :=
  wf_ranking cand cs (rk x) /\ incl (map fst (sc x)) cs /\ 0 <= wt x.

Definition tied_profile (p : profile) : Prop :=
  NoDup (cands p) /\ Forall (pw_ballot (cands p)) (ballots p) /\
  Exists (fun x => 0 < wt x) (ballots p).

(* the ballots of positive weight, in order *)
Definition positive_ballots (bs : list ballot) : list ballot :=
  filter (fun x => Qlt_bool 0 (wt x)) bs.

(* the Borda score recorded for [c] in the score list [d] is strictly larger than the one of [c'] *)
Definition score_gt (d : scores cand) (c c' : cand) : Prop :=
  forall q q', In (c, q) d -> In (c', q') d -> q' < q.

End PairwiseTiedSpec.
