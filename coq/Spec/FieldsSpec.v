(* Spec/FieldsSpec.v — specification vocabulary for property C11, derived profile fields and
   the reading of a score list as a finite map.  Only definitions; facts are in
   Proofs/C11_fields.v.

   The model's profile record (Model/Core.v) stores only [ballots] and [cands].  The three other
   derived fields of PreferenceProfile are not stored: when a profile is observed
   (Model/Dispatch.v, op 51) they are emitted as the three expressions named here. *)
From VK Require Import Base Core.

Section FieldsSpec.
Variable cand : Type.
Variable ceqb : cand -> cand -> bool.

(* PreferenceProfile.num_ballots / total_ballot_wt / candidates_cast, as the model observes them *)
Definition num_ballots (p : profile cand) : nat := length (ballots p).
Definition total_ballot_wt (p : profile cand) : Q := total_wt cand (ballots p).
Definition candidates_cast (p : profile cand) : cset cand := cast_cands cand ceqb (ballots p).

(* candidate c is mentioned by ballot b: in some position of its ranking, or as a key of its
   score list *)
Definition mentions_cand (b : ballot cand) (c : cand) : Prop :=
  (exists g, In g (rk b) /\ In c g) \/ (exists s, In (c, s) (sc b)).

(* equality of optional rationals up to Qeq *)
Definition opt_Qeq (a b : option Q) : Prop :=
  match a, b with
  | Some x, Some y => x == y
  | None, None => True
  | _, _ => False
  end.

(* a score list denotes a finite map: all entries of one key carry the same value (up to Qeq);
   implied by duplicate-free keys, which every Python dict has *)
Definition functional_scores (d : scores cand) : Prop :=
  forall c v v', In (c, v) d -> In (c, v') d -> v == v'.

End FieldsSpec.
