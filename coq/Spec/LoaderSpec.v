(* Spec/LoaderSpec.v — specification vocabulary for property C18 (Model/Loaders.v).
   Definitions only, no proofs.  A CSV table is a list of rows, a row a list of cells; a Scottish
   file is a list of token rows. *)
From VK Require Import Base Core Loaders.

#[local] Arguments CBlank {cand}.
#[local] Arguments CStr {cand}.
#[local] Arguments CNum {cand}.
#[local] Arguments CId {cand}.
#[local] Arguments TEmpty {cand}.
#[local] Arguments TNum {cand}.
#[local] Arguments TStr {cand}.

Section WithCand.
Variable cand : Type.
Variable ceqb : cand -> cand -> bool.
Variable blank : cand.

Notation cell := (cell cand).
Notation tok := (tok cand).

(* ---------- CSV tables ---------- *)

(* the cell of row r in column i (a blank beyond the end of the row) *)
Definition cell_at (r : list cell) (i : nat) : cell := nth i r CBlank.

(* projection of a row on the selected rank columns, in the order of [ranks] *)
Definition pattern (ranks : list nat) (r : list cell) : list cell := map (cell_at r) ranks.

(* the candidate a rank cell stands for: an empty cell is the explicit blank *)
Definition cell_name (c : cell) : cand := match c with CStr x => x | _ => blank end.

(* the ranking written by a pattern: one singleton position per selected column, in column order *)
Definition pattern_ranking (k : list cell) : ranking cand := map (fun c => [cell_name c]) k.

Definition is_col (o : option nat) (i : nat) : bool :=
  match o with Some j => Nat.eqb i j | None => false end.

(* rank columns when none are given: every column other than the id and the weight column *)
Definition default_ranks (ncols : nat) (wc ic : option nat) : list nat :=
  filter (fun i => negb (is_col ic i) && negb (is_col wc i)) (seq 0 ncols).

Definition sel_ranks (ncols : nat) (rc : list nat) (wc ic : option nat) : list nat :=
  match rc with [] => default_ranks ncols wc ic | _ => rc end.

(* the rows having pattern k, in row order *)
Definition rows_with (ranks : list nat) (k : list cell) (rows : list (list cell)) : list (list cell) :=
  filter (fun r => row_eqb cand ceqb (pattern ranks r) k) rows.

Definition num_at (w : nat) (r : list cell) : Q := match cell_at r w with CNum q => q | _ => 0 end.
Definition id_at (i : nat) (r : list cell) : positive :=
  match cell_at r i with CId x => x | _ => 1%positive end.

(* a cell of a rank column: empty or a name (a name is never Python's None) *)
Definition rank_cell (c : cell) : Prop :=
  match c with CBlank => True | CStr x => x <> blank | _ => False end.

(* well-formed table *)
Record wf_table (ncols : nat) (rows : list (list cell)) (rc : list nat) (wc ic : option nat) : Prop := {
  wf_nonempty : rows <> [];
  wf_width : forall r, In r rows -> length r = ncols;
  wf_rc : forall i, In i rc -> (i < ncols)%nat;
  wf_rank_cells : forall r i, In r rows -> In i (sel_ranks ncols rc wc ic) -> rank_cell (cell_at r i);
  wf_ids : forall i, ic = Some i ->
             (i < ncols)%nat /\ (forall r, In r rows -> exists x, cell_at r i = CId x) /\
             NoDup (map (id_at i) rows);
  wf_weights : forall w, wc = Some w ->
             (w < ncols)%nat /\ (forall r, In r rows -> exists q, cell_at r w = CNum q)
}.

(* the ballot load_csv is expected to build for pattern k *)
Definition csv_ballot (ranks : list nat) (wc ic : option nat) (rows : list (list cell))
           (k : list cell) : ballot cand :=
  let rs := rows_with ranks k rows in
  mkBallot (pattern_ranking k)
           (match wc with None => Qnat (length rs) | Some w => qsum (map (num_at w) rs) end)
           [] None
           (match ic with None => None | Some i => Some (map (id_at i) rs) end).

(* ---------- Scottish files ---------- *)

(* what load_scottish keeps of the csv.reader rows: empty tokens and then empty rows dropped *)
Definition scot_clean (raw : list (list tok)) : list (list tok) :=
  filter (fun r => nonempty r)
         (map (filter (fun t => match t with TEmpty => false | _ => true end)) raw).

(* number of rows whose first token carries the candidate word *)
Definition scot_counted (data : list (list tok)) : nat :=
  length (filter (fun r => match r with t :: _ => tok_has_word cand t | [] => false end) data).

(* a ballot row "w, i1, ..., im" and a candidate row "Candidate j, name, party" *)
Definition brow_toks (b : Z * list Z) : list tok := TNum (fst b) :: map TNum (snd b).
Definition crow_label (c : cand * cand * bool * tok) : cand := fst (fst (fst c)).
Definition crow_name (c : cand * cand * bool * tok) : cand := snd (fst (fst c)).
Definition crow_party (c : cand * cand * bool * tok) : tok := snd c.
Definition crow_toks (c : cand * cand * bool * tok) : list tok :=
  [TStr (crow_label c) true; TStr (crow_name c) (snd (fst c)); crow_party c].

(* the ranking a list of 1-based candidate numbers denotes *)
Definition scot_ranking (names : list cand) (order : list Z) : ranking cand :=
  flat_map (fun i => match nth_error names (Z.to_nat (i - 1)) with
                     | Some c => [[c]]
                     | None => []
                     end) order.

(* well-formed Scottish table: metadata row, ballot rows, exactly k candidate rows with distinct
   names, and the ward row (whose first token does not carry the candidate word) *)
Definition wf_scot (raw : list (list tok)) (k : Z) (seats : tok) (bal : list (Z * list Z))
           (cs : list (cand * cand * bool * tok)) (ward : tok) (wrest : list tok) : Prop :=
  scot_clean raw = [TNum k; seats] :: map brow_toks bal ++ map crow_toks cs ++ [ward :: wrest] /\
  k = Z.of_nat (length cs) /\
  Forall (fun b => Forall (fun i => (1 <= i <= k)%Z) (snd b)) bal /\
  NoDup (map crow_name cs) /\
  tok_has_word cand ward = false.

End WithCand.
