(* Spec/CondorcetWinnerFn.v — a line-by-line Gallina reading of
   PairwiseComparisonGraph.get_condorcet_winner
   (/repo/src/votekit/graphs/pairwise_comparison_graph.py:208-220):

       if self.has_condorcet_winner():
           return list(self.dominating_tiers()[0])[0]
       else:
           raise ValueError("There is no condorcet winner.")

   Model/Pairwise.v has [has_condorcet_winner] and [dominating_tiers] but no [get_condorcet_winner];
   this definition only composes those two model functions exactly as the Python method composes the
   two Python methods (it adds no computation of its own).  On a one-element set [list(s)[0]] is that
   element, so no iteration order of a Python set is involved whenever the first branch is taken. *)
From VK Require Import Base Core Pairwise.

Section CondorcetWinnerFn.
Variable cand : Type.
Variable ceqb : cand -> cand -> bool.

Definition get_condorcet_winner (p : profile cand) : res cand :=
  let! b := has_condorcet_winner cand ceqb p in
  if b then
    (let! t := dominating_tiers cand ceqb p in
     match t with
     | (c :: _) :: _ => ok c
     | _ => err EIndex
     end)
  else err EValue.

End CondorcetWinnerFn.
