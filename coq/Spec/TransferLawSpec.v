(* Spec/TransferLawSpec.v — C03, vocabulary of Properties/C03_bridge.v: the random (Cambridge)
   transfer as a FUNCTION of the sampled unit ballots, the law of its output, and the split of the
   loss of one STV round in "quota kept by the elected" + "ballots with no surviving choice".
   Definitions only, no proofs.  Builds on Spec/SampleSpec.v (usample, pick, units,
   law_sample_ballots, expect) and Spec/STVRunSpec.v (round_accounting, sample_size, samples_dead). *)
From VK Require Import Base Core STV Laws EditSpec.
From VK.Spec Require Import LawSpec SampleSpec STVSpec STVRunSpec.

Section WithCand.
Variable cand : Type.
Variable ceqb : cand -> cand -> bool.

Notation cset := (cset cand).
Notation ranking := (ranking cand).
Notation ballot := (ballot cand).
Notation profile := (profile cand).
Notation estate := (estate cand).
Notation mstate := (mstate cand).
Notation flat := (flat cand).
Notation strip := (strip cand ceqb).
Notation first_is := (first_is cand ceqb).

(* every position of the ranking is a single candidate (no tie inside a position) *)
Definition untied (r : ranking) : Prop := Forall (fun g => length g = 1%nat) r.

(* ---------- random_transfer(winner w, ballots bs) as a function of the sample ---------- *)

(* the population random_transfer hands to random.sample: (continuation, weight) of every ballot
   led by w that still ranks somebody once w is struck out, in ballot order *)
Definition transfer_pop (w : cand) (bs : list ballot) : list (ranking * Q) :=
  map (fun b => (strip [w] (rk b), wt b))
      (filter (fun b => first_is w b && nonempty (strip [w] (rk b))) bs).

(* its expansion into unit ballots: int(weight) copies of each continuation *)
Definition transfer_units (w : cand) (bs : list ballot) : list ranking :=
  units cand (transfer_pop w bs).

(* what random_transfer returns when random.sample returned the rankings [l]: the ballots not led
   by w with w struck out, then one unit ballot per sampled ranking; empty / non-positive ballots
   dropped; equal rankings merged *)
Definition transfer_of_sample (w : cand) (bs : list ballot) (l : list ranking) : list ballot :=
  condense_bs cand ceqb
    (filter (keep_ballot cand)
       (map (fun b => mkBallot (strip [w] (rk b)) (wt b) [] (bid b) (vs b))
            (filter (fun b => negb (first_is w b)) bs)
        ++ map (fun r => plain_ballot cand r 1) l)).

(* ... when random.sample selected the unit ballots standing at the positions [idxs] *)
Definition transfer_of_positions (w : cand) (bs : list ballot) (idxs : list nat) : list ballot :=
  transfer_of_sample w bs (pick [] (transfer_units w bs) idxs).

(* the law of the ballots returned by random_transfer when k unit ballots are sampled: the
   push-forward of [usample] (first k of a uniform permutation of the unit positions) *)
Definition law_rand_transfer (w : cand) (bs : list ballot) (k : nat) : dist (list ballot) :=
  dbind (usample (length (transfer_units w bs)) k)
        (fun idxs => dret (transfer_of_positions w bs idxs)).

(* ---------- the loss of one STV round, split in two ---------- *)

(* the round from (pr, sa) to (pr', st', sb) of [round_accounting], with the two components of
   its loss named: [quota] = the thresholds kept by the candidates elected on quota (none with the
   full-weight rule, none in a default election or an elimination); [exh] = the weight of the
   ballots left with no surviving choice (fractional: at their transferred weight; random: one
   unit per sampled ranking listing only winners of the round) *)
Definition round_split (cfg : stv_cfg) (t : Q) (n : Z) (pr pr' : profile) (st' : estate)
           (sa sb : mstate) (quota exh : Q) : Prop :=
  let bs := ballots pr in
  let W := flat (elected st') in
  let k := s_transfer cfg in
  ((exists c, reaches cand ceqb t pr c) /\
   quota == match k with TFullWeight => 0 | _ => t * Qnat (length W) end /\
   (k <> TRandom -> exh == exhausted_wt cand ceqb W (keep_share cand ceqb k W t bs) bs) /\
   (k = TRandom ->
      exists (pre : list (draw cand)) (ls : list (list ranking)),
        scr sa = pre ++ map (fun l => DRanks l) ls ++ scr sb /\
        Forall2 (sample_size cand ceqb t bs) W ls /\
        exh == Qnat (samples_dead cand ceqb W ls)))
  \/
  ((forall c, In c (cands pr) -> tally cand ceqb c bs < t) /\
   Z.of_nat (length (cands pr)) = (s_m cfg - n)%Z /\
   quota == 0 /\ exh == wt_where cand (exhausted cand ceqb W) bs)
  \/
  ((forall c, In c (cands pr) -> tally cand ceqb c bs < t) /\
   Z.of_nat (length (cands pr)) <> (s_m cfg - n)%Z /\
   exists x, eliminated st' = [[x]] /\
     quota == 0 /\ exh == wt_where cand (exhausted cand ceqb [x]) bs).

End WithCand.
