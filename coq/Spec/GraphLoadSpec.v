(* Spec/GraphLoadSpec.v — vocabulary for loading a profile on the ballot graph WITHOUT completing
   short ballots (property C19, from_profile(fix_short=False)).  Small readable definitions only. *)
From VK Require Import Base Core Metrics MetricSpec.

Section WithCand.
Variable cand : Type.
Variable ceqb : cand -> cand -> bool.

(* the positions (1-based, in the candidate list) of the candidates a ballot ranks, in ballot order *)
Definition ballot_positions (cs : list cand) (b : ballot cand) : node :=
  map (fun c => pos_of cand ceqb c cs) (flat cand (rk b)).

(* the ballot ranks all candidates but one *)
Definition one_short (cs : list cand) (b : ballot cand) : bool :=
  Nat.eqb (length (flat cand (rk b))) (length cs - 1).

End WithCand.
