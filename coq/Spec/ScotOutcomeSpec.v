(* Spec/ScotOutcomeSpec.v — vocabulary for the complete outcome analysis of load_scottish
   (property C18, Model/Loaders.v).  Definitions only, no proofs.

   The model starts from the rows csv.reader produced (token rows, TEmpty = the empty string).
   [scot_clean raw] (Spec/LoaderSpec.v) is the list [data] the implementation builds: empty strings
   dropped, then empty rows dropped.  Every row of [data] is non-empty and free of TEmpty, so a row
   of [data] starts with a number (TNum), with a string containing the word "Candidate"
   (TStr _ true) or with another string (TStr _ false). *)
From VK Require Import Base Core Loaders.
From VK.Spec Require Import LoaderSpec.

#[local] Arguments TEmpty {cand}.
#[local] Arguments TNum {cand}.
#[local] Arguments TStr {cand}.

(* a Python loop that raises at its first bad element: everything before x is good, x is bad *)
Definition first_fail {A : Type} (good bad : A -> Prop) (l : list A) : Prop :=
  exists pre x post, l = pre ++ x :: post /\ Forall good pre /\ bad x.

(* exactly one proposition of the list holds *)
Definition exactly_one (l : list Prop) : Prop :=
  exists pre P post, l = pre ++ P :: post /\ P /\ Forall (fun Q => ~ Q) pre /\ Forall (fun Q => ~ Q) post.

Section WithCand.
Variable cand : Type.
Variable ceqb : cand -> cand -> bool.

Notation tok := (tok cand).

(* ---------- nothing but blanks ---------- *)
Definition blank_row (r : list tok) : Prop := Forall (fun t => t = TEmpty) r.
Definition scot_all_blank (raw : list (list tok)) : Prop := Forall blank_row raw.

(* ---------- the metadata row ---------- *)

(* data[0] = [k, seats] with k a number equal to the number of rows whose first field contains
   the word "Candidate" *)
Definition scot_header_ok (data : list (list tok)) (k : Z) (seats : tok) : Prop :=
  (exists rest, data = [TNum k; seats] :: rest) /\ Z.of_nat (scot_counted cand data) = k.

(* the three metadata DataErrors, in the order the implementation tests them *)
Definition scot_header_bad (data : list (list tok)) : Prop :=
  exists first rest, data = first :: rest /\
    (length first <> 2%nat \/
     (exists cn seats, first = [cn; seats] /\ forall k, cn <> TNum k) \/
     (exists k seats, first = [TNum k; seats] /\ Z.of_nat (scot_counted cand data) <> k)).

(* data[len(data)-(k+1) : -1]  and  data[1 : len(data)-(k+1)] *)
Definition scot_cand_lines (data : list (list tok)) (k : Z) : list (list tok) :=
  py_slice data (Z.of_nat (length data) - (k + 1)) (-1).
Definition scot_ballot_lines (data : list (list tok)) (k : Z) : list (list tok) :=
  py_slice data 1 (Z.of_nat (length data) - (k + 1)).

(* data[-1][0] *)
Definition scot_ward (data : list (list tok)) : tok :=
  match last data [] with w :: _ => w | [] => TEmpty end.

(* ---------- a row of the candidate block ---------- *)

(* "Candidate j", name, party, ... : accepted *)
Definition cline_ok (line : list tok) : Prop :=
  exists lab name b party rest, line = TStr lab true :: TStr name b :: party :: rest.
(* first field a number: "Candidate" in <int> is a TypeError *)
Definition cline_etype (line : list tok) : Prop := exists z rest, line = TNum z :: rest.
(* first field a string without the word: DataError *)
Definition cline_edata (line : list tok) : Prop := exists s rest, line = TStr s false :: rest.
(* the word is there but the name or the party field is missing: IndexError *)
Definition cline_eindex (line : list tok) : Prop :=
  exists lab, line = [TStr lab true] \/ exists x, line = [TStr lab true; x].
(* numeric candidate name: outside the modelled domain (the model answers EOther) *)
Definition cline_eother (line : list tok) : Prop :=
  exists lab z party rest, line = TStr lab true :: TNum z :: party :: rest.

(* the (name, party) entries and the names of accepted candidate rows, in row order *)
Definition cline_entries (lines : list (list tok)) : list (cand * tok) :=
  flat_map (fun line => match line with _ :: TStr c _ :: party :: _ => [(c, party)] | _ => [] end) lines.
Definition cline_names (lines : list (list tok)) : list cand := map fst (cline_entries lines).

(* ---------- a ballot row ---------- *)

(* an entry naming one of the k declared candidates *)
Definition entry_ok (k : Z) (t : tok) : Prop := exists i, t = TNum i /\ (1 <= i <= k)%Z.
(* weight, then entries in 1..k : accepted *)
Definition bline_ok (k : Z) (line : list tok) : Prop :=
  exists w order, line = TNum w :: order /\ Forall (entry_ok k) order.
(* first field not a number: Fraction("...") is a ValueError *)
Definition bline_evalue (line : list tok) : Prop := exists s b rest, line = TStr s b :: rest.
(* numeric weight, but some entry is not a number in 1..k: num_to_cand[n] is a KeyError *)
Definition bline_ekey (k : Z) (line : list tok) : Prop :=
  exists w order, line = TNum w :: order /\ Exists (fun t => ~ entry_ok k t) order.

Definition tok_num (t : tok) : Z := match t with TNum z => z | _ => 0%Z end.
(* the ballot an accepted ballot row denotes *)
Definition bline_ballot (names : list cand) (line : list tok) : ballot cand :=
  match line with
  | TNum w :: order => plain_ballot cand (scot_ranking cand names (map tok_num order)) (inject_Z w)
  | _ => plain_ballot cand [] 0
  end.

(* ---------- the outcome conditions, on data = scot_clean raw ---------- *)

(* the candidate block is the first thing read after the metadata; its first bad row decides *)
Definition scot_cand_fail (bad : list tok -> Prop) (data : list (list tok)) : Prop :=
  exists k seats, scot_header_ok data k seats /\ first_fail cline_ok bad (scot_cand_lines data k).

(* then the ballot rows are read; the first bad one decides *)
Definition scot_ballot_fail (bad : Z -> list tok -> Prop) (data : list (list tok)) : Prop :=
  exists k seats, scot_header_ok data k seats /\ Forall cline_ok (scot_cand_lines data k) /\
                  first_fail (bline_ok k) (bad k) (scot_ballot_lines data k).

Definition scot_all_ok (data : list (list tok)) (k : Z) (seats : tok) : Prop :=
  scot_header_ok data k seats /\ Forall cline_ok (scot_cand_lines data k) /\
  Forall (bline_ok k) (scot_ballot_lines data k).

(* the value returned on success *)
Definition scot_value (data : list (list tok)) (k : Z) (seats : tok) : scot cand :=
  let names := cline_names (scot_cand_lines data k) in
  mkScot cand
    (mkProfile (condense_bs cand ceqb (map (bline_ballot names) (scot_ballot_lines data k)))
               (dedup cand ceqb names))
    seats (dedup cand ceqb names) (cline_entries (scot_cand_lines data k)) (scot_ward data).

End WithCand.
