(* Spec/STVSpec.v — small, readable specification vocabulary for the STV-family properties
   (C01 STV part, C02, C03 rounds).  Definitions only; facts are in Proofs/STV_*.v. *)
From VK Require Import Base Core STV EditSpec.
From Coq Require Import Permutation Qround.

Section WithCand.
Variable cand : Type.
Variable ceqb : cand -> cand -> bool.

Notation cset := (cset cand).
Notation ranking := (ranking cand).
Notation ballot := (ballot cand).
Notation profile := (profile cand).
Notation estate := (estate cand).

(* ---------- valid input ---------- *)

(* an untied ranked ballot over the candidate list [cs]: a non-empty ranking whose positions
   are single candidates, nobody listed twice, only known candidates, positive weight, no scores *)
Definition wf_stv_ballot (cs : cset) (b : ballot) : Prop :=
  rk b <> [] /\ Forall (fun g => length g = 1%nat) (rk b) /\ NoDup (flat cand (rk b)) /\
  incl (flat cand (rk b)) cs /\ 0 < wt b /\ sc b = [].

(* valid-or-empty: what every profile met during a count satisfies (it may have run out of
   ballots, or of candidates) *)
Definition wf_stv0 (p : profile) : Prop :=
  NoDup (cands p) /\ Forall (wf_stv_ballot (cands p)) (ballots p).

(* a valid input profile *)
Definition wf_stv_profile (p : profile) : Prop :=
  wf_stv0 p /\ cands p <> [] /\ ballots p <> [].

(* the random transfer additionally wants whole numbers of votes *)
Definition integral_weights (p : profile) : Prop :=
  Forall (fun b => is_integral (wt b) = true) (ballots p).

(* a replayed random.sample of ballots returns rankings whose positions are single candidates
   (the model's validity test compares positions as sets, so it would also accept [c;c]) *)
Definition draw_ok (d : draw cand) : Prop :=
  match d with
  | DRanks l => Forall (fun r => Forall (fun g => length g = 1%nat) r) l
  | _ => True
  end.
Definition script_ok (s : mstate cand) : Prop := Forall draw_ok (scr s).

(* the script left in s' is what remains of the script of s after some draws were consumed *)
Definition scr_suffix (s s' : mstate cand) : Prop := exists pre, scr s = pre ++ scr s'.

(* ---------- tallies and the state that belongs to a profile ---------- *)

(* current first-place tally of c: summed weight of the ballots led by c *)
Definition tally (c : cand) (bs : list ballot) : Q := wt_where cand (first_is cand ceqb c) bs.

(* [st] reports the tallies of [p]: its scores are the first-place votes of p and its
   remaining-ranking is those scores sorted *)
Definition state_of (p : profile) (st : estate) : Prop :=
  first_place_votes cand ceqb p = inl (escores st) /\
  remaining st = score_to_ranking cand (escores st) true.


(* what a round starts from: the initial profile p0 (used to break elimination ties), the current
   profile p whose candidates are among those of p0, and the state [prev] reporting p's tallies *)
Record step_ctx (p0 p : profile) (prev : estate) : Prop := {
  ctx_p0 : wf_stv0 p0;
  ctx_sub : incl (cands p) (cands p0);
  ctx_p : wf_stv0 p;
  ctx_st : state_of p prev
}.

(* first candidate of a ballot *)
Definition head_cand (b : ballot) : option cand :=
  match rk b with (c :: _) :: _ => Some c | _ => None end.

(* ---------- quotas ---------- *)
Definition droop_quota (N : Q) (m : Z) : Z := (Qfloor (N / inject_Z (m + 1)) + 1)%Z.
Definition hare_quota (N : Q) (m : Z) : Z := Qfloor (N / inject_Z m).

(* ---------- the transfer law of an election round ---------- *)

(* share of its weight that a ballot keeps when the candidates of W are elected with quota t:
   (tally h - t)/tally h if its first candidate h is in W and the transfer is fractional,
   the whole weight otherwise (other ballots; SequentialRCV) *)
Definition keep_share (k : transfer_kind) (W : cset) (t : Q) (bs : list ballot) (b : ballot) : Q :=
  match k, head_cand b with
  | TFractional, Some h =>
      if memb cand ceqb h W then (tally h bs - t) / tally h bs else 1
  | _, _ => 1
  end.

(* weight arriving on ranking r' when W is struck out and every ballot keeps share [f b] *)
Definition moved_to (W : cset) (f : ballot -> Q) (r' : ranking) (bs : list ballot) : Q :=
  sum_where cand (fun b => wt b * f b) (maps_to cand ceqb W r') bs.

(* weight (after shares) of the ballots left with no surviving choice *)
Definition exhausted_wt (W : cset) (f : ballot -> Q) (bs : list ballot) : Q :=
  sum_where cand (fun b => wt b * f b) (exhausted cand ceqb W) bs.

(* ---------- cumulative outcome, as Election.get_elected / get_eliminated compute it ---------- *)
Definition elected_upto (sts : list estate) (r : nat) : ranking :=
  concat (map (fun s => real_groups cand (elected s)) (firstn (S r) sts)).
Definition eliminated_upto (sts : list estate) (r : nat) : ranking :=
  concat (map (fun s => rev (real_groups cand (eliminated s))) (rev (firstn (S r) sts))).

(* candidates elected in one state (the placeholder (frozenset(),) counts for nobody) *)
Definition elected_in (st : estate) : cset := flat cand (real_groups cand (elected st)).
Definition eliminated_in (st : estate) : cset := flat cand (real_groups cand (eliminated st)).

(* candidates elected / eliminated in any of the states of a list *)
Definition all_elected (sts : list estate) : cset := concat (map elected_in sts).
Definition all_eliminated (sts : list estate) : cset := concat (map eliminated_in sts).

(* ---------- a legal round of the documented count (C02) ---------- *)

(* candidate c of p reaches the threshold / has the largest / the smallest current tally *)
Definition reaches (t : Q) (p : profile) (c : cand) : Prop :=
  In c (cands p) /\ t <= tally c (ballots p).
Definition max_tally (p : profile) (c : cand) : Prop :=
  In c (cands p) /\ forall c', In c' (cands p) -> tally c' (ballots p) <= tally c (ballots p).
Definition min_tally (p : profile) (c : cand) : Prop :=
  In c (cands p) /\ forall c', In c' (cands p) -> tally c (ballots p) <= tally c' (ballots p).
(* g lists exactly the candidates of p whose tally equals that of c *)
Definition tied_with (p : profile) (c : cand) (g : cset) : Prop :=
  forall c', In c' g <-> In c' (cands p) /\ tally c' (ballots p) == tally c (ballots p).
(* l is in order of non-increasing first-place tally in profile q *)
Definition sorted_by_tally (q : profile) (l : list cand) : Prop :=
  forall pre a mid b post, l = pre ++ a :: mid ++ b :: post ->
    tally b (ballots q) <= tally a (ballots q).

(* (E) somebody reaches the threshold: simultaneous mode elects exactly those who do, as the
   leading groups of the previous ranking (so grouped and ordered by decreasing tally); one-by-one
   mode elects one candidate of maximal tally, a shared maximum only through a recorded tie-break
   whose first candidate is the winner *)
Definition elect_case (cfg : stv_cfg) (t : Q) (p : profile) (prev st : estate) (np : profile) : Prop :=
  (exists c, reaches t p c) /\ eliminated st = [[]] /\
  flat cand (elected st) <> [] /\ NoDup (flat cand (elected st)) /\
  (forall w, In w (flat cand (elected st)) -> reaches t p w) /\
  cands np = set_diff cand ceqb (cands p) (flat cand (elected st)) /\
  (if s_simul cfg
   then (forall c, reaches t p c -> In c (flat cand (elected st))) /\ tiebreaks st = [] /\
        exists rest, remaining prev = elected st ++ rest
   else exists w g, elected st = [[w]] /\ max_tally p w /\ tied_with p w g /\
        ((g = [w] /\ tiebreaks st = []) \/
         ((2 <= length g)%nat /\ exists kind l, s_tiebreak cfg = Some kind /\
            tiebreaks st = [(g, singletons cand (w :: l))] /\ Permutation (w :: l) g))).

(* (D) nobody reaches the threshold and the remaining candidates equal the unfilled seats *)
Definition default_case (cfg : stv_cfg) (t : Q) (n : Z) (p : profile) (prev st : estate) (np : profile)
  : Prop :=
  (forall c, In c (cands p) -> tally c (ballots p) < t) /\
  Z.of_nat (length (cands p)) = (s_m cfg - n)%Z /\
  elected st = remaining prev /\ eliminated st = [[]] /\ tiebreaks st = [] /\
  np = empty_profile cand.

(* (X) otherwise one candidate x of minimal tally is eliminated; if several share the minimum the
   tie is broken by first-place tallies in the INITIAL profile p0 (then at random), the resolution
   is recorded and x is its last candidate *)
Definition elim_case (cfg : stv_cfg) (t : Q) (n : Z) (p0 p : profile) (st : estate) (np : profile)
  : Prop :=
  (forall c, In c (cands p) -> tally c (ballots p) < t) /\
  Z.of_nat (length (cands p)) <> (s_m cfg - n)%Z /\
  exists x low, min_tally p x /\ elected st = [[]] /\ eliminated st = [[x]] /\
    cands np = set_diff cand ceqb (cands p) [x] /\
    ballots np = remove_cand_bs cand ceqb [x] true false (ballots p) /\
    tied_with p x low /\
    ((low = [x] /\ tiebreaks st = []) \/
     ((2 <= length low)%nat /\ exists l, tiebreaks st = [(low, singletons cand (l ++ [x]))] /\
        Permutation (l ++ [x]) low /\ sorted_by_tally p0 (l ++ [x]))).

(* ---------- the invariant of the count ---------- *)

(* at the time each state was the latest one, the candidates elected so far, the remaining ones
   and those eliminated so far listed every candidate of the initial profile exactly once
   (states newest first) *)
Fixpoint hist_ok (p0 : profile) (sts : list estate) : Prop :=
  match sts with
  | [] => True
  | st :: older =>
      Permutation (all_elected (st :: older) ++ flat cand (remaining st) ++ all_eliminated (st :: older))
                  (cands p0)
      /\ hist_ok p0 older
  end.

(* [sts] = states so far, newest first; [p] = current profile; [t] = threshold; [N] = initial weight *)
Record stv_inv (cfg : stv_cfg) (t N : Q) (p0 p : profile) (sts : list estate) : Prop := {
  (* the newest state reports the tallies of the (valid-or-empty) current profile *)
  inv_ctx : exists prev older, sts = prev :: older /\ step_ctx p0 p prev;
  (* partition of the candidates, now and at every earlier round *)
  inv_hist : hist_ok p0 sts;
  (* enough candidates are left to fill the seats *)
  inv_enough : (s_m cfg <= Z.of_nat (length (cands p)) + count_elected cand sts)%Z;
  (* every candidate elected so far has kept a full threshold of weight (fractional and random
     transfer), unless a default election has emptied the profile *)
  inv_weight : s_transfer cfg <> TFullWeight ->
     (cands p = [] /\ ballots p = []) \/
     total_wt cand (ballots p) + t * inject_Z (count_elected cand sts) <= N;
  inv_t_nonneg : 0 <= t;
  inv_t_int : is_integral t = true
}.

End WithCand.
