(* Spec/DrawFreeSpec.v — vocabulary for the part of C09 that speaks of elections "whose recorded
   rounds involved no random choice", and of SEQUENCES of queries.  Definitions only; the facts
   are in Proofs/C09_drawfree*.v, the statements in Properties/C09_drawfree.v.

   The random source is the state [mstate] of the draw monad (Model/Core.v): a script [scr] of
   draws still to be consumed and a log [lg] of the calls made so far.  [next_draw] is the only
   function that touches either: it pops one draw and logs one call.  "No random choice" is
   therefore "no call was logged", whatever the records say about tiebreaks: a tiebreak that the
   borda / first_place scores resolved is recorded but draws nothing. *)
From Coq Require Import List ZArith QArith.
From VK Require Import Base Core STV Pairwise Rules PV Election Election2.
From VK.Spec Require Import PairwiseSpec TieSpec QuerySpec.
Import ListNotations.

Section WithCand.
Variable cand : Type.
Variable ceqb : cand -> cand -> bool.

Notation cset := (cset cand).
Notation ranking := (ranking cand).
Notation profile := (profile cand).
Notation estate := (estate cand).
Notation mstate := (mstate cand).
Notation M := (M cand).

(* ---------- no random choice ---------- *)

(* run level: the run of rule [r] on profile [p] that recorded [sts] needs no random source at
   all: it succeeds, with these records, from an EMPTY script *)
Definition draw_free (r : rule) (p : profile) (sts : list estate) : Prop :=
  exists (l0 : list (call cand)) (s' : mstate),
    run_rule cand ceqb r p (mkM [] l0) = inl (sts, s').

(* the same for the public wrapper classes (IRV, SequentialRCV, SNTV, ...) *)
Definition wdraw_free (w : wrule) (p : profile) (sts : list estate) : Prop :=
  exists (l0 : list (call cand)) (s' : mstate),
    run_wrule cand ceqb w p (mkM [] l0) = inl (sts, s').

(* round level: [ss] lists the state of the random source after round 0, 1, 2, ... (the [ss] of
   an [stv_trace], Spec/ReplaySpec.v); no call was logged during rounds 1..r *)
Definition draw_free_upto (ss : list mstate) (r : nat) : Prop :=
  forall j sa sb, (j < r)%nat ->
    nth_error ss j = Some sa -> nth_error ss (S j) = Some sb -> lg sb = lg sa.

(* the finished elections covered by the draw-free theorems: the run consumed no draw, and the
   input satisfies the hypothesis under which the rule's replay is analysed.  STV (any transfer
   rule), the one-shot rules and CondoBorda need nothing beyond "no draw": a tiebreak may be
   recorded.  For DominatingSets / TopTwo / Alaska the earlier no-tiebreak theorems are reused, so
   their records must show no tiebreak.  The dictator rules draw in every round: never covered
   (their round 0 is treated separately). *)
Definition replay_safe (r : rule) (p : profile) (sts : list estate) : Prop :=
  draw_free r p sts /\
  match r with
  | RSTV _ => True
  | RPlurality _ _ | RBorda _ _ _ | RRating _ _ _ _ | RLimited _ _ _ | RBloc _ _ _ =>
      NoDup (cands p)
  | RDominating | RCondoBorda _ => untied_profile cand p
  | RTopTwo _ => NoDup (cands p) /\ Forall (no_tiebreak cand) sts
  | RAlaska _ _ cfg =>
      s_transfer cfg <> TRandom /\ NoDup (cands p) /\ Forall (no_tiebreak cand) sts
  | RRandomDictator _ | RBoosted _ => False
  end.

(* ---------- queries on a finished election ---------- *)

(* the election object, as far as the queries can see it: models.py stores the rule's parameters,
   the initial profile and the list of per-round records, nothing else *)
Record election := mkElection {
  e_rule : rule;
  e_profile : profile;
  e_states : list estate
}.

Inductive query :=
| QProfile (i : Z)        (* get_profile(i) *)
| QStep (i : Z)           (* get_step(i) *)
| QElected (i : Z)        (* get_elected(i) *)
| QEliminated (i : Z)     (* get_eliminated(i) *)
| QRemaining (i : Z)      (* get_remaining(i) *)
| QRanking (i : Z)        (* get_ranking(i) *)
| QStatus (i : Z).        (* get_status_df(i) *)

Inductive answer :=
| AProfile (p : profile)
| AStep (p : profile) (st : estate)
| AGroups (r : ranking)
| ATable (t : list (cand * (Z * Z))).

(* one query.  It receives the election and the state of the random source and returns an answer
   (or an exception) and the new state of the random source: NO election is returned, the records
   cannot change.  Only get_profile / get_step can touch the random source. *)
Definition ask (e : election) (q : query) : M answer :=
  match q with
  | QProfile i =>
      do! np := get_profile cand ceqb (e_rule e) (e_profile e) (e_states e) i in mret (AProfile np)
  | QStep i =>
      do! x := get_step cand ceqb (e_rule e) (e_profile e) (e_states e) i in
      mret (AStep (fst x) (snd x))
  | QElected i => mlift (let! r := get_elected cand (e_states e) i in ok (AGroups r))
  | QEliminated i => mlift (let! r := get_eliminated cand (e_states e) i in ok (AGroups r))
  | QRemaining i => mlift (let! r := get_remaining cand (e_states e) i in ok (AGroups r))
  | QRanking i => mlift (let! r := get_ranking cand (e_states e) i in ok (AGroups r))
  | QStatus i =>
      mlift (let! t := get_status cand ceqb (cands (e_profile e)) (e_states e) i in ok (ATable t))
  end.

(* a sequence of queries, threading the random source.  A query that raises is answered by its
   exception and the sequence goes on; the model's error results carry no state, so the source is
   taken as it was before the failed query (immaterial wherever the theorems apply: there the only
   exception is the IndexError of the range check, raised before anything else happens). *)
Fixpoint ask_all (e : election) (qs : list query) (s : mstate) : list (res answer) * mstate :=
  match qs with
  | [] => ([], s)
  | q :: qs' =>
      match ask e q s with
      | inl (a, s') => let (l, sf) := ask_all e qs' s' in (inl a :: l, sf)
      | inr x => let (l, sf) := ask_all e qs' s in (inr x :: l, sf)
      end
  end.

(* the answer to one query asked in isolation, from the state [s0] of the random source *)
Definition alone (e : election) (q : query) (s0 : mstate) : res answer :=
  match ask e q s0 with inl (a, _) => inl a | inr x => inr x end.

(* the part of a query that does not involve the random source at all *)
Definition pure_answer (e : election) (q : query) : option (res answer) :=
  match q with
  | QProfile _ | QStep _ => None
  | QElected i => Some (let! r := get_elected cand (e_states e) i in ok (AGroups r))
  | QEliminated i => Some (let! r := get_eliminated cand (e_states e) i in ok (AGroups r))
  | QRemaining i => Some (let! r := get_remaining cand (e_states e) i in ok (AGroups r))
  | QRanking i => Some (let! r := get_ranking cand (e_states e) i in ok (AGroups r))
  | QStatus i =>
      Some (let! t := get_status cand ceqb (cands (e_profile e)) (e_states e) i in ok (ATable t))
  end.

(* every in-range get_profile query on [e] has one answer, given from every state of the random
   source and leaving it untouched *)
Definition total_replay (e : election) : Prop :=
  forall i, in_range (length (e_states e)) i ->
    exists pr, forall s2 : mstate,
      get_profile cand ceqb (e_rule e) (e_profile e) (e_states e) i s2 = inl (pr, s2).

Definition query_index (q : query) : Z :=
  match q with
  | QProfile i | QStep i | QElected i | QEliminated i | QRemaining i | QRanking i | QStatus i => i
  end.

End WithCand.
