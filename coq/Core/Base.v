(* Core/Base.v — shared vocabulary of the VoteKit model: errors, result monad,
   the universal value type used to exchange cases with the harness. No proofs here. *)
From Coq Require Export List ZArith QArith Bool.
Export ListNotations.
Open Scope Q_scope.

(* Python exception classes that escape VoteKit, as a small enum.
   EFuel = "the real code would not terminate" ; EScript = replay script of the wrong shape. *)
Inductive exn :=
| EType | EValue | EIndex | EKey | EAttr | EUnbound | EZeroDiv | EData | ENotFound | EEmptyData
| EFuel | EScript | EOther.

Definition exn_code (e : exn) : Z :=
  match e with
  | EType => 1 | EValue => 2 | EIndex => 3 | EKey => 4 | EAttr => 5 | EUnbound => 6
  | EZeroDiv => 7 | EData => 8 | ENotFound => 9 | EEmptyData => 10
  | EFuel => 11 | EScript => 12 | EOther => 13
  end%Z.

Definition exn_eqb (a b : exn) : bool := Z.eqb (exn_code a) (exn_code b).

Definition res (A : Type) : Type := (A + exn)%type.
Definition ok {A} (a : A) : res A := inl a.
Definition err {A} (e : exn) : res A := inr e.
Definition rbind {A B} (x : res A) (f : A -> res B) : res B :=
  match x with inl a => f a | inr e => inr e end.

Declare Scope res_scope.
Notation "'let!' x ':=' e1 'in' e2" := (rbind e1 (fun x => e2))
  (at level 200, x pattern, e1 at level 100, e2 at level 200) : res_scope.
Open Scope res_scope.

Fixpoint rmap {A B} (f : A -> res B) (l : list A) : res (list B) :=
  match l with
  | [] => ok []
  | a :: l' => let! b := f a in let! bs := rmap f l' in ok (b :: bs)
  end.

(* first error in list order, as a Python loop that raises *)
Fixpoint rfirst_err {A} (f : A -> res unit) (l : list A) : res unit :=
  match l with
  | [] => ok tt
  | a :: l' => let! _ := f a in rfirst_err f l'
  end.

Definition qsum (l : list Q) : Q := fold_right Qplus 0 l.
Definition Qnat (n : nat) : Q := inject_Z (Z.of_nat n).
Definition Qlt_bool (a b : Q) : bool := negb (Qle_bool b a).

(* Universal value type: everything that crosses the model/harness boundary. *)
Inductive val :=
| VZ (z : Z)
| VQ (q : Q)
| VB (b : bool)
| VN                      (* Python None *)
| VE (e : exn)
| VL (l : list val)       (* ordered *)
| VS (l : list val).      (* unordered: harness sorts before comparing *)

Fixpoint val_eqb (a b : val) {struct a} : bool :=
  match a, b with
  | VZ x, VZ y => Z.eqb x y
  | VQ x, VQ y => Z.eqb (Qnum x) (Qnum y) && Pos.eqb (Qden x) (Qden y)
  | VB x, VB y => Bool.eqb x y
  | VN, VN => true
  | VE x, VE y => exn_eqb x y
  | VL x, VL y =>
      (fix go (l1 l2 : list val) : bool :=
         match l1, l2 with
         | [], [] => true
         | u :: l1', v :: l2' => val_eqb u v && go l1' l2'
         | _, _ => false
         end) x y
  | VS x, VS y =>
      (fix go (l1 l2 : list val) : bool :=
         match l1, l2 with
         | [], [] => true
         | u :: l1', v :: l2' => val_eqb u v && go l1' l2'
         | _, _ => false
         end) x y
  | _, _ => false
  end.

(* decoding helpers *)
Definition dZ (v : val) : res Z := match v with VZ z => ok z | _ => err EScript end.
Definition dQ (v : val) : res Q :=
  match v with VQ q => ok q | VZ z => ok (inject_Z z) | _ => err EScript end.
Definition dB (v : val) : res bool := match v with VB b => ok b | _ => err EScript end.
Definition dL (v : val) : res (list val) :=
  match v with VL l => ok l | VS l => ok l | _ => err EScript end.
Definition dPos (v : val) : res positive :=
  match v with VZ (Zpos p) => ok p | _ => err EScript end.
Definition dNat (v : val) : res nat :=
  match v with VZ z => if (z <? 0)%Z then err EScript else ok (Z.to_nat z) | _ => err EScript end.
Definition dOpt {A} (f : val -> res A) (v : val) : res (option A) :=
  match v with VN => ok None | _ => let! a := f v in ok (Some a) end.
Definition dList {A} (f : val -> res A) (v : val) : res (list A) :=
  let! l := dL v in rmap f l.
Definition dPair {A B} (f : val -> res A) (g : val -> res B) (v : val) : res (A * B) :=
  match v with
  | VL [a; b] => let! x := f a in let! y := g b in ok (x, y)
  | _ => err EScript
  end.

Definition eOpt {A} (f : A -> val) (o : option A) : val :=
  match o with None => VN | Some a => f a end.
Definition eRes {A} (f : A -> val) (r : res A) : val :=
  match r with inl a => f a | inr e => VE e end.
Definition ePos (p : positive) : val := VZ (Zpos p).
Definition eNat (n : nat) : val := VZ (Z.of_nat n).
