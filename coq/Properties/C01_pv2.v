(* Properties/C01_pv2.v — C01 for PluralityVeto at run level (with the PluralityVeto halves of C10
   and C20), on the model of Model/PV.v.  Vocabulary: Spec/RunSpec.v, Spec/PVSpec.v.  Proofs:
   Proofs/C01_pv2_lib.v, C01_pv2_veto.v, C01_pv2_scores.v, C01_pv2_inv.v, C01_pv2_loop.v, C01_pv2.v.

   Valid input = a well-formed ranked profile (ScoreSpec.wf_profile) accepted by [pv_validate]
   (integer weights).  [n] candidates, [m] seats, [k] candidates with a positive first-place tally.

   What is proved:
   - every run that returns partitions ALL candidates of the profile at every round, keeps
     statuses, elects exactly m — never more — and has a fixed round structure
     ([c01_pv_run]);
   - the exhaustive list of exceptions, each with a necessary condition ([c01_pv_errors]);
   - without a tie-break rule (the default): the run returns iff m = n, or m < k, or m = k and the
     first candidate struck out had no first-place vote; otherwise it never terminates (or, with no
     ballot at all, dies on an unbound local variable) ([c01_pv_returns_iff]);
   - [run_pv_fuel] with the model's own bound is [run_pv] ([c01_pv_fuel_faithful]).
   What the model refutes (witnesses by computation, section "refuted"):
   - termination for valid input, even for m = 1 and a unanimous profile;
   - "no other exception type": AttributeError (tied ballot, no tie-break rule), TypeError (scored
     tie-break rule once a ballot is exhausted), UnboundLocalError (no ballot);
   - C10 for PluralityVeto: a random draw that is not recorded, and a recorded tie-break that
     decided nothing and that the round's groups contradict. *)
From VK Require Import Base Core STV Rules PV.
From VK.Spec Require Import ScoreSpec RunSpec PVSpec.
From VK.Proofs Require Import C01_pv2.
From Coq Require Import Permutation.

Section C01_pv2.
Variable cand : Type.
Variable ceqb : cand -> cand -> bool.
Hypothesis ceqb_spec : forall a b, reflect (a = b) (ceqb a b).

Notation profile := (profile cand).
Notation estate := (estate cand).
Notation mstate := (mstate cand).
Notation scores := (scores cand).
Notation wf_profile := (wf_profile cand).
Notation run_pv := (run_pv cand ceqb).
Notation run_pv_fuel := (run_pv_fuel cand ceqb).
Notation pv_validate := (pv_validate cand).
Notation first_place_votes := (first_place_votes cand ceqb).
Notation partitions := (partitions cand).
Notation status_kept := (status_kept cand).
Notation elects_exactly := (elects_exactly cand).
Notation pv_untied := (pv_untied cand).
Notation pv_unit_ballots := (pv_unit_ballots cand).
Notation pv_unit_profile := (pv_unit_profile cand).
Notation pv_positive_count := (pv_positive_count cand).
Notation pv_run_shape := (pv_run_shape cand ceqb).
Notation pv_shuffle_rejected := (pv_shuffle_rejected cand).

(* 1a, 1b (first half), 1d, 2.  Every returned run: at every recorded round the three groups list
   every candidate of the profile exactly once; statuses are kept; exactly m candidates are elected
   (never more); the rounds are: round 0, then — unless m = n — one round removing the candidates
   without a positive tally together with the first candidate struck out, then rounds removing
   exactly one candidate each, then the electing round; every recorded tie-break is a strict order
   of a set of at least two candidates, at most one per round. *)
Theorem c01_pv_run : forall m tb (p : profile) (s s' : mstate) (sts : list estate),
  wf_profile p -> run_pv m tb p s = inl (sts, s') ->
  partitions (cands p) sts /\ status_kept sts /\ elects_exactly sts m /\
  exists d0, first_place_votes (pv_unit_profile p) = inl d0 /\
             pv_run_shape (cands p) m d0 sts.
Proof. exact (pv_run_facts cand ceqb ceqb_spec). Qed.

(* 1c.  The exceptions of a run on valid input, exhaustively:
   ValueError       only for a seat count outside 1..n, or an unknown tie-break name met on a tie;
   AttributeError   only with no tie-break rule and a ballot with a tied position (C01 and C20 say
                    ValueError; this is what the code does);
   EScript          only for a replay script that does not fit (the shuffle, or a random tie-break);
   UnboundLocalError only with no ballot of positive weight and m < n;
   TypeError        only for tiebreak = first_place / borda on a profile with a tied position;
   EFuel (the real loop never stops) only if m < n and at most m candidates have a positive
                    first-place tally.
   No other kind (IndexError, KeyError, ZeroDivisionError, ...) can occur. *)
Theorem c01_pv_errors : forall m tb (p : profile) (s : mstate) e,
  wf_profile p -> pv_validate p = inl tt -> run_pv m tb p s = inr e ->
  (e = EValue /\ (m <= 0 \/ Z.of_nat (length (cands p)) < m)%Z) \/
  ((1 <= m <= Z.of_nat (length (cands p)))%Z /\
   ((e = EAttr /\ tb = None /\ pv_untied p = false) \/
    (e = EScript /\ pv_shuffle_rejected (length (pv_unit_ballots p)) s) \/
    ((m < Z.of_nat (length (cands p)))%Z /\
     ((e = EUnbound /\ pv_unit_ballots p = []) \/
      (pv_untied p = false /\ pv_tiebreak_error tb e) \/
      (e = EFuel /\ exists d0, first_place_votes (pv_unit_profile p) = inl d0 /\
                               (Z.of_nat (pv_positive_count d0) <= m)%Z))))).
Proof. exact (pv_run_errors cand ceqb ceqb_spec). Qed.

(* 1b.  Without a tie-break rule, on valid input without tied positions and with a fitting shuffle:
   the run returns (and then elects exactly m, by [c01_pv_run]) iff m = n, or more than m candidates
   have a positive first-place tally, or exactly m have one and the first candidate struck out by
   the veto pass of round 1 is one of the others; when it does not return, the loop runs for ever
   whatever the bound on the rounds — or, with no ballot at all, stops on the unbound loop index. *)
Theorem c01_pv_returns_iff : forall m (p : profile) (s : mstate) order rest d0,
  wf_profile p -> pv_validate p = inl tt ->
  (1 <= m <= Z.of_nat (length (cands p)))%Z -> pv_untied p = true ->
  scr s = DIdxs order :: rest -> is_perm_nat order (length (pv_unit_ballots p)) = true ->
  first_place_votes (pv_unit_profile p) = inl d0 ->
  ((exists sts s', run_pv m None p s = inl (sts, s')) <->
     (m = Z.of_nat (length (cands p)) \/ (m < Z.of_nat (pv_positive_count d0))%Z \/
      (m = Z.of_nat (pv_positive_count d0) /\
       exists idx c tbs s2,
         veto_loop cand ceqb order 0 (pv_unit_ballots p) (pv_unit_profile p) None d0 []
                   (mkM rest (CShuffle (length (pv_unit_ballots p)) :: lg s))
           = inl ((idx, Some c, tbs), s2) /\
         lookup0 cand ceqb c d0 <= 0))) /\
  ((~ exists sts s', run_pv m None p s = inl (sts, s')) ->
     (pv_unit_ballots p = [] -> forall fuel, run_pv_fuel (S fuel) m None p s = inr EUnbound) /\
     (pv_unit_ballots p <> [] -> forall fuel, run_pv_fuel fuel m None p s = inr EFuel)).
Proof. exact (pv_run_none cand ceqb ceqb_spec). Qed.

(* [run_pv_fuel] (Spec/PVSpec.v) is [run_pv] with the bound made a parameter *)
Theorem c01_pv_fuel_faithful : forall m tb (p : profile) (s : mstate),
  run_pv m tb p s = run_pv_fuel (2 * length (cands p) + 4) m tb p s.
Proof. exact (run_pv_fuel_faithful cand ceqb). Qed.

End C01_pv2.

Print Assumptions c01_pv_run.
Print Assumptions c01_pv_errors.
Print Assumptions c01_pv_returns_iff.
Print Assumptions c01_pv_fuel_faithful.

(* ------------------------------------------------------------------ *)
(* Non-vacuity and refutations: cand := positive, ceqb := Pos.eqb *)

Ltac ex_nodup := repeat (constructor; [cbn; intuition discriminate|]); constructor.
Ltac ex_incl := let x := fresh "x" in let Hx := fresh "Hx" in intros x Hx; cbn in Hx |- *; intuition.
Ltac ex_wf_ranking :=
  cbn; split; [discriminate|]; split; [repeat (constructor; [discriminate|]); constructor|];
  split; [ex_nodup|ex_incl].
Ltac ex_wf := split; [cbn; ex_nodup|repeat (constructor; [ex_wf_ranking|]); constructor].

Definition pb (r : list (list positive)) (w : Z) : ballot positive := plain_ballot positive r (inject_Z w).
Definition script (l : list (draw positive)) : mstate positive := mkM l [].

(* (a) 3 > 2 > 1 twice, 2 > 3 > 1, 1 > {2,3}; one seat; random tie-break *)
Definition ex_a : profile positive :=
  mkProfile [pb [[1];[2;3]]%positive 1; pb [[3];[2];[1]]%positive 2; pb [[2];[3];[1]]%positive 1]
            [1;2;3]%positive.
Definition ex_a_script : mstate positive :=
  script [DIdxs [0;1;2;3]%nat; DPerm [2;3]%positive; DPerm [3;2]%positive].

Example ex_a_valid :
  wf_profile positive ex_a /\ pv_validate positive ex_a = inl tt /\
  (1 <= 1 <= Z.of_nat (length (cands ex_a)))%Z.
Proof.
  split; [|split; [reflexivity|vm_compute; split; discriminate]].
  ex_wf.
Qed.

Example ex_a_runs : exists sts s',
  run_pv positive Pos.eqb 1 (Some TBRandom) ex_a ex_a_script = inl (sts, s') /\ length sts = 4%nat.
Proof. eexists. eexists. split; [vm_compute; reflexivity|reflexivity]. Qed.

(* (b) the hypotheses of [c01_pv_returns_iff] on 1 > 2 > 3 twice, 2 > 1 > 3 once, one seat: two
   candidates have a positive tally, so the run returns *)
Definition ex_b : profile positive :=
  mkProfile [pb [[1];[2];[3]]%positive 2; pb [[2];[1];[3]]%positive 1] [1;2;3]%positive.

Example ex_b_hypotheses :
  pv_validate positive ex_b = inl tt /\ pv_untied positive ex_b = true /\
  is_perm_nat [0;1;2]%nat (length (pv_unit_ballots positive ex_b)) = true /\
  (exists d0, first_place_votes positive Pos.eqb (pv_unit_profile positive ex_b) = inl d0 /\
              pv_positive_count positive d0 = 2%nat) /\
  exists sts s', run_pv positive Pos.eqb 1 None ex_b (script [DIdxs [0;1;2]%nat]) = inl (sts, s').
Proof.
  split; [reflexivity|]. split; [reflexivity|]. split; [reflexivity|]. split.
  - eexists. split; [vm_compute; reflexivity|reflexivity].
  - eexists. eexists. vm_compute. reflexivity.
Qed.

(* ---------- refuted ---------- *)

(* C01 "terminates": one seat, two candidates, three voters who all vote for candidate 1 only.
   Exactly m = 1 candidate has a positive tally, but the veto pass makes every voter strike their
   own and only candidate: 1 is struck out in round 1, nobody is left, and the loop never stops. *)
Definition ex_unanimous : profile positive := mkProfile [pb [[1]]%positive 3] [1;2]%positive.

Theorem c01_pv_terminates_refuted :
  exists (p : profile positive) (s : mstate positive),
    wf_profile positive p /\ pv_validate positive p = inl tt /\ pv_untied positive p = true /\
    (1 <= 1 <= Z.of_nat (length (cands p)))%Z /\
    run_pv positive Pos.eqb 1 None p s = inr EFuel.
Proof.
  exists ex_unanimous, (script [DIdxs [0;1;2]%nat]).
  split; [|split; [reflexivity|split; [reflexivity|split; [vm_compute; split; discriminate|vm_compute; reflexivity]]]].
  ex_wf.
Qed.

(* C01 "no other exception type escapes for valid input":
   (i) a tied position and no tie-break rule: AttributeError, not ValueError;
   (ii) a scored tie-break rule (borda / first_place) once a ballot is exhausted: TypeError;
   (iii) a profile without ballots and fewer seats than candidates: UnboundLocalError. *)
Definition ex_scored : profile positive :=
  mkProfile [pb [[3]]%positive 1; pb [[1];[2]]%positive 2; pb [[2];[1]]%positive 2; pb [[1;2]]%positive 1]
            [1;2;3]%positive.

Theorem c01_pv_other_exceptions_refuted :
  (exists (p : profile positive) (s : mstate positive),
     wf_profile positive p /\ pv_validate positive p = inl tt /\
     run_pv positive Pos.eqb 1 None p s = inr EAttr) /\
  (exists (p : profile positive) (s : mstate positive),
     wf_profile positive p /\ pv_validate positive p = inl tt /\
     run_pv positive Pos.eqb 1 (Some TBBorda) p s = inr EType /\
     run_pv positive Pos.eqb 1 (Some TBFirstPlace) p s = inr EType) /\
  (exists (p : profile positive) (s : mstate positive),
     wf_profile positive p /\ pv_validate positive p = inl tt /\
     run_pv positive Pos.eqb 1 None p s = inr EUnbound).
Proof.
  split; [|split].
  - exists ex_scored, (script [DIdxs [0;1;2;3;4;5]%nat]).
    split; [|split; [reflexivity|vm_compute; reflexivity]].
    ex_wf.
  - exists ex_scored, (script [DIdxs [0;1;2;3;4;5]%nat]).
    split; [|split; [reflexivity|split; vm_compute; reflexivity]].
    ex_wf.
  - exists (mkProfile [] [1;2]%positive), (script [DIdxs []]).
    split; [|split; [reflexivity|vm_compute; reflexivity]].
    ex_wf.
Qed.

(* C10 "every tiebreak is recorded": in round 1 of example (c) two random draws are consumed (for the
   tied last places {2,3} and {1,2}) but the round records only the second. *)
Definition ex_c : profile positive :=
  mkProfile [pb [[1];[2;3]]%positive 1; pb [[3];[1;2]]%positive 1; pb [[3];[2];[1]]%positive 1;
             pb [[2];[3];[1]]%positive 1] [1;2;3]%positive.

Theorem c10_pv_every_tiebreak_recorded_refuted :
  exists (p : profile positive) (s s' : mstate positive) (sts : list (estate positive)) st1,
    wf_profile positive p /\
    run_pv positive Pos.eqb 1 (Some TBRandom) p s = inl (sts, s') /\
    nth_error sts 1 = Some st1 /\
    (* the log after round 1 would show two draws; the whole run made three *)
    lg s' = [CSample [2;3]%positive; CSample [1;2]%positive; CSample [2;3]%positive; CShuffle 4] /\
    tiebreaks st1 = [([1;2]%positive, [[2];[1]]%positive)] /\
    length (concat (map (@tiebreaks positive) sts)) = 2%nat.
Proof.
  exists ex_c, (script [DIdxs [0;1;2;3]%nat; DPerm [2;3]%positive; DPerm [2;1]%positive; DPerm [3;2]%positive]).
  eexists. eexists. eexists.
  split.
  { ex_wf. }
  split; [vm_compute; reflexivity|]. split; [reflexivity|]. split; [reflexivity|]. split; reflexivity.
Qed.

(* C10 "a recorded tiebreak concerns candidates tied where the decision depended on their order, and
   the round's groups obey the recorded order": in round 1 of example (a) the recorded tie-break
   orders 2 before 3, neither is eliminated (candidate 1 is, by a later untied ballot), and the
   round's remaining ranking puts 3 before 2. *)
Theorem c10_pv_tiebreak_obeyed_refuted :
  exists (p : profile positive) (s s' : mstate positive) (sts : list (estate positive)) st1,
    wf_profile positive p /\
    run_pv positive Pos.eqb 1 (Some TBRandom) p s = inl (sts, s') /\
    nth_error sts 1 = Some st1 /\
    tiebreaks st1 = [([2;3]%positive, [[2];[3]]%positive)] /\
    eliminated st1 = [[1]]%positive /\
    remaining st1 = [[3];[2]]%positive.
Proof.
  exists ex_a, ex_a_script. eexists. eexists. eexists.
  split; [exact (proj1 ex_a_valid)|].
  split; [vm_compute; reflexivity|]. split; [reflexivity|]. split; [reflexivity|]. split; reflexivity.
Qed.

Print Assumptions c01_pv_terminates_refuted.
Print Assumptions c01_pv_other_exceptions_refuted.
Print Assumptions c10_pv_every_tiebreak_recorded_refuted.
Print Assumptions c10_pv_tiebreak_obeyed_refuted.
