(* Properties/C13_pairwise.v — C13, the TopTwo clause: "TopTwo's winner is the head-to-head
   first-preference winner between the two highest first-place candidates after all other candidates
   are removed from every ballot".  Statements only; proofs are in Proofs/C13_pairwise.v.

   Properties/C13.v (c13_toptwo, c13_toptwo_winner) describes TopTwo through the first-place tallies
   of the REDUCED profile p1.  This file links those tallies to the ORIGINAL ballots of p and to the
   head-to-head vocabulary of C06 (Spec/PairwiseSpec.v: before, pref_weight, margin,
   untied_profile).

   [first_weight bs a b]: the weight of the ballots of bs that list a and do not list b earlier
   ([before a b], read declaratively by Properties/C06.v c06_before_spec); a ballot listing neither a
   nor b counts for nobody.  C06's [pref_weight] differs only by giving half of every ballot that
   lists neither ([neither_weight]) to BOTH directions, so margins and comparisons coincide.

   Input domain: [untied_profile p] (duplicate-free candidate list, ballots are non-empty rankings of
   singleton positions without repetition over known candidates, positive weight; partial ballots,
   ballots carrying scores and candidates nobody lists are allowed). *)
From VK Require Import Base Core STV Pairwise Rules PV Election.
From VK.Spec Require Import PairwiseSpec.
From VK.Proofs Require Import C13_pairwise.
From VK.Properties Require C13.
From Coq Require Import Permutation.

Section C13Pairwise.
Variable cand : Type.
Variable ceqb : cand -> cand -> bool.
Hypothesis ceqb_spec : forall a b, reflect (a = b) (ceqb a b).

Notation ballot := (ballot cand).
Notation profile := (profile cand).
Notation mstate := (mstate cand).
Notation flat := (flat cand).
Notation memb := (memb cand ceqb).
Notation listing := (listing cand).
Notation before := (before cand ceqb).
Notation pref_weight := (pref_weight cand ceqb).
Notation margin := (margin cand ceqb).
Notation untied_profile := (untied_profile cand).
Notation remove_cand_prof := (remove_cand_prof cand ceqb).
Notation first_place_votes := (first_place_votes cand ceqb).
Notation ranking_validate := (ranking_validate cand).
Notation round0 := (round0 cand ceqb).
Notation plurality_stage := (plurality_stage cand ceqb).
Notation run_plurality := (run_plurality cand ceqb).
Notation run_toptwo := (run_toptwo cand ceqb).

(* ---------- the first-preference head-to-head weight on the original ballots ---------- *)

(* the whole weight of a ballot that lists a and does not list b earlier; nothing otherwise *)
Definition first_share (a b : cand) (x : ballot) : Q := if before a b (listing x) then wt x else 0.
Definition first_weight (bs : list ballot) (a b : cand) : Q := qsum (map (first_share a b) bs).

(* the weight of the ballots listing neither a nor b *)
Definition neither_share (a b : cand) (x : ballot) : Q :=
  if memb a (listing x) || memb b (listing x) then 0 else wt x.
Definition neither_weight (bs : list ballot) (a b : cand) : Q := qsum (map (neither_share a b) bs).

(* relation with C06's pref_weight, for arbitrary ballots: same margin, same comparisons *)
Theorem c13_first_weight : forall (bs : list ballot) (a b : cand),
  pref_weight bs a b == first_weight bs a b + neither_weight bs a b / 2 /\
  neither_weight bs a b == neither_weight bs b a /\
  margin bs a b == first_weight bs a b - first_weight bs b a /\
  (pref_weight bs b a < pref_weight bs a b <-> first_weight bs b a < first_weight bs a b) /\
  (pref_weight bs a b == pref_weight bs b a <-> first_weight bs a b == first_weight bs b a).
Proof. exact (c13_first_weight_proof cand ceqb). Qed.

(* ---------- 1. key lemma: remove everybody but a and b, then count first places ---------- *)

(* no election involved.  [others] holds exactly the candidates of p other than a and b.  The
   first-place score list of the reduced profile has exactly the two entries a |-> qa, b |-> qb;
   qa is the weight of the original ballots ranking a and not ranking b earlier, qb likewise, their
   difference is C06's margin of a over b, and C06's pref_weight is qa (qb) plus half of the weight of
   the ballots ranking neither *)
Theorem c13_reduced_tally : forall (p p1 : profile) (others : list cand) (a b : cand)
                                   (d : list (cand * Q)),
  untied_profile p -> In a (cands p) -> In b (cands p) -> a <> b ->
  (forall c, In c (cands p) -> (In c others <-> c <> a /\ c <> b)) ->
  remove_cand_prof others true false p = inl p1 -> first_place_votes p1 = inl d ->
  Permutation (cands p1) [a; b] /\
  exists qa qb, Permutation d [(a, qa); (b, qb)] /\
    qa == first_weight (ballots p) a b /\ qb == first_weight (ballots p) b a /\
    qa - qb == margin (ballots p) a b /\
    pref_weight (ballots p) a b == qa + neither_weight (ballots p) a b / 2 /\
    pref_weight (ballots p) b a == qb + neither_weight (ballots p) a b / 2.
Proof. exact (c13_reduced_tally_proof cand ceqb ceqb_spec). Qed.

(* ---------- 2. TopTwo: the winner is the pairwise winner between the two finalists ---------- *)

(* every successful run has three states; the finalists a, b (the "remaining" of round 1) are two
   distinct candidates, everybody else is eliminated; the scores of round 1 are exactly
   a |-> qa, b |-> qb with qa, qb the first-preference head-to-head weights on the ORIGINAL ballots
   (so qa - qb is C06's margin).  Round 2 elects one finalist w and leaves the other one l, and w
   does not lose head-to-head against l on the original ballots: strictly wins when round 2 records no
   tiebreak, exactly ties when it records one *)
Theorem c13_toptwo_pairwise : forall tb (p : profile) (s : mstate) sts s',
  untied_profile p -> run_toptwo tb p s = inl (sts, s') ->
  exists s0 s1 s2 p1 a b qa qb,
    sts = [s0; s1; s2] /\
    Permutation (flat (remaining s1)) [a; b] /\ a <> b /\ In a (cands p) /\ In b (cands p) /\
    (forall c, In c (cands p) -> (In c (flat (eliminated s1)) <-> c <> a /\ c <> b)) /\
    remove_cand_prof (flat (eliminated s1)) true false p = inl p1 /\
    first_place_votes p1 = inl (escores s1) /\
    Permutation (escores s1) [(a, qa); (b, qb)] /\
    qa == first_weight (ballots p) a b /\ qb == first_weight (ballots p) b a /\
    qa - qb == margin (ballots p) a b /\
    pref_weight (ballots p) a b == qa + neither_weight (ballots p) a b / 2 /\
    pref_weight (ballots p) b a == qb + neither_weight (ballots p) a b / 2 /\
    exists w l,
      flat (elected s2) = [w] /\ flat (remaining s2) = [l] /\ Permutation [w; l] [a; b] /\
      pref_weight (ballots p) l w <= pref_weight (ballots p) w l /\
      (tiebreaks s2 = [] ->
         elected s2 = [[w]] /\ remaining s2 = [[l]] /\
         pref_weight (ballots p) l w < pref_weight (ballots p) w l /\ 0 < margin (ballots p) w l) /\
      (tiebreaks s2 <> [] ->
         pref_weight (ballots p) w l == pref_weight (ballots p) l w /\ margin (ballots p) w l == 0).
Proof. exact (c13_toptwo_pairwise_proof cand ceqb ceqb_spec). Qed.

(* ---------- 3. no tiebreak rule and a pairwise tie between the finalists: ValueError ---------- *)

Theorem c13_toptwo_pairwise_tie : forall (p : profile) (s : mstate) s0 p1 s1 sa (a b : cand),
  untied_profile p ->
  ranking_validate p = inl tt -> round0 SKFpv p = inl s0 ->
  plurality_stage 2 None p s0 s = inl ((p1, s1), sa) ->
  Permutation (flat (remaining s1)) [a; b] ->
  pref_weight (ballots p) a b == pref_weight (ballots p) b a ->
  run_plurality 1 None p1 sa = inr EValue /\ run_toptwo None p s = inr EValue.
Proof. exact (c13_toptwo_pairwise_tie_proof cand ceqb ceqb_spec). Qed.

End C13Pairwise.

Print Assumptions c13_first_weight.
Print Assumptions c13_reduced_tally.
Print Assumptions c13_toptwo_pairwise.
Print Assumptions c13_toptwo_pairwise_tie.

(* ------------------------------------------------------------------ *)
(* Non-vacuity (cand := positive). *)
Open Scope positive_scope.

Ltac solve_nodup :=
  repeat (constructor; [cbn; intuition discriminate|]); constructor.
Ltac solve_untied_ballot :=
  split; [discriminate|]; split; [repeat constructor|]; split; [solve_nodup|];
  split; [intros x Hx; cbn in Hx |- *; intuition|]; split; [intros x []|reflexivity].
Ltac solve_untied :=
  split; [solve_nodup|]; split; [discriminate|]; repeat (constructor; [solve_untied_ballot|]); constructor.

Definition qeq_scores (d1 d2 : list (positive * Q)) : Prop :=
  Forall2 (fun x y => fst x = fst y /\ snd x == snd y) d1 d2.

(* the profile of Properties/C13.v: candidate 1 leads on first-place votes (4, 3, 2, 1) but loses
   head-to-head 4 : 6 against candidate 2 *)
Example ex_pt_untied : untied_profile positive C13.ex_pt.
Proof. solve_untied. Qed.

Example ex_pt_weights :
  pref_weight positive Pos.eqb (ballots C13.ex_pt) 2 1 == 6 /\
  pref_weight positive Pos.eqb (ballots C13.ex_pt) 1 2 == 4 /\
  first_weight positive Pos.eqb (ballots C13.ex_pt) 2 1 == 6 /\
  first_weight positive Pos.eqb (ballots C13.ex_pt) 1 2 == 4 /\
  neither_weight positive Pos.eqb (ballots C13.ex_pt) 1 2 == 0 /\
  margin positive Pos.eqb (ballots C13.ex_pt) 2 1 == 2.
Proof. vm_compute. repeat split. Qed.

(* the hypotheses of c13_reduced_tally hold for a = 1, b = 2, others = [3; 4] *)
Example ex_pt_reduced :
  In 1 (cands C13.ex_pt) /\ In 2 (cands C13.ex_pt) /\
  (forall c, In c (cands C13.ex_pt) -> (In c [3; 4] <-> c <> 1 /\ c <> 2)) /\
  exists p1 d,
    remove_cand_prof positive Pos.eqb [3; 4] true false C13.ex_pt = inl p1 /\
    first_place_votes positive Pos.eqb p1 = inl d /\
    qeq_scores d [(1, 4%Q); (2, 6%Q)].
Proof.
  split; [cbn; tauto|]. split; [cbn; tauto|]. split.
  - intros c Hc. cbn in Hc. destruct Hc as [<-|[<-|[<-|[<-|[]]]]]; cbn; intuition discriminate.
  - do 2 eexists. split; [vm_compute; reflexivity|]. split; [vm_compute; reflexivity|].
    repeat constructor.
Qed.

(* the run: finalists 1 and 2, round-1 scores 4 and 6, candidate 2 elected without a tiebreak *)
Example ex_pt_run :
  exists s0 s1 s2,
    run_toptwo positive Pos.eqb None C13.ex_pt C13.st0 = inl ([s0; s1; s2], C13.st0) /\
    flat positive (remaining s1) = [1; 2] /\ flat positive (eliminated s1) = [3; 4] /\
    qeq_scores (escores s1) [(1, 4%Q); (2, 6%Q)] /\
    elected s2 = [[2]] /\ remaining s2 = [[1]] /\ tiebreaks s2 = [].
Proof.
  do 3 eexists. split; [vm_compute; reflexivity|].
  repeat split; repeat constructor; reflexivity.
Qed.

(* two ballots, (3) and (4 > 3), rank neither finalist: they are dropped from the reduced profile,
   count for nobody in the round-1 scores 3 : 2, and C06's pref_weight gives each direction half of
   their weight 2 *)
Definition ex_neither : Core.profile positive :=
  mkProfile [C13.rb [[1];[2];[3]] 3; C13.rb [[2];[1]] 2; C13.rb [[3]] 1; C13.rb [[4];[3]] 1]
            [1;2;3;4].

Example ex_neither_untied : untied_profile positive ex_neither.
Proof. solve_untied. Qed.

Example ex_neither_run :
  first_weight positive Pos.eqb (ballots ex_neither) 1 2 == 3 /\
  first_weight positive Pos.eqb (ballots ex_neither) 2 1 == 2 /\
  neither_weight positive Pos.eqb (ballots ex_neither) 1 2 == 2 /\
  pref_weight positive Pos.eqb (ballots ex_neither) 1 2 == 4 /\
  pref_weight positive Pos.eqb (ballots ex_neither) 2 1 == 3 /\
  exists s0 s1 s2 p1,
    run_toptwo positive Pos.eqb (Some TBFirstPlace) ex_neither C13.st0 = inl ([s0; s1; s2], C13.st0) /\
    flat positive (remaining s1) = [1; 2] /\
    remove_cand_prof positive Pos.eqb (flat positive (eliminated s1)) true false ex_neither = inl p1 /\
    length (ballots p1) = 2%nat /\
    qeq_scores (escores s1) [(1, 3%Q); (2, 2%Q)] /\
    elected s2 = [[1]] /\ remaining s2 = [[2]] /\ tiebreaks s2 = [].
Proof.
  split; [vm_compute; reflexivity|]. split; [vm_compute; reflexivity|].
  split; [vm_compute; reflexivity|]. split; [vm_compute; reflexivity|].
  split; [vm_compute; reflexivity|].
  do 4 eexists. split; [vm_compute; reflexivity|]. split; [reflexivity|].
  split; [vm_compute; reflexivity|].
  repeat split; repeat constructor; reflexivity.
Qed.

(* the 3 : 3 tie of Properties/C13.v (the ballot (3) ranks neither finalist: pref_weight 7/2 each
   way): the hypotheses of c13_toptwo_pairwise_tie hold and the election is refused *)
Example ex_ptie_untied : untied_profile positive C13.ex_ptie.
Proof. solve_untied. Qed.

Example ex_ptie_refused :
  STV.ranking_validate positive C13.ex_ptie = inl tt /\
  pref_weight positive Pos.eqb (ballots C13.ex_ptie) 1 2 == pref_weight positive Pos.eqb (ballots C13.ex_ptie) 2 1 /\
  pref_weight positive Pos.eqb (ballots C13.ex_ptie) 1 2 == 7#2 /\
  exists s0 p1 s1,
    Rules.round0 positive Pos.eqb SKFpv C13.ex_ptie = inl s0 /\
    Rules.plurality_stage positive Pos.eqb 2 None C13.ex_ptie s0 C13.st0 = inl ((p1, s1), C13.st0) /\
    flat positive (remaining s1) = [1; 2] /\
    run_toptwo positive Pos.eqb None C13.ex_ptie C13.st0 = inr EValue.
Proof.
  split; [reflexivity|]. split; [vm_compute; reflexivity|]. split; [vm_compute; reflexivity|].
  do 3 eexists. split; [vm_compute; reflexivity|]. split; [vm_compute; reflexivity|].
  split; vm_compute; reflexivity.
Qed.

(* the same tie under tiebreak = "random", replayed with two scripted draws (the election's and the
   one made again by get_profile): round 2 records the tiebreak, candidate 2 wins it, and the two
   pairwise weights are equal, as c13_toptwo_pairwise says *)
Example ex_ptie_random :
  exists s0 s1 s2 s',
    run_toptwo positive Pos.eqb (Some TBRandom) C13.ex_ptie (mkM [DPerm [2; 1]; DPerm [2; 1]] [])
    = inl ([s0; s1; s2], s') /\
    flat positive (remaining s1) = [1; 2] /\
    elected s2 = [[2]] /\ remaining s2 = [[1]] /\ tiebreaks s2 = [([1; 2], [[2]; [1]])] /\
    margin positive Pos.eqb (ballots C13.ex_ptie) 2 1 == 0.
Proof.
  do 4 eexists. split; [vm_compute; reflexivity|].
  repeat split.
Qed.
