(* Properties/C16_types_push.v — property C16, clause "slate-Plackett-Luce slate patterns by
   cohesion-weighted draws renormalised when a slate is used up": the PUSHFORWARD.

   Properties/C16.v (B3) says which interval of flips selects which slate, that one iteration of
   [type_loop] makes the state update of one [dbind] of [law_types], and that every returned type
   has positive probability.  Here: the distribution of the type returned by [type_loop] when the
   flips are independent and uniform on [0,1) (np.random.uniform) and the shuffle, when it
   happens, is a uniformly random arrangement of the remaining labels (random.shuffle) EQUALS
   [law_types].  Flips are continuous, so the statement is made with BOXES (products of half-open
   intervals (lo, hi], one per flip consumed) and their VOLUMES, all exact rationals:

   1. one iteration: the flips selecting index i are the interval [bin_interval values i]; its
      length is values_i, which is the weight [law_types] gives to i (values sum to one, initially
      and after every renormalisation).  The bins tile (0,1]: of the flips np.random.uniform can
      return only u = 0 selects no bin (TypeError in the code, EType in the model), a set of
      measure zero; the right end point 1 is never returned, also measure zero.
   2. a whole type: [type_boxes n blocs values sizes acc] (Spec/TypesPushSpec.v) lists the boxes
      of a loop state with their outcomes (type finished / shuffle with prefix p of multiset rem).
      (A)  [type_loop] returns (t, calls) on a flip vector  <->  the vector lies in a box whose
           outcome reads t (for a shuffle box: t = p ++ s, s the recorded shuffle); the box
           containing a vector is unique; every vector of (0,1]^n lies in a box.
      (B)  the volume of the boxes yielding t, a shuffle box counting 1 / #arrangements(rem) when
           t = p ++ (an arrangement of rem), == prob (list_peqb t) (law_types ...); the same for
           every event; volumes are non-negative and add up to 1.
      The probability that independent uniform flips fall into a box is its volume (product
      measure on intervals: the only trusted fact, with the laws of the two primitives), the boxes
      are disjoint, so (A) + (B) are the pushforward.

   Spec vocabulary: interval, in_interval, iv_len, bin_interval, outcome, box, in_box, box_volume,
   type_boxes, outcome_type, outcome_calls, outcome_law, outcome_weight, type_volume
   (Spec/TypesPushSpec.v); law_types, type_remaining (Spec/GenLaws.v); size_of (Spec/GenSpec.v);
   dist, prob, mass, categorical, uniform_of (Model/Laws.v). *)
From VK Require Import Base Core GenValidation PrefInterval Generators Laws.
From VK.Spec Require Import GenSpec GenLaws TypesLawSpec TypesPushSpec.
From VK.Proofs Require Import C16_types_push.
From Coq Require Import Permutation.

(* ====================== 1. one iteration ====================== *)

(* the flips that select index i form the interval (v_0+..+v_(i-1), v_0+..+v_i]; its length is v_i,
   the probability of index i under the categorical draw of [law_types] *)
Theorem c16_push_bin : forall (values : list Q) (i : nat),
  Forall (fun v => 0 <= v) values -> qsum values == 1 -> (i < length values)%nat ->
  (forall u, which_bin (bins_of values) u 0 = Some i <-> in_interval u (bin_interval values i)) /\
  iv_len (bin_interval values i) == nth i values 0 /\
  iv_len (bin_interval values i) ==
    prob (Nat.eqb i) (categorical (combine (seq 0 (length values)) values)).
Proof.
  intros values i Hnn H1 Hi. split; [|split].
  - intros u. rewrite (which_bin_interval values u i Hnn). tauto.
  - exact (bin_interval_len values i Hi).
  - exact (bin_interval_prob values i H1 Hi).
Qed.
Print Assumptions c16_push_bin.

(* the bins tile (0,1]: every flip in (0,1] selects an index; 0 (and anything outside) selects
   none.  np.random.uniform returns values in [0,1): only the null set {0} makes the loop fail *)
Theorem c16_push_bins_tile : forall (values : list Q),
  Forall (fun v => 0 <= v) values -> qsum values == 1 ->
  (forall u, 0 < u -> u <= 1 -> exists i, which_bin (bins_of values) u 0 = Some i) /\
  (forall u, u <= 0 \/ 1 < u -> which_bin (bins_of values) u 0 = None).
Proof.
  intros values Hnn H1. split.
  - intros u H0 Hu. apply which_bin_total; [exact H0|]. rewrite H1. exact Hu.
  - intros u Hu. apply which_bin_outside; [exact Hnn|]. rewrite H1. exact Hu.
Qed.
Print Assumptions c16_push_bins_tile.

(* after a slate is used up (and no shuffle is due) the values the next iteration uses are again
   non-negative and sum to one, so the two theorems above apply to every iteration *)
Theorem c16_push_renormalised : forall (values : list Q) (i : nat),
  Forall (fun v => 0 <= v) values ->
  Qeq_bool (qsum (remove_nth i values)) 0 && nonempty (remove_nth i values) = false ->
  Forall (fun v => 0 <= v) (map (fun v => v / qsum (remove_nth i values)) (remove_nth i values)) /\
  (map (fun v => v / qsum (remove_nth i values)) (remove_nth i values) <> [] ->
   qsum (map (fun v => v / qsum (remove_nth i values)) (remove_nth i values)) == 1).
Proof.
  intros values i Hnn Ez. split; [exact (renorm_nonneg values i Hnn Ez)|exact (renorm_sum_one values i Ez)].
Qed.
Print Assumptions c16_push_renormalised.

(* ====================== 2 (A). the loop is constant on boxes ====================== *)

(* for ALL flip vectors: the loop returns (t, calls) iff the flips it consumes lie, componentwise,
   in the intervals of one of the boxes, whose outcome is "finished with t" or "shuffle: t is the
   prefix followed by the recorded shuffle", and the calls are that outcome's *)
Theorem c16_push_loop_boxes : forall (sizes : list (bloc * nat)) (flips : list Q) (blocs : list bloc)
    (values : list Q) (acc : list bloc) (sh : option (list bloc)) (t : list bloc) (calls : list gcall),
  Forall (fun v => 0 <= v) values ->
  (type_loop flips blocs values sizes acc sh = inl (t, calls) <->
   exists bx, In bx (type_boxes (length flips) blocs values sizes acc) /\
     in_box flips (fst bx) /\ outcome_type (snd bx) sh t /\ calls = outcome_calls (snd bx)).
Proof. exact type_loop_boxes. Qed.
Print Assumptions c16_push_loop_boxes.

(* the boxes are pairwise disjoint: a flip vector lies in at most one *)
Theorem c16_push_boxes_disjoint : forall (sizes : list (bloc * nat)) (n : nat) (flips : list Q)
    (blocs : list bloc) (values : list Q) (acc : list bloc) (bx1 bx2 : box),
  Forall (fun v => 0 <= v) values ->
  In bx1 (type_boxes n blocs values sizes acc) -> In bx2 (type_boxes n blocs values sizes acc) ->
  in_box flips (fst bx1) -> in_box flips (fst bx2) -> bx1 = bx2.
Proof. exact type_boxes_disjoint. Qed.
Print Assumptions c16_push_boxes_disjoint.

(* on the reachable loop states (those of c16_slate_types_mass, values summing to one) every flip
   vector of (0,1]^n lies in a box *)
Theorem c16_push_boxes_cover : forall (sizes : list (bloc * nat)) (n : nat) (flips : list Q)
    (blocs : list bloc) (values : list Q) (acc : list bloc),
  NoDup blocs -> length blocs = length values ->
  Forall (fun v => 0 <= v) values ->
  (blocs <> [] -> qsum values == 1) ->
  (forall b, In b blocs -> (count_bloc b acc < size_of sizes b)%nat) ->
  n = list_sum (map (fun b => size_of sizes b - count_bloc b acc)%nat blocs) ->
  length flips = n -> Forall (fun u => 0 < u /\ u <= 1) flips ->
  exists bx, In bx (type_boxes n blocs values sizes acc) /\ in_box flips (fst bx).
Proof. exact type_boxes_cover. Qed.
Print Assumptions c16_push_boxes_cover.

(* ====================== 2 (B). volumes ====================== *)

(* the volume of the flip vectors yielding the type t (shuffle boxes weighted by
   1 / #arrangements) is the probability of t under [law_types].  Only "values sum to one" is
   needed (it is re-established by every renormalisation) *)
Theorem c16_push_type_volume : forall (sizes : list (bloc * nat)) (t : list bloc) (n : nat)
    (blocs : list bloc) (values : list Q) (acc : list bloc),
  (values <> [] -> qsum values == 1) ->
  type_volume t (type_boxes n blocs values sizes acc) ==
  prob (list_peqb t) (law_types n blocs values sizes acc).
Proof. exact type_volume_law. Qed.
Print Assumptions c16_push_type_volume.

(* the same for every event, the outcome of a box being distributed by [outcome_law] *)
Theorem c16_push_event_volume : forall (sizes : list (bloc * nat)) (ev : list bloc -> bool) (n : nat)
    (blocs : list bloc) (values : list Q) (acc : list bloc),
  (values <> [] -> qsum values == 1) ->
  qsum (map (fun bx => box_volume (fst bx) * prob ev (outcome_law (snd bx)))
            (type_boxes n blocs values sizes acc)) ==
  prob ev (law_types n blocs values sizes acc).
Proof. exact boxes_prob_law. Qed.
Print Assumptions c16_push_event_volume.

(* [outcome_weight] is the point probability of [outcome_law]: a uniform arrangement of rem hits
   a given one with probability 1 / (number of distinct arrangements) *)
Theorem c16_push_outcome_weight : forall (t : list bloc) (o : outcome),
  prob (list_peqb t) (outcome_law o) == outcome_weight t o /\ mass (outcome_law o) == 1.
Proof. intros t o. split; [exact (outcome_law_point t o)|exact (mass_outcome_law o)]. Qed.
Print Assumptions c16_push_outcome_weight.

(* volumes are non-negative ... *)
Theorem c16_push_volume_nonneg : forall (sizes : list (bloc * nat)) (n : nat) (blocs : list bloc)
    (values : list Q) (acc : list bloc) (bx : box),
  Forall (fun v => 0 <= v) values ->
  In bx (type_boxes n blocs values sizes acc) -> 0 <= box_volume (fst bx).
Proof. exact type_boxes_volume_nonneg. Qed.
Print Assumptions c16_push_volume_nonneg.

(* ... and on the reachable loop states they add up to 1: the flip vectors outside all boxes
   (a flip equal to 0) have volume 0 *)
Theorem c16_push_total_volume : forall (sizes : list (bloc * nat)) (n : nat) (blocs : list bloc)
    (values : list Q) (acc : list bloc),
  NoDup blocs -> length blocs = length values ->
  Forall (fun v => 0 <= v) values ->
  (blocs <> [] -> qsum values == 1) ->
  (forall b, In b blocs -> (count_bloc b acc < size_of sizes b)%nat) ->
  n = list_sum (map (fun b => size_of sizes b - count_bloc b acc)%nat blocs) ->
  qsum (map (fun bx => box_volume (fst bx)) (type_boxes n blocs values sizes acc)) == 1.
Proof. exact type_boxes_total_volume. Qed.
Print Assumptions c16_push_total_volume.

(* ====================== non-vacuity ====================== *)
Local Open Scope positive_scope.

(* --- two slates of sizes 2 and 1, cohesion 3/4 : 1/4 --- *)
Definition exp_sizes : list (bloc * nat) := [(1, 2%nat); (2, 1%nat)].
Definition exp_values : list Q := [(3 # 4)%Q; (1 # 4)%Q].
Definition exp_boxes : list box := type_boxes 3 [1; 2] exp_values exp_sizes [].

(* the hypotheses of the cover / total-volume theorems hold for the initial state *)
Example exp_hyps :
  NoDup [1; 2] /\ length [1; 2] = length exp_values /\ Forall (fun v => 0 <= v)%Q exp_values /\
  qsum exp_values == 1%Q /\
  (forall b, In b [1; 2] -> (count_bloc b [] < size_of exp_sizes b)%nat) /\
  3%nat = list_sum (map (fun b => size_of exp_sizes b - count_bloc b [])%nat [1; 2]).
Proof.
  split; [repeat constructor; cbn; intuition discriminate|].
  split; [reflexivity|]. split; [repeat constructor; discriminate|].
  split; [vm_compute; reflexivity|]. split; [|reflexivity].
  intros b [<-|[<-|[]]]; vm_compute; repeat constructor.
Qed.

(* first iteration: slate 1 is drawn for flips in (0, 3/4], slate 2 for flips in (3/4, 1] *)
Example exp_bins :
  bin_interval exp_values 0 = (0%Q, ((3 # 4) + 0)%Q) /\
  iv_len (bin_interval exp_values 0) == (3 # 4)%Q /\
  iv_len (bin_interval exp_values 1) == (1 # 4)%Q /\
  prob (Nat.eqb 1) (categorical (combine (seq 0 (length exp_values)) exp_values)) == (1 # 4)%Q /\
  which_bin (bins_of exp_values) (1 # 2) 0 = Some 0%nat /\
  which_bin (bins_of exp_values) (7 # 8) 0 = Some 1%nat /\
  which_bin (bins_of exp_values) 0 0 = None.
Proof. repeat split; vm_compute; reflexivity. Qed.

(* three boxes, one per type: [1;1;2] on (0,3/4] x (0,3/4] x (0,1], [1;2;1] on
   (0,3/4] x (3/4,1] x (0,1], [2;1;1] on (3/4,1] x (0,1] x (0,1] *)
Example exp_box_outcomes :
  map snd exp_boxes = [Finished [1; 1; 2]; Finished [1; 2; 1]; Finished [2; 1; 1]] /\
  Forall2 (fun bx v => box_volume (fst bx) == v) exp_boxes [(9 # 16)%Q; (3 # 16)%Q; (1 # 4)%Q].
Proof. split; [vm_compute; reflexivity|]. repeat constructor; vm_compute; reflexivity. Qed.

(* volumes = probabilities under law_types; total volume 1 *)
Example exp_volumes :
  type_volume [1; 2; 1] exp_boxes == (3 # 16)%Q /\
  prob (list_peqb [1; 2; 1]) (law_types 3 [1; 2] exp_values exp_sizes []) == (3 # 16)%Q /\
  type_volume [1; 1; 2] exp_boxes == (9 # 16)%Q /\
  prob (list_peqb [1; 1; 2]) (law_types 3 [1; 2] exp_values exp_sizes []) == (9 # 16)%Q /\
  type_volume [2; 1; 1] exp_boxes == (1 # 4)%Q /\
  prob (list_peqb [2; 1; 1]) (law_types 3 [1; 2] exp_values exp_sizes []) == (1 # 4)%Q /\
  type_volume [2; 2; 1] exp_boxes == 0%Q /\
  qsum (map (fun bx => box_volume (fst bx)) exp_boxes) == 1%Q.
Proof. repeat split; vm_compute; reflexivity. Qed.

(* a concrete flip vector: the loop returns [1;2;1], hence (by the theorem) the flips lie in a box
   whose outcome is that type *)
Example exp_flips :
  type_loop [(1 # 2)%Q; (7 # 8)%Q; (1 # 3)%Q] [1; 2] exp_values exp_sizes [] None = inl ([1; 2; 1], []) /\
  exists bx, In bx exp_boxes /\ in_box [(1 # 2)%Q; (7 # 8)%Q; (1 # 3)%Q] (fst bx) /\
             snd bx = Finished [1; 2; 1].
Proof.
  assert (H : type_loop [(1 # 2)%Q; (7 # 8)%Q; (1 # 3)%Q] [1; 2] exp_values exp_sizes [] None
              = inl ([1; 2; 1], [])) by (vm_compute; reflexivity).
  split; [exact H|].
  apply (c16_push_loop_boxes exp_sizes) in H; [|repeat constructor; discriminate].
  destruct H as (bx & Hin & Hb & Ht & _). exists bx. split; [exact Hin|]. split; [exact Hb|].
  destruct (snd bx) as [t'|p rem]; cbn [outcome_type] in Ht.
  - rewrite Ht. reflexivity.
  - destruct Ht as (s & Hs & _). discriminate Hs.
Qed.

(* --- zero cohesion with the other slates: values 1, 0, 0; slates of sizes 1, 2, 1 --- *)
Definition exz_sizes : list (bloc * nat) := [(1, 1%nat); (2, 2%nat); (3, 1%nat)].
Definition exz_values : list Q := [1%Q; 0%Q; 0%Q].
Definition exz_boxes : list box := type_boxes 4 [1; 2; 3] exz_values exz_sizes [].

(* the first flip (anywhere in (0,1]) draws slate 1, which is used up; the remaining values are all
   zero: shuffle of [2;2;3], three distinct arrangements, 1/3 each.  The other boxes (first flip in
   the empty bins of slates 2, 3) have volume 0 *)
Example exz_boxes_shape :
  hd_error exz_boxes = Some ([(0%Q, (1 + 0)%Q)], Shuffled [1] [2; 2; 3]) /\
  Forall (fun bx => box_volume (fst bx) == 0%Q) (tl exz_boxes) /\
  length (arrangements_ms [2; 2; 3]) = 3%nat.
Proof.
  split; [vm_compute; reflexivity|]. split; [|vm_compute; reflexivity].
  apply Forall_forall. intros bx Hbx. vm_compute in Hbx.
  repeat (destruct Hbx as [<-|Hbx]; [vm_compute; reflexivity|]). destruct Hbx.
Qed.

Example exz_volumes :
  type_volume [1; 2; 3; 2] exz_boxes == (1 # 3)%Q /\
  prob (list_peqb [1; 2; 3; 2]) (law_types 4 [1; 2; 3] exz_values exz_sizes []) == (1 # 3)%Q /\
  type_volume [1; 3; 2; 2] exz_boxes == (1 # 3)%Q /\
  type_volume [1; 2; 2; 3] exz_boxes == (1 # 3)%Q /\
  type_volume [2; 1; 2; 3] exz_boxes == 0%Q /\
  prob (list_peqb [2; 1; 2; 3]) (law_types 4 [1; 2; 3] exz_values exz_sizes []) == 0%Q /\
  qsum (map (fun bx => box_volume (fst bx)) exz_boxes) == 1%Q.
Proof. repeat split; vm_compute; reflexivity. Qed.

(* the loop on a concrete flip vector with the recorded shuffle [2;3;2]: only one flip is read *)
Example exz_flips :
  type_loop [(1 # 2)%Q; (9 # 10)%Q; (1 # 10)%Q; (1 # 5)%Q] [1; 2; 3] exz_values exz_sizes []
            (Some [2; 3; 2]) = inl ([1; 2; 3; 2], [GShuffle [2; 2; 3]]) /\
  exists bx, In bx exz_boxes /\ in_box [(1 # 2)%Q; (9 # 10)%Q; (1 # 10)%Q; (1 # 5)%Q] (fst bx) /\
             outcome_type (snd bx) (Some [2; 3; 2]) [1; 2; 3; 2] /\
             outcome_calls (snd bx) = [GShuffle [2; 2; 3]].
Proof.
  assert (H : type_loop [(1 # 2)%Q; (9 # 10)%Q; (1 # 10)%Q; (1 # 5)%Q] [1; 2; 3] exz_values exz_sizes []
                (Some [2; 3; 2]) = inl ([1; 2; 3; 2], [GShuffle [2; 2; 3]])) by (vm_compute; reflexivity).
  split; [exact H|].
  apply (c16_push_loop_boxes exz_sizes) in H; [|repeat constructor; discriminate].
  destruct H as (bx & Hin & Hb & Ht & Hc). exists bx. repeat split; try assumption.
  symmetry. exact Hc.
Qed.

(* --- the premise "values sum to one" is needed ---
   BallotGenerator.__init__ only checks round(sum(cohesion row), 8) == 1 ([rounds_to_one]), and
   the first iteration uses the cohesion values as given (they are divided by their sum only after
   a slate is used up), whereas [law_types] normalises.  A row summing to 1 - 10^-9 is accepted;
   then the flip 1 - 10^-10, a possible result of np.random.uniform, selects no bin (TypeError):
   with probability 10^-9 per first flip the code raises instead of returning a type *)
Example exp_sum_below_one :
  let values := [(1 # 2)%Q; ((1 # 2) - (1 # 1000000000))%Q] in
  let u := (1 - (1 # 10000000000))%Q in
  rounds_to_one (qsum values) = true /\ (0 <= u)%Q /\ (u < 1)%Q /\
  type_loop [u; (1 # 2)%Q; (1 # 2)%Q] [1; 2] values exp_sizes [] None = inr EType /\
  mass (law_types 3 [1; 2] values exp_sizes []) == 1%Q.
Proof.
  cbv zeta. split; [vm_compute; reflexivity|]. split; [discriminate|].
  split; [reflexivity|]. split; vm_compute; reflexivity.
Qed.
