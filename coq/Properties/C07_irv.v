(* Properties/C07_irv.v — C07, second half ("a strict majority of integer-weight ballots wins IRV"),
   WITHOUT the premise "the count returns" of Properties/C07.v (c07_irv_majority).
   Statements only; proofs are in Proofs/C07_irv.v.
   Vocabulary: header of Properties/C07.v and Properties/C02.v, and
     integral_weights p     every ballot weight is a whole number (Spec/STVSpec.v)
     continues c b          b is led by c and still ranks somebody once c is struck out
     transferable_wt c p    weight of those ballots: what random_transfer can sample from
     surplus_pop c p        the population random.sample draws from: (ranking after c, weight)
     a run returns (out, s'): out = recorded states, s' = what is left of the script of random
                            outcomes; EValue = ValueError, EScript = the script does not fit
   What the model (and stv.py) does with m = 1: round 1 elects the candidate(s) at the threshold
   and STILL transfers the winner's surplus although the count is over.  So with the random
   transfer one sample is drawn even in IRV, and it can fail. *)
From VK Require Import Base Core STV EditSpec STVSpec PCSpec.
From VK.Proofs Require Import STV_final C07_irv.
From Coq Require Import Qround.

Section C07_irv.
Variable cand : Type.
Variable ceqb : cand -> cand -> bool.
Hypothesis ceqb_spec : forall a b, reflect (a = b) (ceqb a b).

Notation profile := (profile cand).
Notation ballot := (ballot cand).
Notation ranking := (ranking cand).
Notation estate := (estate cand).
Notation mstate := (mstate cand).
Notation flat := (flat cand).
Notation strip := (strip cand ceqb).
Notation first_is := (first_is cand ceqb).
Notation total_wt := (total_wt cand).
Notation wt_where := (wt_where cand).
Notation tally := (tally cand ceqb).
Notation wf_stv_profile := (wf_stv_profile cand).
Notation integral_weights := (integral_weights cand).
Notation script_ok := (script_ok cand).
Notation stv_init := (stv_init cand).
Notation run_stv := (run_stv cand ceqb).
Notation elected_upto := (elected_upto cand).

Definition continues (c : cand) (b : ballot) : bool :=
  first_is c b && nonempty (strip [c] (rk b)).
Definition transferable_wt (c : cand) (p : profile) : Q := wt_where (continues c) (ballots p).
Definition surplus_pop (c : cand) (p : profile) : list (ranking * Q) :=
  map (fun b => (strip [c] (rk b), wt b)) (filter (continues c) (ballots p)).

(* ---------- (a) strict majority <-> threshold ---------- *)

(* the one-seat Droop threshold is floor(N/2)+1; it exceeds half the weight *)
Theorem c07_irv_threshold_value : forall cfg (p : profile) t, wf_stv_profile p ->
  s_quota cfg = QDroop -> s_m cfg = 1%Z -> stv_init cfg p = inl t ->
  t = inject_Z (Qfloor (total_wt (ballots p) / 2) + 1) /\ total_wt (ballots p) < 2 * t /\ 1 <= t.
Proof. exact (irv_threshold_value cand). Qed.

(* whole-number weights: c reaches the threshold exactly when its first-place tally is a strict
   majority of the total weight *)
Theorem c07_irv_majority_reaches_iff : forall cfg (p : profile) (c : cand) t,
  wf_stv_profile p -> integral_weights p ->
  s_quota cfg = QDroop -> s_m cfg = 1%Z -> stv_init cfg p = inl t ->
  (t <= tally c (ballots p) <-> total_wt (ballots p) < 2 * tally c (ballots p)).
Proof. exact (irv_majority_reaches_iff cand ceqb). Qed.

(* any weights: half the weight or less never reaches it (the strictness is needed) *)
Theorem c07_irv_half_does_not_reach : forall cfg (p : profile) (c : cand) t,
  wf_stv_profile p -> s_quota cfg = QDroop -> s_m cfg = 1%Z -> stv_init cfg p = inl t ->
  2 * tally c (ballots p) <= total_wt (ballots p) -> tally c (ballots p) < t.
Proof. exact (irv_half_does_not_reach cand ceqb). Qed.

(* ---------- (b) fractional transfer: the count cannot fail ---------- *)

(* IRV = STV with one seat, Droop quota, fractional transfer; simultaneous or one-by-one, any
   tie-break setting (None, a valid or an invalid name), any script of random outcomes, any
   weights: if c is ranked first on ballots worth the threshold the count returns, after exactly
   one round, without consulting a tie-break or the script, and elects exactly c *)
Theorem c07_irv_reaches_runs_fractional : forall cfg (p : profile) (c : cand) t (s : mstate),
  wf_stv_profile p -> s_quota cfg = QDroop -> s_transfer cfg = TFractional -> s_m cfg = 1%Z ->
  In c (cands p) -> stv_init cfg p = inl t -> t <= tally c (ballots p) ->
  exists out, run_stv cfg p s = inl (out, s) /\
    flat (elected_upto out (length out - 1)) = [c] /\
    length out = 2%nat /\ Forall (fun st => tiebreaks st = []) out.
Proof. exact (irv_reaches_fractional_runs cand ceqb ceqb_spec). Qed.

(* the majority criterion proper: whole-number weights and a strict majority of first places *)
Theorem c07_irv_majority_runs_fractional : forall cfg (p : profile) (c : cand) (s : mstate),
  wf_stv_profile p -> integral_weights p ->
  s_quota cfg = QDroop -> s_transfer cfg = TFractional -> s_m cfg = 1%Z ->
  In c (cands p) -> total_wt (ballots p) < 2 * tally c (ballots p) ->
  exists out, run_stv cfg p s = inl (out, s) /\
    flat (elected_upto out (length out - 1)) = [c] /\
    length out = 2%nat /\ Forall (fun st => tiebreaks st = []) out.
Proof. exact (irv_majority_fractional_runs cand ceqb ceqb_spec). Qed.

(* ---------- (b) random transfer: one sample of the winner's surplus is still drawn ---------- *)

(* the count returns and elects exactly c provided the winner's transferable ballots cover the
   surplus tally c - t (= kz, a whole number) and the script starts with a valid sample of kz of
   them; it consumes that one draw *)
Theorem c07_irv_majority_runs_random :
  forall cfg (p : profile) (c : cand) t (kz : Z) (s : mstate) (l : list ranking) rest,
  wf_stv_profile p -> integral_weights p ->
  s_quota cfg = QDroop -> s_transfer cfg = TRandom -> s_m cfg = 1%Z ->
  In c (cands p) -> stv_init cfg p = inl t ->
  total_wt (ballots p) < 2 * tally c (ballots p) ->
  inject_Z kz == tally c (ballots p) - t ->
  script_ok s ->
  tally c (ballots p) - t <= transferable_wt c p ->
  scr s = DRanks l :: rest ->
  valid_ballot_sample cand ceqb (surplus_pop c p) kz l = true ->
  exists out s', run_stv cfg p s = inl (out, s') /\ scr s' = rest /\
    flat (elected_upto out (length out - 1)) = [c] /\
    length out = 2%nat /\ Forall (fun st => tiebreaks st = []) out.
Proof. exact (irv_majority_random_runs_flat cand ceqb ceqb_spec). Qed.

(* FINDING (model = stv.py + transfers.py): if the winner's transferable ballots weigh less than
   the surplus, random.sample raises ValueError and IRV fails although c has a strict majority,
   whatever the mode, the tie-break setting and the script *)
Theorem c07_irv_majority_random_shortage :
  forall cfg (p : profile) (c : cand) t (kz : Z) (s : mstate),
  wf_stv_profile p -> integral_weights p ->
  s_quota cfg = QDroop -> s_transfer cfg = TRandom -> s_m cfg = 1%Z ->
  In c (cands p) -> stv_init cfg p = inl t ->
  total_wt (ballots p) < 2 * tally c (ballots p) ->
  inject_Z kz == tally c (ballots p) - t ->
  transferable_wt c p < tally c (ballots p) - t ->
  run_stv cfg p s = inr EValue.
Proof. exact (irv_majority_random_shortage_flat cand ceqb ceqb_spec). Qed.

(* enough transferable ballots but a script that does not start with a valid sample (exhausted,
   another kind of draw, wrong size, ballots that are not there): EScript, nothing else *)
Theorem c07_irv_majority_random_bad_script :
  forall cfg (p : profile) (c : cand) t (kz : Z) (s : mstate),
  wf_stv_profile p -> integral_weights p ->
  s_quota cfg = QDroop -> s_transfer cfg = TRandom -> s_m cfg = 1%Z ->
  In c (cands p) -> stv_init cfg p = inl t ->
  total_wt (ballots p) < 2 * tally c (ballots p) ->
  inject_Z kz == tally c (ballots p) - t ->
  tally c (ballots p) - t <= transferable_wt c p ->
  (forall l rest, scr s = DRanks l :: rest ->
     valid_ballot_sample cand ceqb (surplus_pop c p) kz l = false) ->
  run_stv cfg p s = inr EScript.
Proof. exact (irv_majority_random_bad_script_flat cand ceqb ceqb_spec). Qed.

(* summary, both transfers: every failure of the one-seat Droop count on a profile with a
   strict-majority candidate is one of the two above — never a tie (ValueError with tiebreak
   None), IndexError, KeyError, ZeroDivisionError, TypeError or non-termination *)
Theorem c07_irv_majority_errors :
  forall cfg (p : profile) (c : cand) t (kz : Z) (s : mstate) e,
  wf_stv_profile p -> integral_weights p ->
  s_quota cfg = QDroop -> s_transfer cfg <> TFullWeight -> s_m cfg = 1%Z ->
  (s_transfer cfg = TRandom -> script_ok s) ->
  In c (cands p) -> stv_init cfg p = inl t ->
  total_wt (ballots p) < 2 * tally c (ballots p) ->
  inject_Z kz == tally c (ballots p) - t ->
  run_stv cfg p s = inr e ->
  s_transfer cfg = TRandom /\
  ((e = EValue /\ transferable_wt c p < tally c (ballots p) - t) \/
   (e = EScript /\ tally c (ballots p) - t <= transferable_wt c p /\
    forall l rest, scr s = DRanks l :: rest ->
      valid_ballot_sample cand ceqb (surplus_pop c p) kz l = false)).
Proof. exact (irv_majority_errors cand ceqb ceqb_spec). Qed.

(* ---------- (c) the errors left to c07_droop_pc with the fractional transfer ---------- *)

(* Droop quota, fractional transfer, m in range, and ties for a seat breakable (simultaneous mode,
   or one-by-one with a valid tie-break name, e.g. Some TBRandom): the only failure is a script
   that does not supply the draws asked for (EScript; cannot happen with a live random source).
   For the remaining settings see c01_stv_droop_errors. *)
Theorem c07_run_errors_fractional : forall cfg (p : profile) (s : mstate) e,
  wf_stv_profile p -> s_quota cfg = QDroop -> s_transfer cfg = TFractional ->
  (1 <= s_m cfg <= Z.of_nat (length (cands p)))%Z ->
  (s_simul cfg = true \/ exists kind, s_tiebreak cfg = Some kind /\ kind <> TBInvalid) ->
  run_stv cfg p s = inr e -> e = EScript.
Proof. exact (droop_fractional_script_only cand ceqb ceqb_spec). Qed.

End C07_irv.

Print Assumptions c07_irv_threshold_value.
Print Assumptions c07_irv_majority_reaches_iff.
Print Assumptions c07_irv_half_does_not_reach.
Print Assumptions c07_irv_reaches_runs_fractional.
Print Assumptions c07_irv_majority_runs_fractional.
Print Assumptions c07_irv_majority_runs_random.
Print Assumptions c07_irv_majority_random_shortage.
Print Assumptions c07_irv_majority_random_bad_script.
Print Assumptions c07_irv_majority_errors.
Print Assumptions c07_run_errors_fractional.

(* ---------- non-vacuity ---------- *)
Module C07IrvExamples.
Open Scope positive_scope.

Definition bal (r : list positive) (w : Q) : ballot positive :=
  mkBallot (map (fun c => [c]) r) w [] None None.
Definition no_script : mstate positive := mkM [] [].
Ltac valid := apply (wf_stv_profile_b_ok positive Pos.eqb Pos.eqb_spec); vm_compute; reflexivity.

(* 1>2 x5, 1 x3, 2>3 x3, 3>1 x2 ; three candidates, partial ballots ; N = 13, threshold 7.
   Candidate 1 has 8 of 13 first places (a strict majority, not unanimous); surplus 1; the
   transferable ballots of 1 (1>2) weigh 5 *)
Definition exm_p : profile positive :=
  mkProfile [bal [1; 2] 5%Q; bal [1] 3%Q; bal [2; 3] 3%Q; bal [3; 1] 2%Q] [1; 2; 3].
Definition cfg_of (simul : bool) (k : transfer_kind) (tb : option tb_kind) : stv_cfg :=
  mkStv 1%Z QDroop simul k tb.

Example exm_hyps :
  wf_stv_profile positive exm_p /\ integral_weights positive exm_p /\ In 1 (cands exm_p) /\
  (total_wt positive (ballots exm_p) < 2 * tally positive Pos.eqb 1%positive (ballots exm_p))%Q /\
  (tally positive Pos.eqb 1%positive (ballots exm_p) < total_wt positive (ballots exm_p))%Q /\
  (forall simul k tb, stv_init positive (cfg_of simul k tb) exm_p = inl 7%Q) /\
  (inject_Z 1 == tally positive Pos.eqb 1%positive (ballots exm_p) - 7)%Q /\
  (tally positive Pos.eqb 1%positive (ballots exm_p) - 7 <= transferable_wt positive Pos.eqb 1%positive exm_p)%Q.
Proof.
  split; [valid|]. split; [repeat constructor|]. split; [cbn; tauto|].
  split; [vm_compute; reflexivity|]. split; [vm_compute; reflexivity|].
  split; [intros simul k tb; destruct k; vm_compute; reflexivity|].
  split; [vm_compute; reflexivity|vm_compute; discriminate].
Qed.

(* fractional transfer, both modes, by computation: two states, 1 elected, 1's surplus moved on *)
Example exm_run_fractional : forall simul,
  match run_stv positive Pos.eqb (cfg_of simul TFractional None) exm_p no_script with
  | inl (sts, s') =>
      map (fun st => (elected st, eliminated st, tiebreaks st)) sts =
        [([[]], [[]], []); ([[1]], [[]], [])] /\
      flat positive (elected_upto positive sts (length sts - 1)) = [1] /\ s' = no_script
  | inr _ => False
  end.
Proof. intros [|]; vm_compute; repeat split. Qed.

(* the theorem applies to it, in both modes and with any tie-break setting *)
Example exm_theorem_fractional : forall simul tb s,
  exists out, run_stv positive Pos.eqb (cfg_of simul TFractional tb) exm_p s = inl (out, s) /\
    flat positive (elected_upto positive out (length out - 1)) = [1].
Proof.
  intros simul tb s. destruct exm_hyps as (Hwf & Hint & Hc & Hmaj & _).
  destruct (c07_irv_majority_runs_fractional positive Pos.eqb Pos.eqb_spec
              (cfg_of simul TFractional tb) exm_p 1 s Hwf Hint eq_refl eq_refl eq_refl Hc Hmaj)
    as (out & Hrun & Hel & _).
  exists out. split; assumption.
Qed.

(* random transfer, both modes: the script supplies the one sampled ballot (1>2, continuing as 2) *)
Definition exm_s : mstate positive := mkM [DRanks [[[2]]]; DPerm [3; 2]] [].

Example exm_run_random : forall simul,
  script_ok positive exm_s /\
  valid_ballot_sample positive Pos.eqb (surplus_pop positive Pos.eqb 1 exm_p) 1 [[[2]]] = true /\
  match run_stv positive Pos.eqb (cfg_of simul TRandom None) exm_p exm_s with
  | inl (sts, s') =>
      map (fun st => (elected st, eliminated st, tiebreaks st)) sts =
        [([[]], [[]], []); ([[1]], [[]], [])] /\
      flat positive (elected_upto positive sts (length sts - 1)) = [1] /\ scr s' = [DPerm [3; 2]]
  | inr _ => False
  end.
Proof.
  intros simul. split; [repeat constructor|]. split; [vm_compute; reflexivity|].
  destruct simul; vm_compute; repeat split.
Qed.

Example exm_theorem_random : forall simul tb,
  exists out s', run_stv positive Pos.eqb (cfg_of simul TRandom tb) exm_p exm_s = inl (out, s') /\
    scr s' = [DPerm [3; 2]] /\ flat positive (elected_upto positive out (length out - 1)) = [1].
Proof.
  intros simul tb. destruct exm_hyps as (Hwf & Hint & Hc & Hmaj & _ & Hinit & Hkz & Hen).
  destruct (exm_run_random true) as (Hscr & Hv & _).
  destruct (c07_irv_majority_runs_random positive Pos.eqb Pos.eqb_spec
              (cfg_of simul TRandom tb) exm_p 1 7%Q 1%Z exm_s [[[2]]] [DPerm [3; 2]]
              Hwf Hint eq_refl eq_refl eq_refl Hc (Hinit simul TRandom tb) Hmaj Hkz Hscr Hen
              eq_refl Hv)
    as (out & s' & Hrun & Hs' & Hel & _).
  exists out, s'. repeat split; assumption.
Qed.

(* an exhausted script: EScript, as c07_irv_majority_random_bad_script says *)
Example exm_run_random_no_script : forall simul,
  run_stv positive Pos.eqb (cfg_of simul TRandom None) exm_p no_script = inr EScript.
Proof. intros [|]; vm_compute; reflexivity. Qed.

(* FINDING, concrete: 1 x8 (bullet votes), 2>1 x2, 3 x1 ; N = 11, threshold 6 ; candidate 1 has 8
   first places of 11, surplus 2, but none of its ballots is transferable: IRV with the random
   transfer raises ValueError in both modes *)
Definition exs_p : profile positive :=
  mkProfile [bal [1] 8%Q; bal [2; 1] 2%Q; bal [3] 1%Q] [1; 2; 3].

Theorem c07_irv_majority_random_refuted : exists (p : profile positive) (c : positive),
  wf_stv_profile positive p /\ integral_weights positive p /\ In c (cands p) /\
  (total_wt positive (ballots p) < 2 * tally positive Pos.eqb c (ballots p))%Q /\
  forall simul tb s, run_stv positive Pos.eqb (cfg_of simul TRandom tb) p s = inr EValue.
Proof.
  exists exs_p, 1.
  assert (Hwf : wf_stv_profile positive exs_p) by valid.
  assert (Hint : integral_weights positive exs_p) by (repeat constructor).
  assert (Hc : In 1 (cands exs_p)) by (cbn; tauto).
  assert (Hmaj : (total_wt positive (ballots exs_p) < 2 * tally positive Pos.eqb 1%positive (ballots exs_p))%Q)
    by (vm_compute; reflexivity).
  split; [exact Hwf|]. split; [exact Hint|]. split; [exact Hc|]. split; [exact Hmaj|].
  intros simul tb s.
  apply (c07_irv_majority_random_shortage positive Pos.eqb Pos.eqb_spec
           (cfg_of simul TRandom tb) exs_p 1 6%Q 2%Z s Hwf Hint eq_refl eq_refl eq_refl Hc);
    [vm_compute; reflexivity|exact Hmaj|vm_compute; reflexivity|vm_compute; reflexivity].
Qed.

Example exs_run : forall simul,
  run_stv positive Pos.eqb (cfg_of simul TRandom None) exs_p no_script = inr EValue /\
  match run_stv positive Pos.eqb (cfg_of simul TFractional None) exs_p no_script with
  | inl (sts, _) => flat positive (elected_upto positive sts (length sts - 1)) = [1]
  | inr _ => False
  end.
Proof. intros [|]; vm_compute; repeat split. Qed.

(* the hypothesis is tight: 1>3 x5, 2 x5 ; N = 10, threshold 6 ; candidate 1 has exactly half of
   the first places (2 * 5 = 10), does not reach the threshold, and loses when the random
   tie-break of the last elimination goes against it *)
Definition exb_p : profile positive :=
  mkProfile [bal [1; 3] 5%Q; bal [2] 5%Q] [1; 2; 3].

Example exb_boundary :
  wf_stv_profile positive exb_p /\ integral_weights positive exb_p /\
  (2 * tally positive Pos.eqb 1%positive (ballots exb_p) == total_wt positive (ballots exb_p))%Q /\
  stv_init positive (cfg_of true TFractional None) exb_p = inl 6%Q /\
  (tally positive Pos.eqb 1%positive (ballots exb_p) < 6)%Q /\
  match run_stv positive Pos.eqb (cfg_of true TFractional None) exb_p (mkM [DPerm [2; 1]] []) with
  | inl (sts, _) => flat positive (elected_upto positive sts (length sts - 1)) = [2]
  | inr _ => False
  end.
Proof.
  split; [valid|]. split; [repeat constructor|]. split; [vm_compute; reflexivity|].
  split; [vm_compute; reflexivity|]. split; [vm_compute; reflexivity|]. vm_compute. reflexivity.
Qed.

(* whole numbers are needed too: 1 x5/2, 2 x2 ; N = 9/2, threshold 3 ; candidate 1 has a strict
   majority of the weight (5 > 9/2) and does not reach the threshold *)
Definition exq_p : profile positive := mkProfile [bal [1] (5 # 2)%Q; bal [2] 2%Q] [1; 2].

Example exq_needs_integral :
  wf_stv_profile positive exq_p /\ ~ integral_weights positive exq_p /\
  (total_wt positive (ballots exq_p) < 2 * tally positive Pos.eqb 1%positive (ballots exq_p))%Q /\
  stv_init positive (cfg_of true TFractional None) exq_p = inl 3%Q /\
  (tally positive Pos.eqb 1%positive (ballots exq_p) < 3)%Q.
Proof.
  split; [valid|]. split.
  { intros H. inversion H as [|b l Hb _]; subst. vm_compute in Hb. discriminate. }
  split; [vm_compute; reflexivity|]. split; vm_compute; reflexivity.
Qed.

End C07IrvExamples.

Print Assumptions C07IrvExamples.c07_irv_majority_random_refuted.
