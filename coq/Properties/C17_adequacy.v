(* Properties/C17_adequacy.v — C17, adequacy of the sequence laws for the executable run
   ([c17_run_adequacy]).  Statements only; proofs are in Proofs/C17_adequacy.v.

   The laws [law_rd_sequence] (Model/Laws.v) and [law_brd_sequence] / [law_brd_run]
   (Spec/BRDSpec.v) are recursions of their own, separate from [run_dictator] (Model/Rules.v).
   Here they are tied to the run, on the SUPPORT and, along the run, on the exact value:

     soundness     a successful run elects a sequence of winners that has positive probability
                   under the law, and that probability is the product of the per-seat closed forms
                   along the profiles the run goes through (ties in first place split evenly);
     completeness  every sequence of positive probability under the law is the sequence of
                   winners of the run on some script.

   The winners are read off the returned states with [all_elected] (Spec/STVSpec.v): the
   candidates of the [elected] field of every state, oldest first — one per seat, in order.

   Hypotheses on the profile: [ranked_profile] (Spec/RunSpec.v: duplicate-free candidate list,
   well-formed ranked ballots over it, no scores) and [nonneg_weights] (Spec/LawSpec.v).  The
   second cannot be dropped ([c17_run_adequacy_rd_negative_weight_refuted]): the run only asks
   the DRAWN ballot to have positive weight and the total to be positive, while in the law a
   negative-weight ballot cancels a positive one.  After the first seat every weight is positive
   (zero-weight ballots are dropped by remove_cand).

   BoostedRandomDictator.  With c >= 2 candidates, a positive total weight and the score list being
   the first-place tally of the current profile (always the case in a run: c17_brd_escores_run),
   the SUPPORT of the one-step law is exactly the candidates of POSITIVE tally
   ([c17_brd_step_support]), whereas the set the MODEL can reach by some script is every declared
   candidate ([c17_brd_step_reachable]): the squares branch of [brd_step] accepts any key of the
   score list as the answer of numpy.random.choice, including a key whose probability is 0.
   Hence soundness fails for arbitrary scripts ([c17_run_adequacy_brd_unrestricted_refuted]).
   This is an over-approximation of the model's script domain, NOT a behaviour of the library:
   numpy.random.choice(a, p=p) draws u in [0,1) and returns the first index whose cumulative
   probability exceeds u (cdf.searchsorted(u, side="right")), so an entry with p = 0 is never
   returned (boosted_random_dictator.py:79-85).  The corrected statement
   ([c17_run_adequacy_brd_sound]) assumes the script admissible ([admissible_between],
   Spec/RunLawSpec.v): every numpy.random.choice answer is a key of positive probability in the
   logged population and every random.uniform answer lies in [0,1).  Completeness produces an
   admissible script.

   Trusted, not proved: the laws of the primitives, as in Properties/C17.v. *)
From VK Require Import Base Core STV Rules Laws.
From VK.Spec Require Import ScoreSpec EditSpec STVSpec LawSpec RunSpec BRDSpec RunLawSpec.
From VK.Proofs Require Import Lib_sets Dist C17_laws C17_brd C17_adequacy.
From Coq Require Import Permutation Lia.

Section C17A.
Variable cand : Type.
Variable ceqb : cand -> cand -> bool.
Hypothesis ceqb_spec : forall a b, reflect (a = b) (ceqb a b).

Notation cset := (cset cand).
Notation ballot := (ballot cand).
Notation profile := (profile cand).
Notation scores := (scores cand).
Notation mstate := (mstate cand).
Notation estate := (estate cand).
Notation draw := (draw cand).
Notation call := (call cand).
Notation total_wt := (total_wt cand).
Notation choices_pop := (choices_pop cand).
Notation singletons := (singletons cand).
Notation law_pick := (law_pick cand).
Notation law_random_tiebreak := (law_random_tiebreak cand).
Notation law_brd_winner := (law_brd_winner cand).
Notation law_rd_sequence := (law_rd_sequence cand ceqb).
Notation law_brd_run := (law_brd_run cand ceqb).
Notation squares := (squares cand).
Notation lookup0 := (lookup0 cand ceqb).
Notation list_eqb := (list_eqb cand ceqb).
Notation nonneg_weights := (nonneg_weights cand).
Notation rd_path_prob := (rd_path_prob cand ceqb).
Notation brd_path_prob := (brd_path_prob cand ceqb).
Notation brd_path_ok := (brd_path_ok cand ceqb).
Notation ranked_profile := (ranked_profile cand).
Notation wf_profile := (wf_profile cand).
Notation first_place_votes := (first_place_votes cand ceqb).
Notation all_elected := (all_elected cand).
Notation elect_one := (elect_one cand ceqb).
Notation rd_step := (rd_step cand ceqb).
Notation brd_step := (brd_step cand ceqb).
Notation run_dictator := (run_dictator cand ceqb).
Notation admissible_between := (admissible_between cand).

(* ================================================================== *)
(** * R. RandomDictator *)

(* soundness: the m winners of a successful run, in order, have positive probability under the
   sequence law, and that probability is the product of the one-step closed forms
   (share of the current first-place weight, a tied first place split evenly) along the run *)
Theorem c17_run_adequacy_rd_sound : forall m (p : profile) (st st' : mstate) sts,
  ranked_profile p -> nonneg_weights p ->
  run_dictator false m p st = inl (sts, st') ->
  length (all_elected sts) = Z.to_nat m /\
  0 < prob (list_eqb (all_elected sts)) (law_rd_sequence (Z.to_nat m) p) /\
  prob (list_eqb (all_elected sts)) (law_rd_sequence (Z.to_nat m) p) ==
    rd_path_prob (all_elected sts) p.
Proof. exact (rd_run_sound cand ceqb ceqb_spec). Qed.

(* completeness: every sequence of positive probability for k >= 1 seats is elected by the run
   on some script, which the run consumes entirely (whatever the initial log l0) *)
Theorem c17_run_adequacy_rd_complete : forall k (p : profile) ws (l0 : list call),
  ranked_profile p -> nonneg_weights p -> (1 <= k)%nat ->
  0 < prob (list_eqb ws) (law_rd_sequence k p) ->
  exists (sc : list draw) sts (l1 : list call),
    run_dictator false (Z.of_nat k) p (mkM sc l0) = inl (sts, mkM [] l1) /\
    all_elected sts = ws.
Proof. exact (rd_run_complete cand ceqb ceqb_spec). Qed.

(* ties in first place: a positive-weight ballot whose first position s holds n >= 2 candidates.
   Answering random.choices with that ballot and random.sample with ANY order of s headed by c
   makes the step elect c (the tiebreak is recorded); under the law each order has probability
   1/n! and c gets the share 1/n of the ballot — (n-1)! of the n! orders elect it *)
Theorem c17_rd_tie_consistent : forall (p : profile) (b : ballot) (s : cset) r' c l,
  0 < total_wt (ballots p) -> In b (ballots p) -> 0 < wt b -> rk b = s :: r' ->
  NoDup s -> (2 <= length s)%nat -> Permutation (c :: l) s ->
  (forall (prev : estate) (rest : list draw) (l0 : list call),
     rd_step p prev (mkM (DRank (rk b) :: DPerm (c :: l) :: rest) l0) =
     elect_one c [(s, singletons (c :: l))] p prev
       (mkM rest (CSample s :: CChoices (choices_pop p) :: l0))) /\
  prob (ceqb c) (law_pick (rk b)) == 1 / Qnat (length s) /\
  prob (list_eqb (c :: l)) (law_random_tiebreak s) == 1 / Qnat (fact (length s)).
Proof. exact (rd_tie_consistent cand ceqb ceqb_spec). Qed.

(* ================================================================== *)
(** * B. BoostedRandomDictator *)

(* one step, c >= 2 candidates, positive total weight, d the first-place tally of the profile:
   the support of the law is exactly the candidates of positive tally ... *)
Theorem c17_brd_step_support : forall (p : profile) (d : scores) w,
  wf_profile p -> nonneg_weights p -> first_place_votes p = inl d ->
  (2 <= length (cands p))%nat -> 0 < total_wt (ballots p) ->
  (0 < prob (ceqb w) (law_brd_winner p d) <-> 0 < lookup0 w d).
Proof. exact (brd_step_support_iff cand ceqb ceqb_spec). Qed.

(* ... whereas some script makes the model's step elect w iff w is a declared candidate,
   whatever its tally (the squares branch accepts any key as the numpy answer) *)
Theorem c17_brd_step_reachable : forall (p : profile) (prev : estate) w,
  ranked_profile p -> first_place_votes p = inl (escores prev) ->
  (2 <= length (cands p))%nat -> 0 < total_wt (ballots p) ->
  ((exists (st st' : mstate) np e, brd_step p prev st = inl ((np, e), st') /\ elected e = [[w]])
   <-> In w (cands p)).
Proof. exact (brd_step_reach_iff cand ceqb ceqb_spec). Qed.

(* the very script: u <= 1/(c-1) then numpy answering w, for ANY declared w *)
Theorem c17_brd_step_squares_any : forall (p : profile) (prev : estate) w u (rest : list draw)
    (l0 : list call),
  ranked_profile p -> first_place_votes p = inl (escores prev) ->
  (2 <= length (cands p))%nat -> 0 < total_wt (ballots p) -> In w (cands p) ->
  Qle_bool u (1 / (Qnat (length (cands p)) - 1)) = true ->
  brd_step p prev (mkM (DUnit u :: DCand w :: rest) l0) =
  elect_one w [] p prev
    (mkM rest (CNpChoice (squares (escores prev) (total_wt (ballots p))) :: CUniform :: l0)).
Proof. exact (brd_step_squares_any cand ceqb ceqb_spec). Qed.

(* soundness.  For every successful run: m winners; the probability of their sequence under the
   law of the run is the product of the one-step closed forms along the run (every (profile,
   tally) met is in the domain of a step).  If moreover the script is admissible — numpy never
   answers an entry of probability 0, random.uniform answers in [0,1) — that probability is
   positive *)
Theorem c17_run_adequacy_brd_sound : forall m (p : profile) (st st' : mstate) sts,
  ranked_profile p -> nonneg_weights p ->
  run_dictator true m p st = inl (sts, st') ->
  length (all_elected sts) = Z.to_nat m /\
  (exists d, first_place_votes p = inl d /\ brd_path_ok (all_elected sts) p d /\
     prob (list_eqb (all_elected sts)) (law_brd_run (Z.to_nat m) p) ==
     brd_path_prob (all_elected sts) p d) /\
  (admissible_between st st' ->
   0 < prob (list_eqb (all_elected sts)) (law_brd_run (Z.to_nat m) p)).
Proof. exact (brd_run_sound cand ceqb ceqb_spec). Qed.

(* completeness: every sequence of positive probability for k >= 1 seats is elected by the run on
   some ADMISSIBLE script, consumed entirely *)
Theorem c17_run_adequacy_brd_complete : forall k (p : profile) ws (l0 : list call),
  ranked_profile p -> nonneg_weights p -> (1 <= k)%nat ->
  0 < prob (list_eqb ws) (law_brd_run k p) ->
  exists (sc : list draw) sts (l1 : list call),
    run_dictator true (Z.of_nat k) p (mkM sc l0) = inl (sts, mkM [] l1) /\
    all_elected sts = ws /\ admissible_between (mkM sc l0) (mkM [] l1).
Proof. exact (brd_run_complete cand ceqb ceqb_spec). Qed.

End C17A.

Print Assumptions c17_run_adequacy_rd_sound.
Print Assumptions c17_run_adequacy_rd_complete.
Print Assumptions c17_rd_tie_consistent.
Print Assumptions c17_brd_step_support.
Print Assumptions c17_brd_step_reachable.
Print Assumptions c17_brd_step_squares_any.
Print Assumptions c17_run_adequacy_brd_sound.
Print Assumptions c17_run_adequacy_brd_complete.

(* ================================================================== *)
(** * Non-vacuity and refutations: concrete inputs (cand := positive) *)
Module C17AdequacyExamples.
Open Scope positive_scope.

Definition B (r : list (list positive)) (w : Q) : ballot positive := mkBallot r w [] None None.
Definition probl (l : list positive) (d : dist (list positive)) : Q :=
  prob (list_eqb positive Pos.eqb l) d.
Definition states_of (x : res (list (estate positive) * mstate positive)) : list (estate positive) :=
  match x with inl (sts, _) => sts | inr _ => [] end.
Definition final_of (x : res (list (estate positive) * mstate positive)) : mstate positive :=
  match x with inl (_, s) => s | inr _ => mkM [] [] end.
Definition winners_of (x : res (list (estate positive) * mstate positive)) : list positive :=
  all_elected positive (states_of x).

Ltac nodup := repeat constructor; cbn; intuition discriminate.
Ltac conjs := repeat match goal with |- _ /\ _ => split end.
Ltac qdec := match goal with
  | |- _ == _ => apply Qeq_bool_eq; vm_compute; reflexivity
  | |- _ => vm_compute; reflexivity
  end.
Ltac groups_ok := repeat (constructor; try discriminate).
(* one (call, draw) pair of a concrete script is admissible *)
Ltac adm1 := cbn [RunLawSpec.draw_admissible];
  first [exact I
        | split; [apply Qle_bool_iff; reflexivity|reflexivity]
        | eexists; split; [left; reflexivity|reflexivity]
        | eexists; split; [right; left; reflexivity|reflexivity]].
Ltac wf_rk := split; [discriminate|split; [groups_ok|split; [nodup|intros x Hx; cbn in *; intuition]]].

(* three candidates, a TIE in first place on the first ballot, rational weights; total weight 4;
   first-place tallies (ties split): 1 -> 3/4, 2 -> 3/4 + 2 = 11/4, 3 -> 1/2 *)
Definition p3 : profile positive :=
  mkProfile [B [[1;2];[3]] (3#2); B [[2];[1];[3]] 2; B [[3];[1;2]] (1#2)] [1;2;3].

Example c17_ex_adq_hyps : ranked_profile positive p3 /\ nonneg_weights positive p3.
Proof.
  split; [split|].
  - split; [nodup|]. constructor; [wf_rk|]. constructor; [wf_rk|]. constructor; [wf_rk|]. constructor.
  - repeat constructor.
  - constructor; [discriminate|]. constructor; [discriminate|]. constructor; [discriminate|].
    constructor.
Qed.

(* (a) RandomDictator, m = 2.  The tied ballot is drawn and the tie broken in favour of 2; then,
   2 being removed and the two ballots [1;3] merged (weight 7/2), that ballot is drawn.
   Winners [2;1]; probability 11/16 * 7/8 = 77/128 = rd_path_prob; the other resolution of the
   tie gives [1;2] with probability 3/16 * 7/8 *)
Definition rd_script : mstate positive := mkM [DRank [[1;2];[3]]; DPerm [2;1]; DRank [[1];[3]]] [].
Definition rd_script' : mstate positive := mkM [DRank [[1;2];[3]]; DPerm [1;2]; DRank [[2];[3]]] [].

Example c17_ex_adq_rd_run :
  let run := run_dictator positive Pos.eqb false 2 p3 rd_script in
  let run' := run_dictator positive Pos.eqb false 2 p3 rd_script' in
  winners_of run = [2;1] /\ scr (final_of run) = [] /\
  probl [2;1] (law_rd_sequence positive Pos.eqb 2 p3) == 77 # 128 /\
  rd_path_prob positive Pos.eqb [2;1] p3 == (11 # 16) * (7 # 8) /\
  winners_of run' = [1;2] /\
  probl [1;2] (law_rd_sequence positive Pos.eqb 2 p3) == (3 # 16) * (7 # 8).
Proof. intros run run'. conjs; qdec. Qed.

(* the soundness theorem applies to that run ... *)
Example c17_ex_adq_rd_sound : forall sts st',
  run_dictator positive Pos.eqb false 2 p3 rd_script = inl (sts, st') ->
  (0 < probl (all_elected positive sts) (law_rd_sequence positive Pos.eqb 2 p3))%Q.
Proof.
  intros sts st' H.
  exact (proj1 (proj2 (c17_run_adequacy_rd_sound positive Pos.eqb Pos.eqb_spec 2 p3 _ _ sts
                         (proj1 c17_ex_adq_hyps) (proj2 c17_ex_adq_hyps) H))).
Qed.

(* ... and the completeness theorem to the sequence [2;1] *)
Example c17_ex_adq_rd_complete : exists sc sts l1,
  run_dictator positive Pos.eqb false 2 p3 (mkM sc []) = inl (sts, mkM [] l1) /\
  all_elected positive sts = [2;1].
Proof.
  apply (c17_run_adequacy_rd_complete positive Pos.eqb Pos.eqb_spec 2 p3 [2;1] []
           (proj1 c17_ex_adq_hyps) (proj2 c17_ex_adq_hyps)); [lia|].
  assert (E : probl [2;1] (law_rd_sequence positive Pos.eqb 2 p3) == 77 # 128) by qdec.
  unfold probl in E. rewrite E. reflexivity.
Qed.

(* the tie theorem on the first ballot of p3: both orders of {1,2} *)
Example c17_ex_adq_tie :
  (0 < total_wt positive (ballots p3))%Q /\ NoDup [1;2] /\ Permutation [2;1] [1;2] /\
  prob (Pos.eqb 2) (law_pick positive [[1;2];[3]]) == 1 # 2 /\
  prob (Pos.eqb 1) (law_pick positive [[1;2];[3]]) == 1 # 2 /\
  probl [2;1] (law_random_tiebreak positive [1;2]) == 1 # 2.
Proof.
  split; [reflexivity|]. split; [nodup|]. split; [apply perm_swap|]. conjs; qdec.
Qed.

(* (b) BoostedRandomDictator, m = 2, through the tie.  Three candidates: lambda = 1/2 and
   u = 3/4 > 1/2 is a RandomDictator draw (tied ballot, tie broken in favour of 2); then two
   candidates: lambda = 1, u = 1/2 <= 1, numpy answers 1 (tally 7/2 > 0).
   P(2 first) = 1/2 * 121/134 + 1/2 * 11/16 = 1705/2144, P(1 | 2) = 49/50 (pure squares) *)
Definition brd_script : mstate positive :=
  mkM [DUnit (3#4); DRank [[1;2];[3]]; DPerm [2;1]; DUnit (1#2); DCand 1] [].

Example c17_ex_adq_brd_run :
  let run := run_dictator positive Pos.eqb true 2 p3 brd_script in
  winners_of run = [2;1] /\ scr (final_of run) = [] /\
  probl [2;1] (law_brd_run positive Pos.eqb 2 p3) == (1705 # 2144) * (49 # 50).
Proof. intros run. conjs; qdec. Qed.

Example c17_ex_adq_brd_admissible :
  admissible_between positive brd_script
    (final_of (run_dictator positive Pos.eqb true 2 p3 brd_script)).
Proof.
  exists (scr brd_script),
         (rev (lg (final_of (run_dictator positive Pos.eqb true 2 p3 brd_script)))).
  split; [vm_compute; reflexivity|]. split; [vm_compute; reflexivity|].
  let cs := eval vm_compute in
    (rev (lg (final_of (run_dictator positive Pos.eqb true 2 p3 brd_script)))) in
  change (Forall2 (draw_admissible positive) cs (scr brd_script)).
  unfold brd_script. cbn [scr]. repeat (constructor; [adm1|]). constructor.
Qed.

Example c17_ex_adq_brd_sound : forall sts st',
  run_dictator positive Pos.eqb true 2 p3 brd_script = inl (sts, st') ->
  (0 < probl (all_elected positive sts) (law_brd_run positive Pos.eqb 2 p3))%Q.
Proof.
  intros sts st' H.
  destruct (c17_run_adequacy_brd_sound positive Pos.eqb Pos.eqb_spec 2 p3 _ _ sts
              (proj1 c17_ex_adq_hyps) (proj2 c17_ex_adq_hyps) H) as (_ & _ & Hpos).
  apply Hpos. pose proof c17_ex_adq_brd_admissible as A. rewrite H in A. exact A.
Qed.

Example c17_ex_adq_brd_complete : exists sc sts l1,
  run_dictator positive Pos.eqb true 2 p3 (mkM sc []) = inl (sts, mkM [] l1) /\
  all_elected positive sts = [2;1] /\ admissible_between positive (mkM sc []) (mkM [] l1).
Proof.
  apply (c17_run_adequacy_brd_complete positive Pos.eqb Pos.eqb_spec 2 p3 [2;1] []
           (proj1 c17_ex_adq_hyps) (proj2 c17_ex_adq_hyps)); [lia|].
  assert (E : probl [2;1] (law_brd_run positive Pos.eqb 2 p3) == (1705 # 2144) * (49 # 50)) by qdec.
  unfold probl in E. rewrite E. reflexivity.
Qed.

(* (c) REFUTED for arbitrary scripts: "a successful Boosted run elects a sequence of positive
   probability".  Two candidates, one ballot [1;2]: tallies 1 -> 1, 2 -> 0.  The script answers
   numpy.random.choice with 2, whose probability in the logged population is 0; the model elects
   2, which has probability 0 under the law (and 1 has probability 1).  numpy cannot return 2
   here: the script is not admissible — the statement fails in the model only *)
Definition p_zero : profile positive := mkProfile [B [[1];[2]] 1] [1;2].
Definition zero_script : mstate positive := mkM [DUnit 0; DCand 2] [].

Theorem c17_run_adequacy_brd_unrestricted_refuted :
  exists (p : profile positive) (m : Z) (st st' : mstate positive) sts,
    ranked_profile positive p /\ Forall (fun b => (0 < wt b)%Q) (ballots p) /\
    run_dictator positive Pos.eqb true m p st = inl (sts, st') /\
    all_elected positive sts = [2] /\
    probl [2] (law_brd_run positive Pos.eqb (Z.to_nat m) p) == 0 /\
    probl [1] (law_brd_run positive Pos.eqb (Z.to_nat m) p) == 1 /\
    (exists pop, lg st' = [CNpChoice pop; CUniform] /\ lookup0 positive Pos.eqb 2 pop == 0) /\
    ~ admissible_between positive st st'.
Proof.
  exists p_zero, 1%Z, zero_script,
         (final_of (run_dictator positive Pos.eqb true 1 p_zero zero_script)),
         (states_of (run_dictator positive Pos.eqb true 1 p_zero zero_script)).
  split; [split; [split; [nodup|constructor; [wf_rk|constructor]]|repeat constructor]|].
  split; [repeat constructor|]. split; [vm_compute; reflexivity|]. split; [vm_compute; reflexivity|].
  split; [qdec|]. split; [qdec|]. split.
  - eexists. split; [vm_compute; reflexivity|qdec].
  - intros (ds & cs & Hs & Hl & Hadm).
    let x := eval vm_compute in (final_of (run_dictator positive Pos.eqb true 1 p_zero zero_script)) in
    change (final_of (run_dictator positive Pos.eqb true 1 p_zero zero_script)) with x in Hs, Hl.
    unfold zero_script in Hs, Hl. cbn [scr lg] in Hs, Hl.
    rewrite app_nil_r in Hs, Hl. subst ds.
    assert (Hcs : cs = rev (rev cs)) by (symmetry; apply rev_involutive).
    rewrite <- Hl in Hcs. cbn [rev app] in Hcs. subst cs.
    inversion Hadm as [|c1 d1 lc ld _ Hadm2]; subst.
    inversion Hadm2 as [|c2 d2 lc2 ld2 Hnp _]; subst.
    destruct Hnp as (q & Hin & Hq).
    destruct Hin as [E|[E|[]]]; [discriminate E|]. injection E as <-.
    revert Hq. vm_compute. discriminate.
Qed.
Print Assumptions c17_run_adequacy_brd_unrestricted_refuted.

(* (d) REFUTED without non-negative weights: RandomDictator.  Total weight 1 > 0; the ballot
   [1;2] (weight 1) is drawn, the model elects 1; but in the law the ballot [1] of weight -1
   cancels it: P(1) = 0 *)
Definition p_neg : profile positive :=
  mkProfile [B [[1];[2]] 1; B [[1]] (-1); B [[2]] 1] [1;2].

Theorem c17_run_adequacy_rd_negative_weight_refuted :
  exists (p : profile positive) (m : Z) (st st' : mstate positive) sts,
    ranked_profile positive p /\ (0 < total_wt positive (ballots p))%Q /\
    run_dictator positive Pos.eqb false m p st = inl (sts, st') /\
    all_elected positive sts = [1] /\
    probl [1] (law_rd_sequence positive Pos.eqb (Z.to_nat m) p) == 0.
Proof.
  exists p_neg, 1%Z, (mkM [DRank [[1];[2]]] []),
         (final_of (run_dictator positive Pos.eqb false 1 p_neg (mkM [DRank [[1];[2]]] []))),
         (states_of (run_dictator positive Pos.eqb false 1 p_neg (mkM [DRank [[1];[2]]] []))).
  split.
  - split; [split; [nodup|]|repeat constructor].
    constructor; [wf_rk|]. constructor; [wf_rk|]. constructor; [wf_rk|]. constructor.
  - split; [reflexivity|]. split; [vm_compute; reflexivity|]. split; [vm_compute; reflexivity|qdec].
Qed.
Print Assumptions c17_run_adequacy_rd_negative_weight_refuted.

End C17AdequacyExamples.
