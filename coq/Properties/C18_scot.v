(* Properties/C18_scot.v — load_scottish: the complete outcome analysis (property C18, Scottish half).
   Statements only; proofs are in Proofs/C18_scot.v; vocabulary in Spec/ScotOutcomeSpec.v and
   Spec/LoaderSpec.v.

   INPUT DOMAIN.  The model (Model/Loaders.v, load_scottish) starts from the rows csv.reader produced:
   [raw : list (list tok)], TEmpty = the empty string, TNum z = a field made of digits (convert_row),
   TStr s w = any other field, w telling whether it contains the word "Candidate".  The differential
   harness (harness/props/C18.py, op 71) hands the model exactly these rows, and does NOT hand it the
   missing-file / zero-byte-file cases, which the implementation rejects before any row exists.
   [scot_clean raw] is the implementation's list [data] (empty strings, then empty rows, dropped).

   THE "EMPTY DATA" BOUNDARY (c18_scot_empty_precise), file level vs model level
   (cvr_loaders.py:115-136, each line checked by running the implementation):
     * zero-byte file          -> os.path.getsize = 0 -> EmptyDataError.  csv.reader yields no row, i.e.
                                  raw = [].  This is the ONLY file with raw = [] (csv.reader yields at
                                  least one row, possibly [], for any non-empty file) and it lies
                                  outside the model's domain: the model has no EEmptyData outcome at
                                  all for this loader and answers EIndex on raw = [].
     * only blank rows ("\n", ",,\n\n,\n")  -> file is not empty, data = [] -> data[0] raises
                                  IndexError, NOT EmptyDataError, although the docstring promises
                                  "EmptyDataError: If dataset is empty".  Model: scot_clean raw = []
                                  <-> every row of raw holds only empty strings, and then EIndex.  So the
                                  clause "scot_clean raw = [] -> EIndex" of c18_scottish_errors is the
                                  implementation's behaviour for every NON-empty file without data.
     * metadata row only ("0,3\n")          -> success: no ballots, no candidates, seats = 3 and the
                                  "ward" is data[-1][0] = 0.  ("2,3\n": the declared count 2 differs from
                                  the 0 candidate rows -> DataError; "2\n": DataError.)

   ORDER OF THE CHECKS, hence the priority among errors:
     (0) no data                                   -> IndexError (EIndex)
     (1) metadata row not of length 2, then candidate count not a number, then count different from
         the number of rows whose first field contains "Candidate"          -> DataError (EData)
     (2) the candidate block data[len-(k+1):-1] is read row by row; its FIRST bad row decides:
           first field a number  -> TypeError (EType)     ["Candidate" in <int>]
           first field a string without the word -> DataError (EData)
           word present but fewer than three fields -> IndexError (EIndex)
           numeric candidate name -> outside the modelled domain (EOther; the implementation goes on
                                     and pydantic rejects the profile)
     (3) only if the whole candidate block is accepted, the ballot rows data[1:len-(k+1)] are read; the
         FIRST bad row decides:
           first field not a number -> ValueError (EValue)   [Fraction("...")]
           an entry that is not a number in 1..k -> KeyError (EKey)
     (4) otherwise success.
   A file truncated before the ward row therefore gives EType, not EIndex: the last candidate row is
   taken for the ward and the block slides one row up, onto a ballot row or the metadata row. *)
From VK Require Import Base Core Loaders.
From VK.Spec Require Import LoaderSpec ScotOutcomeSpec.
From VK.Proofs Require Import C18_scot.
From Coq Require Import Lia.

#[local] Arguments TEmpty {cand}.
#[local] Arguments TNum {cand}.
#[local] Arguments TStr {cand}.

Section C18_scot.
Variable cand : Type.
Variable ceqb : cand -> cand -> bool.
Hypothesis ceqb_spec : forall a b, reflect (a = b) (ceqb a b).

Notation tok := (tok cand).
Notation load_scottish := (load_scottish cand ceqb).
Notation scot_clean := (scot_clean cand).
Notation scot_all_blank := (scot_all_blank cand).
Notation scot_header_ok := (scot_header_ok cand).
Notation scot_header_bad := (scot_header_bad cand).
Notation scot_cand_lines := (scot_cand_lines cand).
Notation scot_ballot_lines := (scot_ballot_lines cand).
Notation cline_ok := (cline_ok cand).
Notation cline_etype := (cline_etype cand).
Notation cline_edata := (cline_edata cand).
Notation cline_eindex := (cline_eindex cand).
Notation cline_eother := (cline_eother cand).
Notation bline_ok := (bline_ok cand).
Notation bline_evalue := (bline_evalue cand).
Notation bline_ekey := (bline_ekey cand).
Notation scot_cand_fail := (scot_cand_fail cand).
Notation scot_ballot_fail := (scot_ballot_fail cand).
Notation scot_all_ok := (scot_all_ok cand).
Notation scot_value := (scot_value cand ceqb).

(* ---------- 1. the "empty data" boundary over the model's input domain ---------- *)

(* the model never answers EEmptyData; "no data" means: every row holds only empty strings (this
   includes raw = []), and gives EIndex; a lone metadata row is a success exactly when it is [0; seats] *)
Theorem c18_scot_empty_precise : forall raw,
  load_scottish raw <> inr EEmptyData /\
  (scot_clean raw = [] <-> scot_all_blank raw) /\
  (scot_all_blank raw -> load_scottish raw = inr EIndex) /\
  (forall first, scot_clean raw = [first] ->
     (forall seats, first = [TNum 0; seats] ->
        load_scottish raw = inl (mkScot cand (mkProfile [] []) seats [] [] (TNum 0))) /\
     ((forall seats, first <> [TNum 0; seats]) -> load_scottish raw = inr EData)).
Proof. exact (scot_empty_precise cand ceqb ceqb_spec). Qed.

(* ---------- 2. what the two Python slices are, once the metadata row is accepted ---------- *)

(* data = pre ++ cl ++ [w]: cl, the candidate block, has exactly k rows, w is the ward row, and the
   ballot rows are pre without the metadata row (pre = [] when k = len-1: the block then swallows the
   metadata row, which is an EType) *)
Theorem c18_scot_layout : forall data k seats, scot_header_ok data k seats ->
  exists pre cl w, data = pre ++ cl ++ [w] /\ Z.of_nat (length cl) = k /\
                   scot_cand_lines data k = cl /\ scot_ballot_lines data k = tl pre.
Proof. exact (scot_layout cand). Qed.

(* ---------- 3. success ---------- *)

Theorem c18_scot_success_iff : forall raw s,
  load_scottish raw = inl s <->
  exists k seats, scot_all_ok (scot_clean raw) k seats /\ s = scot_value (scot_clean raw) k seats.
Proof. exact (scot_success_iff cand ceqb ceqb_spec). Qed.

(* the well-formed Scottish tables of c18_scottish (Properties/C18.v) are instances *)
Theorem c18_scot_wf_is_success : forall raw k seats bal cs ward wrest,
  wf_scot cand raw k seats bal cs ward wrest ->
  exists s k' seats', scot_all_ok (scot_clean raw) k' seats' /\ s = scot_value (scot_clean raw) k' seats'.
Proof.
  intros raw k seats bal cs ward wrest H.
  destruct (scot_wf_all_ok cand ceqb ceqb_spec raw k seats bal cs ward wrest H) as (s & Hs).
  exists s. exact Hs.
Qed.

(* ---------- 4. each error, exactly ---------- *)

(* DataError: bad metadata row (checked first, whatever else is wrong), or, metadata accepted, the
   first bad row of the candidate block starts with a string lacking the word "Candidate" *)
Theorem c18_scot_edata_iff : forall raw,
  load_scottish raw = inr EData <->
  scot_header_bad (scot_clean raw) \/ scot_cand_fail cline_edata (scot_clean raw).
Proof. exact (scot_edata_iff cand ceqb ceqb_spec). Qed.

(* IndexError: no data at all, or the first bad row of the candidate block has the word but lacks
   the name or the party field *)
Theorem c18_scot_eindex_iff : forall raw,
  load_scottish raw = inr EIndex <->
  scot_all_blank raw \/ scot_cand_fail cline_eindex (scot_clean raw).
Proof. exact (scot_eindex_iff cand ceqb ceqb_spec). Qed.

(* TypeError: the first bad row of the candidate block starts with a number *)
Theorem c18_scot_etype_iff : forall raw,
  load_scottish raw = inr EType <-> scot_cand_fail cline_etype (scot_clean raw).
Proof. exact (scot_etype_iff cand ceqb ceqb_spec). Qed.

(* out of the modelled domain: the first bad row of the candidate block has a numeric name *)
Theorem c18_scot_eother_iff : forall raw,
  load_scottish raw = inr EOther <-> scot_cand_fail cline_eother (scot_clean raw).
Proof. exact (scot_eother_iff cand ceqb ceqb_spec). Qed.

(* ValueError: candidate block accepted, and the first bad ballot row starts with a non-number *)
Theorem c18_scot_evalue_iff : forall raw,
  load_scottish raw = inr EValue <-> scot_ballot_fail (fun _ => bline_evalue) (scot_clean raw).
Proof. exact (scot_evalue_iff cand ceqb ceqb_spec). Qed.

(* KeyError: candidate block accepted, and the first bad ballot row has a numeric weight and an
   entry that is not a number in 1..k *)
Theorem c18_scot_ekey_iff : forall raw,
  load_scottish raw = inr EKey <-> scot_ballot_fail bline_ekey (scot_clean raw).
Proof. exact (scot_ekey_iff cand ceqb ceqb_spec). Qed.

(* no other error kind is ever returned *)
Theorem c18_scot_errors_only : forall raw e, load_scottish raw = inr e ->
  e = EIndex \/ e = EData \/ e = EType \/ e = EOther \/ e = EValue \/ e = EKey.
Proof. exact (scot_errors_only cand ceqb ceqb_spec). Qed.

(* ---------- 5. the case analysis is complete and exclusive ---------- *)

(* for every input exactly one of the seven conditions (success, then the six errors) holds *)
Theorem c18_scot_outcome_total : forall raw,
  exactly_one
    [ (exists s k seats, scot_all_ok (scot_clean raw) k seats /\ s = scot_value (scot_clean raw) k seats);
      (scot_all_blank raw \/ scot_cand_fail cline_eindex (scot_clean raw));
      (scot_header_bad (scot_clean raw) \/ scot_cand_fail cline_edata (scot_clean raw));
      scot_cand_fail cline_etype (scot_clean raw);
      scot_cand_fail cline_eother (scot_clean raw);
      scot_ballot_fail (fun _ => bline_evalue) (scot_clean raw);
      scot_ballot_fail bline_ekey (scot_clean raw) ].
Proof. exact (scot_outcome_total cand ceqb ceqb_spec). Qed.

End C18_scot.

Print Assumptions c18_scot_empty_precise.
Print Assumptions c18_scot_layout.
Print Assumptions c18_scot_success_iff.
Print Assumptions c18_scot_wf_is_success.
Print Assumptions c18_scot_edata_iff.
Print Assumptions c18_scot_eindex_iff.
Print Assumptions c18_scot_etype_iff.
Print Assumptions c18_scot_eother_iff.
Print Assumptions c18_scot_evalue_iff.
Print Assumptions c18_scot_ekey_iff.
Print Assumptions c18_scot_errors_only.
Print Assumptions c18_scot_outcome_total.

(* ---------- non-vacuity: one concrete input per path (cand := positive) ---------- *)
Section Examples.
Local Open Scope positive_scope.
Let T := tok positive.
Let load := Loaders.load_scottish positive Pos.eqb.

Let c1 : list T := [TStr 10 true; TStr 1 false; TStr 20 false].     (* Candidate 1, A, P *)
Let c2 : list T := [TStr 11 true; TStr 2 false; TStr 21 false].     (* Candidate 2, B, Q *)
Let ward : list T := [TStr 30 false].

(* success: blank rows and trailing empty strings are ignored *)
Example c18_scot_ex_success :
  exists s, load [[TNum 2; TNum 1; TEmpty]; []; [TNum 3; TNum 1; TNum 2]; [TEmpty]; [TNum 2; TNum 2]; c1; c2; ward]
            = inl s /\
    sc_cands positive s = [1; 2] /\ sc_seats positive s = TNum 1 /\ sc_ward positive s = TStr 30 false /\
    map rk (ballots (sc_profile positive s)) = [[[1];[2]]; [[2]]].
Proof. eexists. split; [vm_compute; reflexivity|]. repeat split. Qed.

(* its success condition, exhibited directly *)
Example c18_scot_ex_all_ok :
  ScotOutcomeSpec.scot_all_ok positive
    (LoaderSpec.scot_clean positive [[TNum 2; TNum 1; TEmpty]; []; [TNum 3; TNum 1; TNum 2]; c1; c2; ward])
    2 (TNum 1).
Proof.
  replace (LoaderSpec.scot_clean positive _)
    with [[TNum 2; TNum 1]; [TNum 3; TNum 1; TNum 2]; c1; c2; ward] by (vm_compute; reflexivity).
  split; [split; [eexists; reflexivity|reflexivity]|].
  split.
  - replace (ScotOutcomeSpec.scot_cand_lines positive _ _) with [c1; c2] by (vm_compute; reflexivity).
    repeat constructor; do 5 eexists; reflexivity.
  - replace (ScotOutcomeSpec.scot_ballot_lines positive _ _) with [[TNum 3; TNum 1; TNum 2 : T]]
      by (vm_compute; reflexivity).
    repeat constructor. exists 3%Z, [TNum 1%Z; TNum 2%Z]. split; [reflexivity|].
    repeat constructor; eexists; (split; [reflexivity|lia]).
Qed.

(* the empty boundary *)
Example c18_scot_ex_no_data :
  load [] = inr EIndex /\ load [[]] = inr EIndex /\ load [[TEmpty; TEmpty]; []; [TEmpty]] = inr EIndex /\
  ScotOutcomeSpec.scot_all_blank positive [[TEmpty; TEmpty]; []; [TEmpty : T]].
Proof. repeat split; try (vm_compute; reflexivity). repeat constructor. Qed.

Example c18_scot_ex_header_only :
  load [[TNum 0; TNum 3]] = inl (mkScot positive (mkProfile [] []) (TNum 3) [] [] (TNum 0)) /\
  load [[TNum 2; TNum 3]] = inr EData /\ load [[TNum 2]] = inr EData.
Proof. repeat split; vm_compute; reflexivity. Qed.

(* EData: three-field metadata row; non-numeric count; wrong count (here the ward row carries the
   word); a row of the candidate block without the word *)
Example c18_scot_ex_edata :
  load [[TNum 2; TNum 1; TNum 7]; [TNum 3; TNum 1]; c1; c2; ward] = inr EData /\
  load [[TStr 5 false; TNum 1]; [TNum 3; TNum 1]; c1; c2; ward] = inr EData /\
  load [[TNum 2; TNum 1]; [TNum 3; TNum 1]; c1; c2; [TStr 30 true]] = inr EData /\
  load [[TNum 2; TNum 1]; [TNum 3; TNum 1]; c1; [TStr 40 false]; c2; ward] = inr EData.
Proof. repeat split; vm_compute; reflexivity. Qed.

(* EType: the file stops before the ward row, so the block slides onto a ballot row *)
Example c18_scot_ex_etype :
  load [[TNum 2; TNum 1]; [TNum 3; TNum 1; TNum 2]; c1; c2] = inr EType.
Proof. vm_compute. reflexivity. Qed.

(* EIndex: a candidate row without its party field *)
Example c18_scot_ex_eindex :
  load [[TNum 2; TNum 1]; [TNum 3; TNum 1; TNum 2]; [TStr 10 true; TStr 1 false]; c2; ward] = inr EIndex.
Proof. vm_compute. reflexivity. Qed.

(* EOther: numeric candidate name *)
Example c18_scot_ex_eother :
  load [[TNum 1; TNum 1]; [TNum 3; TNum 1]; [TStr 10 true; TNum 7; TStr 20 false]; ward] = inr EOther.
Proof. vm_compute. reflexivity. Qed.

(* EKey: entry above the declared count; entry 0; non-numeric entry *)
Example c18_scot_ex_ekey :
  load [[TNum 2; TNum 1]; [TNum 3; TNum 1; TNum 5]; c1; c2; ward] = inr EKey /\
  load [[TNum 2; TNum 1]; [TNum 3; TNum 1; TNum 0]; c1; c2; ward] = inr EKey /\
  load [[TNum 2; TNum 1]; [TNum 3; TNum 1; TStr 50 false]; c1; c2; ward] = inr EKey.
Proof. repeat split; vm_compute; reflexivity. Qed.

(* EValue: non-numeric weight *)
Example c18_scot_ex_evalue :
  load [[TNum 2; TNum 1]; [TStr 50 false; TNum 1; TNum 2]; c1; c2; ward] = inr EValue.
Proof. vm_compute. reflexivity. Qed.

(* priorities: bad metadata beats everything; the candidate block is read before the ballots
   (EIndex beats the EKey / EValue of earlier ballot rows); inside a block the first bad row wins *)
Example c18_scot_ex_priority :
  load [[TNum 2; TNum 1; TNum 7]; [TStr 50 false; TNum 9]; [TStr 10 true]; c2; ward] = inr EData /\
  load [[TNum 2; TNum 1]; [TStr 50 false; TNum 9]; [TNum 3; TNum 9]; [TStr 10 true]; c2; ward] = inr EIndex /\
  load [[TNum 2; TNum 1]; [TNum 3; TNum 9]; [TStr 50 false; TNum 1]; c1; c2; ward] = inr EKey /\
  load [[TNum 2; TNum 1]; [TStr 50 false; TNum 1]; [TNum 3; TNum 9]; c1; c2; ward] = inr EValue.
Proof. repeat split; vm_compute; reflexivity. Qed.

(* a failure condition exhibited directly: metadata accepted, first candidate row fine, second short *)
Example c18_scot_ex_cand_fail :
  ScotOutcomeSpec.scot_cand_fail positive (ScotOutcomeSpec.cline_eindex positive)
    (LoaderSpec.scot_clean positive [[TNum 2; TNum 1]; [TNum 3; TNum 1]; c1; [TStr 11 true; TStr 2 false]; ward]).
Proof.
  replace (LoaderSpec.scot_clean positive _)
    with [[TNum 2; TNum 1]; [TNum 3; TNum 1]; c1; [TStr 11 true; TStr 2 false]; ward] by (vm_compute; reflexivity).
  exists 2%Z, (TNum 1%Z). split; [split; [eexists; reflexivity|reflexivity]|].
  replace (ScotOutcomeSpec.scot_cand_lines positive _ _) with [c1; [TStr 11 true; TStr 2 false : T]]
    by (vm_compute; reflexivity).
  exists [c1], [TStr 11 true; TStr 2 false], []. split; [reflexivity|]. split.
  - repeat constructor. do 5 eexists. reflexivity.
  - exists 11. right. eexists. reflexivity.
Qed.

End Examples.
