(* Properties/C04_rules.v — C04 at the level of the finished election ([run_rule]): Plurality / SNTV
   and Borda elect m candidates none of whom has a lower score than any non-elected candidate, in
   descending score order, with candidates of equal score reported as tied (unless the recorded
   tiebreak split their group).  Statements only; proofs are in Proofs/C04_rules.v.

   Vocabulary (Spec/OneShotSpec.v):
     fpv_score p c            weight / |first position| summed over the ballots listing c first
     positional_score p v c   weight-summed [ballot_alloc] (Spec/ScoreSpec.v) for the vector v
     top_m_by f cs m r0 el rem tbs
                              el / rem / tbs are a top-m outcome for the scores f over the
                              candidates cs, r0 being the round-0 ranking (the conclusion of
                              Properties/C05.v [c05_top_m] with the total replaced by f)
   and [top_m_facts] (Spec/TopMSpec.v, the conclusion of [c04_top_m]), [one_shot_params], [big],
   [rebuild] (Spec/TieSpec.v). *)
From VK Require Import Base Core STV Pairwise Rules PV Election.
From VK.Spec Require Import ScoreSpec TopMSpec TieSpec OneShotSpec.
From VK.Proofs Require Import C04_rules.
From Coq Require Import Permutation.

Section C04.
Variable cand : Type.
Variable ceqb : cand -> cand -> bool.
Hypothesis ceqb_spec : forall a b, reflect (a = b) (ceqb a b).

Notation profile := (profile cand).
Notation estate := (estate cand).
Notation mstate := (mstate cand).
Notation flat := (flat cand).
Notation singletons := (singletons cand).
Notation memb := (memb cand ceqb).
Notation wf_profile := (wf_profile cand).
Notation first_place_votes := (first_place_votes cand ceqb).
Notation borda_scores := (borda_scores cand ceqb).
Notation score_rankings := (score_rankings cand ceqb).
Notation score_to_ranking := (score_to_ranking cand).
Notation remove_cand_prof := (remove_cand_prof cand ceqb).
Notation score_fn := (score_fn cand ceqb).
Notation run_rule := (run_rule cand ceqb).
Notation run_wrule := (run_wrule cand ceqb).
Notation one_shot_params := (one_shot_params cand).
Notation top_m_facts := (top_m_facts cand).
Notation top_m_by := (top_m_by cand).
Notation fpv_score := (fpv_score cand ceqb).
Notation positional_score := (positional_score cand ceqb).
Notation big := (big cand).
Notation rebuild := (rebuild cand).

(* Plurality on a well-formed ranked profile, whenever it returns (any tiebreak option, any random
   script): two rounds; the round-0 scores are the first-place votes of the profile, one per
   candidate, each equal to its definition [fpv_score]; the round-0 ranking is these scores sorted;
   1 <= m <= n; round 1 elects exactly m candidates, none with a lower score than a remaining one,
   groups in descending score order with equal scores grouped unless the one recorded tiebreak split
   their group ([top_m_by]); the round-1 scores are the first-place votes of the profile with the
   winners removed *)
Theorem c04_plurality_top_m : forall m tb (p : profile) (s : mstate) sts s',
  wf_profile p -> run_rule (RPlurality m tb) p s = inl (sts, s') ->
  exists s0 s1, sts = [s0; s1] /\
    first_place_votes p = inl (escores s0) /\
    map fst (escores s0) = cands p /\
    (forall c q, In (c, q) (escores s0) -> q == fpv_score p c) /\
    rnd s0 = 0%Z /\ elected s0 = [[]] /\ eliminated s0 = [[]] /\ tiebreaks s0 = [] /\
    remaining s0 = score_to_ranking (escores s0) true /\
    rnd s1 = 1%Z /\ eliminated s1 = [[]] /\
    (1 <= m <= Z.of_nat (length (cands p)))%Z /\
    top_m_by (fpv_score p) (cands p) m (remaining s0) (elected s1) (remaining s1) (tiebreaks s1) /\
    (exists np, remove_cand_prof (flat (elected s1)) true false p = inl np /\
                first_place_votes np = inl (escores s1)).
Proof. exact (plurality_top_m cand ceqb ceqb_spec). Qed.

(* SNTV is Plurality *)
Theorem c04_sntv_is_plurality : forall m tb (p : profile),
  run_wrule (WSNTV m tb) p = run_rule (RPlurality m tb) p /\
  expand (WSNTV m tb) = Some (RPlurality m tb).
Proof. exact (sntv_is_plurality cand ceqb). Qed.

(* Borda with the score vector vec (the given one, or n, n-1, ..., 1): the same, the scores being
   the positional scores [positional_score p vec]; a successful run implies the vector is valid *)
Theorem c04_borda_top_m : forall m v tb (p : profile) (s : mstate) sts s',
  wf_profile p -> run_rule (RBorda m v tb) p s = inl (sts, s') ->
  let vec := match v with Some (x :: l) => x :: l | _ => default_borda cand p end in
  exists s0 s1, sts = [s0; s1] /\
    valid_vector vec /\
    score_rankings p vec = inl (escores s0) /\
    map fst (escores s0) = cands p /\
    (forall c q, In (c, q) (escores s0) -> q == positional_score p vec c) /\
    rnd s0 = 0%Z /\ elected s0 = [[]] /\ eliminated s0 = [[]] /\ tiebreaks s0 = [] /\
    remaining s0 = score_to_ranking (escores s0) true /\
    rnd s1 = 1%Z /\ eliminated s1 = [[]] /\
    (1 <= m <= Z.of_nat (length (cands p)))%Z /\
    top_m_by (positional_score p vec) (cands p) m (remaining s0) (elected s1) (remaining s1)
             (tiebreaks s1) /\
    (exists np, remove_cand_prof (flat (elected s1)) true false p = inl np /\
                score_rankings np vec = inl (escores s1)).
Proof. exact (borda_top_m cand ceqb ceqb_spec). Qed.

(* every one-shot rule (Plurality / SNTV, Borda, GeneralRating, Limited, BlocPlurality) on ANY
   profile with distinct candidates, in terms of the score list d its scoring function returned:
   the outcome satisfies, verbatim, the conclusion of [c04_top_m] for d *)
Theorem c04_one_shot_top_m : forall r (p : profile) k m tb (s : mstate) sts s',
  one_shot_params r p = Some (k, m, tb) -> NoDup (cands p) ->
  run_rule r p s = inl (sts, s') ->
  exists d s0 s1, sts = [s0; s1] /\
    score_fn k p = inl d /\ map fst d = cands p /\
    rnd s0 = 0%Z /\ elected s0 = [[]] /\ eliminated s0 = [[]] /\ tiebreaks s0 = [] /\
    escores s0 = d /\ remaining s0 = score_to_ranking d true /\
    rnd s1 = 1%Z /\ eliminated s1 = [[]] /\
    (1 <= m <= Z.of_nat (length (cands p)))%Z /\
    (exists tbi, tiebreaks s1 = match tbi with Some x => [x] | None => [] end /\
                 top_m_facts d m (elected s1) (remaining s1) tbi) /\
    (exists np, remove_cand_prof (flat (elected s1)) true false p = inl np /\
                score_fn k np = inl (escores s1)).
Proof. exact (one_shot_rule_top_m cand ceqb ceqb_spec). Qed.

(* the "linear order of one whole group" of [c04_top_m], for a first_place / borda tiebreak: the
   recorded order l of the split group g never puts a candidate before one with a strictly higher
   first-place / Borda score of the profile; with r2 the ranking of g by that score, random draws
   were made only for the groups of r2 with two or more members (candidates still tied on it), one
   draw each, and t is r2 with those groups replaced by the drawn orders *)
Theorem c04_scored_tiebreak_order : forall r (p : profile) k m kind (s s' : mstate) s0 s1 g t,
  NoDup (cands p) -> one_shot_params r p = Some (k, m, Some kind) ->
  kind = TBFirstPlace \/ kind = TBBorda ->
  run_rule r p s = inl ([s0; s1], s') -> In (g, t) (tiebreaks s1) ->
  exists dtb l,
    match kind with TBBorda => borda_scores p | _ => first_place_votes p end = inl dtb /\
    In g (remaining s0) /\ t = singletons l /\ Permutation l g /\ NoDup l /\
    (forall pre a mid b post qa qb, l = pre ++ a :: mid ++ b :: post ->
       In (a, qa) dtb -> In (b, qb) dtb -> qb <= qa) /\
    let r2 := score_to_ranking (filter (fun q => memb (fst q) g) dtb) true in
    exists ls : list (list cand),
      scr s = map DPerm ls ++ scr s' /\
      lg s' = rev (map CSample (filter big r2)) ++ lg s /\
      Forall2 (fun l0 sg => Permutation l0 sg /\ NoDup l0) ls (filter big r2) /\
      t = rebuild r2 ls.
Proof. exact (one_shot_scored_tiebreak cand ceqb ceqb_spec). Qed.

End C04.

Print Assumptions c04_plurality_top_m.
Print Assumptions c04_sntv_is_plurality.
Print Assumptions c04_borda_top_m.
Print Assumptions c04_one_shot_top_m.
Print Assumptions c04_scored_tiebreak_order.

(* ------------------------------------------------------------------ *)
(* Non-vacuity (cand := positive): tied positions, a bullet vote, rational weights, a zero-vote
   candidate. *)

Definition B (r : Core.ranking positive) (w : Q) := plain_ballot positive r w.
Definition ex_p : Core.profile positive :=
  mkProfile [B [[1;2];[3]]%positive (3#2); B [[3]]%positive 2; B [[2];[1];[4];[3]]%positive 1;
             B [[2;1];[3]]%positive (1#2); B [[4;1;2]]%positive 1] [1;2;3;4;5]%positive.
Definition st0 : Core.mstate positive := mkM [] [].

Ltac ex_nodup := repeat (constructor; [cbn; intuition discriminate|]); constructor.
Ltac ex_incl := let x := fresh "x" in let Hx := fresh "Hx" in
  intros x Hx; cbn in Hx |- *; intuition.

Example ex_p_wf : wf_profile positive ex_p.
Proof.
  split; [cbn; ex_nodup|].
  repeat (constructor; [cbn; repeat split;
    [discriminate|repeat (constructor; [discriminate|]); constructor|ex_nodup|ex_incl]|]).
  constructor.
Qed.

(* first-place votes 4/3, 7/3, 2, 1/3, 0: Plurality with m = 2 elects 2 then 3 *)
Example ex_plurality :
  exists s0 s1,
    run_rule positive Pos.eqb (RPlurality 2 None) ex_p st0 = inl ([s0; s1], st0) /\
    Forall2 Qeq (map snd (escores s0)) [4#3; 7#3; 2; 1#3; 0] /\
    Forall2 Qeq (map (fpv_score positive Pos.eqb ex_p) (cands ex_p)) [4#3; 7#3; 2; 1#3; 0] /\
    remaining s0 = [[2];[3];[1];[4];[5]]%positive /\
    elected s1 = [[2];[3]]%positive /\ remaining s1 = [[1];[4];[5]]%positive /\ tiebreaks s1 = [].
Proof.
  do 2 eexists. split; [vm_compute; reflexivity|].
  split; [repeat constructor; vm_compute; reflexivity|].
  split; [repeat constructor; vm_compute; reflexivity|]. repeat split.
Qed.

(* Borda with the default vector (5,4,3,2,1) and with the short vector (3, 1/2) *)
Example ex_borda :
  (exists s0 s1,
    run_rule positive Pos.eqb (RBorda 2 None None) ex_p st0 = inl ([s0; s1], st0) /\
    Forall2 Qeq (map snd (escores s0)) [22; 23; 39#2; 15; 21#2] /\
    Forall2 Qeq (map (positional_score positive Pos.eqb ex_p (default_borda positive ex_p)) (cands ex_p))
                [22; 23; 39#2; 15; 21#2] /\
    elected s1 = [[2];[1]]%positive /\ remaining s1 = [[3];[4];[5]]%positive) /\
  (exists s0 s1,
    run_rule positive Pos.eqb (RBorda 1 (Some [3; 1#2]) None) ex_p st0 = inl ([s0; s1], st0) /\
    Forall2 Qeq (map (positional_score positive Pos.eqb ex_p [3; 1#2]) (cands ex_p))
                (map snd (escores s0)) /\
    elected s1 = [[2]]%positive).
Proof.
  split.
  - do 2 eexists. split; [vm_compute; reflexivity|].
    split; [repeat constructor; vm_compute; reflexivity|].
    split; [repeat constructor; vm_compute; reflexivity|]. repeat split.
  - do 2 eexists. split; [vm_compute; reflexivity|].
    split; [repeat constructor; vm_compute; reflexivity|]. reflexivity.
Qed.

(* a first-place tie {1,2} straddling the only seat, broken by Borda scores (2 ahead of 1 without a
   draw), and the same tie broken by first-place votes (still tied: one random draw) *)
Definition ex_tie : Core.profile positive :=
  mkProfile [B [[1];[2];[3]]%positive 1; B [[2];[3];[1]]%positive 1] [1;2;3]%positive.

Example ex_tie_wf : wf_profile positive ex_tie.
Proof.
  split; [cbn; ex_nodup|].
  repeat (constructor; [cbn; repeat split;
    [discriminate|repeat (constructor; [discriminate|]); constructor|ex_nodup|ex_incl]|]).
  constructor.
Qed.

Example ex_tie_runs :
  (exists s0 s1,
     run_rule positive Pos.eqb (RPlurality 1 (Some TBBorda)) ex_tie st0 = inl ([s0; s1], st0) /\
     remaining s0 = [[1;2];[3]]%positive /\ elected s1 = [[2]]%positive /\
     remaining s1 = [[1];[3]]%positive /\
     tiebreaks s1 = [([1;2]%positive, [[2];[1]]%positive)]) /\
  (exists s0 s1,
     run_rule positive Pos.eqb (RPlurality 1 (Some TBFirstPlace)) ex_tie (mkM [DPerm [1;2]%positive] [])
       = inl ([s0; s1], mkM [] [CSample [1;2]%positive]) /\
     elected s1 = [[1]]%positive /\ tiebreaks s1 = [([1;2]%positive, [[1];[2]]%positive)]) /\
  run_rule positive Pos.eqb (RPlurality 1 None) ex_tie st0 = inr EValue.
Proof.
  split; [do 2 eexists; split; [vm_compute; reflexivity|repeat split]|].
  split; [do 2 eexists; split; [vm_compute; reflexivity|repeat split]|].
  vm_compute. reflexivity.
Qed.
