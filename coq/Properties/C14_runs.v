(* Properties/C14_runs.v — property C14 for WHOLE GENERATOR RUNS: every generator's
   generate_profile(N, by_bloc=True), as the model assembles it, returns a well-formed profile of
   exactly the requested size; it fails only on recorded draws the primitives cannot return (EScript)
   or in the documented error cases; it succeeds on every admissible recorded draw.

   The run functions [gen_*_run] (Spec/GenRunSpec.v) are the compositions that Model/Dispatch.v
   performs inside its harness entry points op 95-104, 106 (kernel per bloc, then condense per bloc
   and add up), on typed arguments; Properties/C14_dispatch.v proves that each op IS the encoding of
   the corresponding run function on the decoded argument.  (BallotSimplex from a point / alpha, ops
   98 and 105, are covered by Properties/C14_gen2.v: c14_from_point_profile, c14_alpha_profile.)

   Reading of the statements.  [run_wf bid size shape blocs by_bloc agg] (Spec/GenRunSpec.v):
     - one profile per bloc, in order, named like the bloc, of total weight EXACTLY the number of
       ballots requested from the bloc ([size]), with positive whole weights, every ballot of the
       documented [shape];
     - the aggregate's ballots are exactly the ballots of the by-bloc profiles (so these add up to
       it, also content by content), its total weight is the total number of ballots requested,
       its weights are positive whole numbers, every ballot has the shape of some bloc, and its
       declared candidates are the candidates cast.
   Shapes: [complete_shape nz zero] = ranking-only ballot listing every candidate of nz ++ zero
   exactly once, those of nz as singleton positions, those of zero as ONE final tied group;
   [short_pl_shape iv bl] = exactly bl positions' worth of candidates ..., complete when bl is the
   number of candidates; [cumulative_shape iv nv] = scores distributing exactly nv points;
   [ac_shape], [cam_shape] = singleton positions over the two slates.
   As in Properties/C14.v every random kernel takes the primitive's recorded result as an argument;
   "admissible" = a result the primitive can return ([valid_sample], [valid_iid], positive table
   probability, 0 < flip < 1).  Proofs: Proofs/C14_runs.v, Proofs/C14_runs_slate.v. *)
From VK Require Import Base Core GenValidation PrefInterval Generators Generators2.
From VK.Spec Require Import Content GenSpec Gen2Spec BTSpec GenRunSpec.
From VK.Proofs Require Import C14_wf C14_runs C14_runs_slate.
From Coq Require Import Permutation Lia.

(* ====================== R0. the common tail ====================== *)

(* pools of unit-weight ballots of a given shape, one per bloc, of the requested sizes *)
Theorem c14_run_tail : forall (X : Type) (bid : X -> bloc) (size : X -> nat)
    (shape : X -> ranking pcand -> list (pcand * Q) -> Prop)
    (blocs : list X) (pools : list (bloc * list gballot)) by_bloc agg,
  Forall2 (fun x (bp : bloc * list gballot) =>
             fst bp = bid x /\ length (snd bp) = size x /\
             forall b, In b (snd bp) -> wt b == 1 /\ shape x (rk b) (sc b)) blocs pools ->
  finish_blocs pools = inl (by_bloc, agg) ->
  run_wf bid size shape blocs by_bloc agg.
Proof. exact (@finish_run_wf). Qed.
Print Assumptions c14_run_tail.

(* sizes from the apportionment oracle: if bloc i is asked for (apportion props N)_i ballots, the
   aggregate has total weight exactly N (the contract of the oracle is the trusted hypothesis of
   Properties/C14_sizes.v, checked at run time on every recorded call) *)
Theorem c14_run_apportioned : forall (X : Type) (bid : X -> bloc) (size : X -> nat)
    (shape : X -> ranking pcand -> list (pcand * Q) -> Prop) (blocs : list X) by_bloc agg
    (apportion : list Q -> nat -> list nat) (props : list Q) (N : nat),
  (fold_right Nat.add 0%nat (apportion props N) = N) ->
  map size blocs = apportion props N ->
  run_wf bid size shape blocs by_bloc agg ->
  total_wt pcand (ballots agg) == Qnat N /\
  Forall2 (fun n (bq : bloc * gprofile) => total_wt pcand (ballots (snd bq)) == Qnat n)
          (apportion props N) by_bloc.
Proof.
  intros X bid size shape blocs by_bloc agg apportion props N Hsum Hsz (HF & _ & _ & Ht & _).
  split.
  - rewrite Ht, Hsz.
    assert (E : list_sum (apportion props N) = N) by exact Hsum.
    rewrite E. reflexivity.
  - rewrite <- Hsz. clear - HF. induction HF as [|x bq blocs by_bloc (_ & H & _) _ IH]; cbn [map]; constructor; assumption.
Qed.
Print Assumptions c14_run_apportioned.

(* ====================== R1. name / short-name Plackett-Luce (op 95) ====================== *)

Theorem c14_gen_pl_wf : forall bl blocs by_bloc agg calls,
  gen_pl_run bl blocs = inl (by_bloc, agg, calls) ->
  run_wf pl_bid pl_size (pl_shape_of bl) blocs by_bloc agg.
Proof. exact gen_pl_wf. Qed.
Print Assumptions c14_gen_pl_wf.

(* name_PlackettLuce (ballot length = number of candidates, every bloc's combined interval over
   the same candidates cs): every ballot of the aggregate is a complete duplicate-free ranking of cs,
   zero-support candidates only as the final tied group *)
Theorem c14_gen_name_pl_complete : forall (cs : list pcand) blocs by_bloc agg calls,
  (forall x, In x blocs -> NoDup (pi_cands (snd (fst x))) /\ Permutation (pi_cands (snd (fst x))) cs) ->
  gen_pl_run (length cs) blocs = inl (by_bloc, agg, calls) ->
  forall b, In b (ballots agg) ->
    sc b = [] /\ Permutation (flat pcand (rk b)) cs /\ NoDup (flat pcand (rk b)) /\
    exists x, In x blocs /\
      complete_shape (map fst (pi_int (snd (fst x)))) (pi_zero (snd (fst x))) (rk b) (sc b).
Proof. exact gen_name_pl_complete. Qed.
Print Assumptions c14_gen_name_pl_complete.

(* the only errors: an impossible recorded draw, or the documented ValueError of numpy when a bloc
   that generates at least one ballot needs more tied places than it has zero-support candidates *)
Theorem c14_gen_pl_errors : forall bl blocs e,
  gen_pl_run bl blocs = inr e ->
  e = EScript \/ (e = EValue /\ exists x, In x blocs /\ snd x <> [] /\ pl_short_of_zero bl x).
Proof. exact gen_pl_errors. Qed.
Print Assumptions c14_gen_pl_errors.

Theorem c14_gen_pl_succeeds : forall bl blocs,
  (forall x, In x blocs -> snd x <> [] -> ~ pl_short_of_zero bl x) ->
  (forall x, In x blocs -> pl_draws_ok bl x) ->
  exists out, gen_pl_run bl blocs = inl out.
Proof. exact gen_pl_succeeds. Qed.
Print Assumptions c14_gen_pl_succeeds.

(* ====================== R2. name_Cumulative (op 96) ====================== *)

Theorem c14_gen_cumulative_wf : forall nv blocs by_bloc agg calls,
  gen_cumulative_run nv blocs = inl (by_bloc, agg, calls) ->
  run_wf cum_bid cum_size (cum_shape_of nv) blocs by_bloc agg.
Proof. exact gen_cumulative_wf. Qed.
Print Assumptions c14_gen_cumulative_wf.

Theorem c14_gen_cumulative_errors : forall nv blocs e, gen_cumulative_run nv blocs = inr e -> e = EScript.
Proof. exact gen_cumulative_errors. Qed.
Print Assumptions c14_gen_cumulative_errors.

Theorem c14_gen_cumulative_succeeds : forall nv blocs,
  (forall x d, In x blocs -> In d (snd x) -> valid_iid (map fst (pi_int (snd (fst x)))) nv d = true) ->
  exists out, gen_cumulative_run nv blocs = inl out.
Proof. exact gen_cumulative_succeeds. Qed.
Print Assumptions c14_gen_cumulative_succeeds.

(* ====================== R3. exact name_BradleyTerry (op 97) ====================== *)

Theorem c14_gen_bt_wf : forall blocs by_bloc agg calls,
  gen_bt_run blocs = inl (by_bloc, agg, calls) ->
  run_wf bt_bid bt_size bt_shape_of blocs by_bloc agg.
Proof. exact gen_bt_wf. Qed.
Print Assumptions c14_gen_bt_wf.

Theorem c14_gen_bt_errors : forall blocs e, gen_bt_run blocs = inr e -> e = EScript.
Proof. exact gen_bt_errors. Qed.
Print Assumptions c14_gen_bt_errors.

Theorem c14_gen_bt_succeeds : forall blocs,
  (forall x, In x blocs -> length (snd x) = snd (fst x) /\
     forall r, In r (snd x) -> exists v, In (r, v) (bt_pdf (pi_int (bt_iv x))) /\ 0 < v) ->
  exists out, gen_bt_run blocs = inl out.
Proof. exact gen_bt_succeeds. Qed.
Print Assumptions c14_gen_bt_succeeds.

(* ====================== R4. name_BradleyTerry MCMC (op 103) ====================== *)

Theorem c14_gen_bt_mcmc_wf : forall blocs by_bloc agg calls,
  gen_bt_mcmc_run blocs = inl (by_bloc, agg, calls) ->
  run_wf btm_bid btm_size btm_shape_of blocs by_bloc agg /\ calls = [].
Proof. exact gen_bt_mcmc_wf. Qed.
Print Assumptions c14_gen_bt_mcmc_wf.

Theorem c14_gen_bt_mcmc_errors : forall blocs e, gen_bt_mcmc_run blocs = inr e -> e = EScript.
Proof. exact gen_bt_mcmc_errors. Qed.
Print Assumptions c14_gen_bt_mcmc_errors.

Theorem c14_gen_bt_mcmc_succeeds : forall blocs,
  (forall x, In x blocs ->
     valid_sample (map fst (pi_int (btm_iv x))) (length (pi_int (btm_iv x))) (snd (fst x)) = true /\
     forall s, In s (snd x) -> (S (fst s) < length (snd (fst x)))%nat) ->
  exists out, gen_bt_mcmc_run blocs = inl out.
Proof. exact gen_bt_mcmc_succeeds. Qed.
Print Assumptions c14_gen_bt_mcmc_succeeds.

(* ====================== R5. slate_PlackettLuce (op 99) ====================== *)

(* valid parameters: [spl_params_ok] (distinct slates with distinct candidates, sizes = numbers of
   supported candidates >= 1, the cohesion row names exactly the slates, values >= 0); recorded
   draws of the right shape: [spl_draw_shape_ok] (one flip per supported candidate; a recorded
   shuffle, when the loop reports one, is a rearrangement of what it shuffles — the model does not
   check either, see the report) *)
Theorem c14_gen_slate_pl_wf : forall blocs by_bloc agg calls,
  (forall x, In x blocs -> spl_params_ok x /\ forall d, In d (spl_ballots x) -> spl_draw_shape_ok x d) ->
  gen_slate_pl_run blocs = inl (by_bloc, agg, calls) ->
  run_wf spl_id spl_size spl_shape_of blocs by_bloc agg.
Proof. exact gen_slate_pl_wf. Qed.
Print Assumptions c14_gen_slate_pl_wf.

(* errors, for ANY input: impossible draw (EScript), a flip outside every bin (blocs[None]:
   TypeError), or an index/key error of the assembly when types and orders do not fit *)
Theorem c14_gen_slate_pl_errors : forall blocs e,
  gen_slate_pl_run blocs = inr e -> e = EScript \/ e = EType \/ e = EIndex \/ e = EKey.
Proof. exact gen_slate_pl_errors. Qed.
Print Assumptions c14_gen_slate_pl_errors.

(* none of them on valid parameters (cohesion row summing to exactly one) and admissible draws *)
Theorem c14_gen_slate_pl_succeeds : forall blocs,
  (forall x, In x blocs -> spl_params_ok x /\ qsum (map snd (spl_coh x)) == 1 /\
     forall d, In d (spl_ballots x) -> spl_draw_ok x d) ->
  exists out, gen_slate_pl_run blocs = inl out.
Proof. exact gen_slate_pl_succeeds. Qed.
Print Assumptions c14_gen_slate_pl_succeeds.

(* the draw-shape premise of c14_gen_slate_pl_wf is needed: the model does not check how many
   flips a ballot is given nor the recorded shuffle, so a script with too few flips (or a bogus
   shuffle result) is ACCEPTED and yields an incomplete (or over-complete) ballot.  The harness
   always cuts the recorded uniforms into blocks of the right length and replays the real
   shuffle; this is a weakness of the script check, not of the implementation *)
Theorem c14_gen_slate_pl_unchecked_script_refuted :
  exists (x : spl_in) by_bloc agg calls,
    spl_params_ok x /\ gen_slate_pl_run [x] = inl (by_bloc, agg, calls) /\
    exists b, In b (ballots agg) /\ ~ complete_shape (slate_nz (spl_ivs x)) (spl_zero x) (rk b) (sc b).
Proof.
  exists (mkSPL 1%positive [(1%positive, mkPI [(11%positive, 1#2); (12%positive, 1#2)] [])]
                [(1%positive, 2%nat)] [(1%positive, 1%Q)] []
                [([1#2]%Q, None, [(1%positive, [12%positive; 11%positive])])]).
  do 3 eexists. split; [|split; [vm_compute; reflexivity|]].
  - split.
    + split; [repeat constructor; cbn; intuition|]. split; [reflexivity|]. split.
      * intros bl iv [E|[]]. injection E as <- <-. cbn. auto.
      * repeat constructor; cbn; intuition discriminate.
    + split; [repeat constructor; cbn; intuition|]. split; [intros b; cbn; tauto|].
      repeat constructor. discriminate.
  - eexists. split; [left; reflexivity|]. cbn [rk sc spl_ivs spl_zero].
    intros (_ & order & tail & _ & _ & _ & _ & P & _). apply Permutation_length in P. discriminate P.
Qed.
Print Assumptions c14_gen_slate_pl_unchecked_script_refuted.

(* ====================== R6. exact slate_BradleyTerry (op 100) ====================== *)

Theorem c14_gen_slate_bt_wf : forall blocs by_bloc agg calls,
  (forall x, In x blocs -> slate_params_ok (sbt_ivs x) (sbt_sizes x)) ->
  gen_slate_bt_run blocs = inl (by_bloc, agg, calls) ->
  run_wf sbt_id sbt_size sbt_shape_of blocs by_bloc agg.
Proof. exact gen_slate_bt_wf. Qed.
Print Assumptions c14_gen_slate_bt_wf.

Theorem c14_gen_slate_bt_errors : forall blocs e,
  gen_slate_bt_run blocs = inr e -> e = EScript \/ e = EKey \/ e = EIndex.
Proof. exact gen_slate_bt_errors. Qed.
Print Assumptions c14_gen_slate_bt_errors.

Theorem c14_gen_slate_bt_succeeds : forall blocs,
  (forall x, In x blocs -> slate_params_ok (sbt_ivs x) (sbt_sizes x) /\
     forall d, In d (sbt_ballots x) ->
       (exists v, In (fst d, v) (sbt_table x) /\ 0 < v) /\ orders_ok (sbt_ivs x) (snd d)) ->
  exists out, gen_slate_bt_run blocs = inl out.
Proof. exact gen_slate_bt_succeeds. Qed.
Print Assumptions c14_gen_slate_bt_succeeds.

(* ====================== R7. slate_BradleyTerry MCMC (op 104) ====================== *)

Theorem c14_gen_slate_mcmc_wf : forall blocs by_bloc agg calls,
  (forall x, In x blocs -> sm_params_ok x) ->
  gen_slate_mcmc_run blocs = inl (by_bloc, agg, calls) ->
  run_wf sm_id sm_size sm_shape_of blocs by_bloc agg.
Proof. exact gen_slate_mcmc_wf. Qed.
Print Assumptions c14_gen_slate_mcmc_wf.

Theorem c14_gen_slate_mcmc_errors : forall blocs e,
  gen_slate_mcmc_run blocs = inr e -> e = EScript \/ e = EKey \/ e = EIndex.
Proof. exact gen_slate_mcmc_errors. Qed.
Print Assumptions c14_gen_slate_mcmc_errors.

Theorem c14_gen_slate_mcmc_succeeds : forall blocs,
  (forall x, In x blocs -> sm_params_ok x /\
     (forall s, In s (sm_steps x) -> (S (fst s) < length (sm_seed x))%nat) /\
     length (sm_orders x) = length (sm_steps x) /\
     forall os, In os (sm_orders x) -> orders_ok (sm_ivs x) os) ->
  exists out, gen_slate_mcmc_run blocs = inl out.
Proof. exact gen_slate_mcmc_succeeds. Qed.
Print Assumptions c14_gen_slate_mcmc_succeeds.

(* ====================== R8. AlternatingCrossover (op 101) ====================== *)

(* no candidate twice and only the two slates' supported candidates on every ballot; complete when
   the slates have the same number of supported candidates (otherwise crossover ballots are
   truncated: known finding, Properties/C14.v c14_ac_truncates) *)
Theorem c14_gen_ac_wf : forall blocs by_bloc agg calls,
  gen_ac_run blocs = inl (by_bloc, agg, calls) ->
  run_wf ac_id ac_size ac_shape_of blocs by_bloc agg.
Proof. exact gen_ac_wf. Qed.
Print Assumptions c14_gen_ac_wf.

Theorem c14_gen_ac_errors : forall blocs e, gen_ac_run blocs = inr e -> e = EScript.
Proof. exact gen_ac_errors. Qed.
Print Assumptions c14_gen_ac_errors.

Theorem c14_gen_ac_succeeds : forall blocs,
  (forall x d, In x blocs -> In d (ac_draws x) ->
     valid_sample (ac_bcands x) (length (ac_bcands x)) (fst d) = true /\
     valid_sample (ac_ocands x) (length (ac_ocands x)) (snd d) = true) ->
  exists out, gen_ac_run blocs = inl out.
Proof. exact gen_ac_succeeds. Qed.
Print Assumptions c14_gen_ac_succeeds.

(* ====================== R9. CambridgeSampler (op 106) ====================== *)

Theorem c14_gen_cambridge_wf : forall freqs blocs by_bloc agg calls,
  gen_cambridge_run freqs blocs = inl (by_bloc, agg, calls) ->
  run_wf cam_id cam_size cam_shape_of blocs by_bloc agg.
Proof. exact gen_cambridge_wf. Qed.
Print Assumptions c14_gen_cambridge_wf.

Theorem c14_gen_cambridge_errors : forall freqs blocs e,
  gen_cambridge_run freqs blocs = inr e -> e = EScript.
Proof. exact gen_cambridge_errors. Qed.
Print Assumptions c14_gen_cambridge_errors.

Theorem c14_gen_cambridge_succeeds : forall freqs blocs,
  (forall x, In x blocs -> cam_draws_ok freqs x) ->
  exists out, gen_cambridge_run freqs blocs = inl out.
Proof. exact gen_cambridge_succeeds. Qed.
Print Assumptions c14_gen_cambridge_succeeds.

(* ====================== R10. spatial models (op 102) ====================== *)

(* one row of distances per voter, one distance per candidate: total weight = number of voters,
   every ballot a complete duplicate-free ranking of the candidates (no tied group) *)
Theorem c14_gen_spatial_wf : forall cs dists p,
  (forall ds, In ds dists -> length ds = length cs) ->
  gen_spatial_run cs dists = inl p ->
  NoDup cs /\ (cs <> [] -> cands p = cs) /\
  total_wt pcand (ballots p) == Qnat (length dists) /\
  whole_pos_weights (ballots p) /\
  NoDup (map rk (ballots p)) /\
  (forall b, In b (ballots p) ->
     complete_shape cs [] (rk b) (sc b) /\
     exists ds, In ds dists /\ flat pcand (rk b) = sort_by_distance cs ds /\
       wt b = Qnat (pool_count (map (sort_by_distance cs) dists) (sort_by_distance cs ds)) /\
       (0 < pool_count (map (sort_by_distance cs) dists) (sort_by_distance cs ds))%nat) /\
  (forall ds, In ds dists ->
     exists b, In b (ballots p) /\ rk b = singletons pcand (sort_by_distance cs ds)).
Proof. exact gen_spatial_wf. Qed.
Print Assumptions c14_gen_spatial_wf.

(* the only error is the ValueError of PreferenceProfile for duplicate candidate names *)
Theorem c14_gen_spatial_errors : forall cs dists,
  (forall e, gen_spatial_run cs dists = inr e -> e = EValue) /\
  (gen_spatial_run cs dists = inr EValue <-> ~ NoDup cs) /\
  (NoDup cs -> exists p, gen_spatial_run cs dists = inl p).
Proof. exact gen_spatial_errors. Qed.
Print Assumptions c14_gen_spatial_errors.

(* ====================== non-vacuity ====================== *)
Module C14RunsExamples.
Local Open Scope positive_scope.

Definition iv1 : pinterval := mkPI [(1, 1#2); (2, 1#2)] [3].
Definition iv2 : pinterval := mkPI [(1, 1#4); (3, 3#4)] [2].

(* name-PL over three candidates, two blocs asked for 2 and 1 ballots *)
Definition pl_blocs : list pl_in :=
  [(1, iv1, [([2; 1], [3]); ([2; 1], [3])]); (2, iv2, [([3; 1], [2])])].

Example ex_pl_run : exists by_bloc agg calls,
  gen_pl_run 3 pl_blocs = inl (by_bloc, agg, calls) /\
  map (fun bq : bloc * gprofile => map wt (ballots (snd bq))) by_bloc = [[2]; [1]]%Q /\
  map (fun b => rk b) (ballots agg) = [[[2]; [1]; [3]]; [[3]; [1]; [2]]] /\
  length calls = 6%nat.
Proof. do 3 eexists. split; [vm_compute; reflexivity|]. repeat split. Qed.

(* its premises for the success theorem hold, and the completeness premise too *)
Example ex_pl_premises :
  (forall x, In x pl_blocs -> snd x <> [] -> ~ pl_short_of_zero 3 x) /\
  (forall x, In x pl_blocs -> pl_draws_ok 3 x) /\
  (forall x, In x pl_blocs -> NoDup (pi_cands (snd (fst x))) /\ Permutation (pi_cands (snd (fst x))) [1; 2; 3]).
Proof.
  split; [|split].
  - intros x [<-|[<-|[]]] _; unfold pl_short_of_zero; cbn; lia.
  - intros x [<-|[<-|[]]] d Hd; cbn in Hd.
    + destruct Hd as [<-|[<-|[]]]; split; intros; reflexivity.
    + destruct Hd as [<-|[]]; split; intros; reflexivity.
  - intros x [<-|[<-|[]]]; cbn [fst snd]; split.
    + apply pnodup_NoDup. reflexivity.
    + reflexivity.
    + apply pnodup_NoDup. reflexivity.
    + cbn. apply perm_skip. apply perm_swap.
Qed.

(* short PL of length 4 with a single zero-support candidate: the documented ValueError *)
Example ex_pl_value_error : gen_pl_run 4 pl_blocs = inr EValue.
Proof. vm_compute. reflexivity. Qed.

(* cumulative: 3 points per ballot *)
Example ex_cumulative_run : exists by_bloc agg calls,
  gen_cumulative_run 3 [(1, iv1, [[2; 1; 2]; [1; 1; 1]])] = inl (by_bloc, agg, calls) /\
  map sc (ballots agg) = [[(2, 2%Q); (1, 1%Q)]; [(1, 3%Q)]] /\ total_wt pcand (ballots agg) == 2.
Proof. do 3 eexists. split; [vm_compute; reflexivity|]. split; vm_compute; reflexivity. Qed.

(* exact name-BT: two draws from the C15 table of bloc 1 *)
Example ex_bt_run : exists by_bloc agg calls,
  gen_bt_run [(1, iv1, 2%nat, [[2; 1]; [1; 2]])] = inl (by_bloc, agg, calls) /\
  map rk (ballots agg) = [[[2]; [1]; [3]]; [[1]; [2]; [3]]] /\ length calls = 1%nat.
Proof. do 3 eexists. split; [vm_compute; reflexivity|]. repeat split. Qed.

(* a draw count that does not match the request is rejected *)
Example ex_bt_rejects : gen_bt_run [(1, iv1, 3%nat, [[2; 1]; [1; 2]])] = inr EScript.
Proof. vm_compute. reflexivity. Qed.

(* slate-PL: slates 1 = {11,12}, 2 = {21} (+ zero-support 22), cohesion 3/4 : 1/4, two ballots *)
Definition spl_ex : spl_in :=
  mkSPL 1 [(1, mkPI [(11, 1#2); (12, 1#2)] []); (2, mkPI [(21, 1%Q)] [22])]
        [(1, 2%nat); (2, 1%nat)] [(1, 3#4); (2, 1#4)] [22]
        [([1#2; 9#10; 1#4]%Q, None, [(1, [12; 11]); (2, [21])]);
         ([9#10; 1#2; 1#2]%Q, None, [(1, [11; 12]); (2, [21])])].

Example ex_slate_pl_run : exists by_bloc agg calls,
  gen_slate_pl_run [spl_ex] = inl (by_bloc, agg, calls) /\
  map (fun b => flat pcand (rk b)) (ballots agg) = [[12; 21; 11; 22]; [21; 11; 12; 22]] /\
  total_wt pcand (ballots agg) == 2 /\ hd_error calls = Some (GUniforms 6).
Proof. do 3 eexists. split; [vm_compute; reflexivity|]. split; [reflexivity|]. split; vm_compute; reflexivity. Qed.

Example ex_slate_pl_params : spl_params_ok spl_ex /\ qsum (map snd (spl_coh spl_ex)) == 1.
Proof.
  split; [|vm_compute; reflexivity]. split.
  - split; [apply pnodup_NoDup; reflexivity|]. split; [reflexivity|]. split.
    + intros bl iv [E|[E|[]]]; injection E as <- <-; cbn; lia.
    + apply pnodup_NoDup. reflexivity.
  - split; [apply pnodup_NoDup; reflexivity|]. split.
    + intros b. cbn. tauto.
    + repeat constructor; discriminate.
Qed.

(* a flip equal to 0 selects no bin: TypeError, as in the code *)
Example ex_slate_pl_type_error :
  gen_slate_pl_run [mkSPL 1 (spl_ivs spl_ex) (spl_sizes spl_ex) (spl_coh spl_ex) [22]
                      [([0; 9#10; 1#4]%Q, None, [(1, [12; 11]); (2, [21])])]] = inr EType.
Proof. vm_compute. reflexivity. Qed.

(* AlternatingCrossover: one crossover voter, one bloc voter *)
Example ex_ac_run : exists by_bloc agg calls,
  gen_ac_run [mkAC 1 1 [1; 2] [3; 4] [1#2; 1#2]%Q [1#4; 3#4]%Q [([2; 1], [4; 3]); ([1; 2], [3; 4])]]
    = inl (by_bloc, agg, calls) /\
  map (fun b => flat pcand (rk b)) (ballots agg) = [[4; 2; 3; 1]; [1; 2; 3; 4]].
Proof. do 3 eexists. split; [vm_compute; reflexivity|]. reflexivity. Qed.

(* spatial: three voters, two of them with the same ranking *)
Example ex_spatial_run : exists p,
  gen_spatial_run [1; 2; 3] [[1; 1#2; 2]; [1#3; 1#2; 1]; [3; 2; 5]]%Q = inl p /\
  map (fun b => (flat pcand (rk b), wt b)) (ballots p) = [([2; 1; 3], Qnat 2); ([1; 2; 3], Qnat 1)].
Proof. eexists. split; [vm_compute; reflexivity|]. reflexivity. Qed.

End C14RunsExamples.
