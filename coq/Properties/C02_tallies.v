(* Properties/C02_tallies.v — C02, last sentence: "The tallies and candidate order reported for each
   round are exactly the first-place weights of the ballots that result from these steps."
   Statements only; proofs are in Proofs/C02_tallies.v.

   Vocabulary.  Spec/STVSpec.v: tally c bs = summed weight of the ballots of bs whose first
   position is c; wf_stv0 (valid-or-empty profile); state_of pr st (st was built from the
   first-place votes of pr); script_ok.  Spec/ReplaySpec.v: stv_trace cfg t p sts ps ss — ps lists,
   round by round, the profile the round produced (ps 0 = the input), sts the records, ss the random
   source; round r+1 is ONE stv_step from (ps r, sts r, ss r) to (ps (r+1), sts (r+1), ss (r+1)).
   Spec/TallySpec.v (used only by the compact variants at the end):
     scores_are_tallies pr d   d has one entry per candidate of pr, holding its tally in pr
     ranked_by_tally pr r      r = the candidates of pr in maximal classes of equal tally, classes
                               in strictly descending order of tally.
   [escores st] is the score dictionary of a record, [remaining st] its ranking of the candidates
   still in the count (a tuple of frozensets in the library). *)
From VK Require Import Base Core STV Rules EditSpec.
From VK.Spec Require Import STVSpec ReplaySpec TallySpec.
From VK.Proofs Require Import C02_tallies STV_final.
From Coq Require Import Permutation.

Section C02_tallies.
Variable cand : Type.
Variable ceqb : cand -> cand -> bool.
Hypothesis ceqb_spec : forall a b, reflect (a = b) (ceqb a b).

Notation profile := (profile cand).
Notation estate := (estate cand).
Notation mstate := (mstate cand).
Notation flat := (flat cand).
Notation tally := (tally cand ceqb).
Notation wf_stv0 := (wf_stv0 cand).
Notation state_of := (state_of cand ceqb).
Notation script_ok := (script_ok cand).
Notation stv_trace := (stv_trace cand ceqb).
Notation stv_init := (stv_init cand).
Notation run_stv := (run_stv cand ceqb).
Notation scores_are_tallies := (scores_are_tallies cand ceqb).
Notation ranked_by_tally := (ranked_by_tally cand ceqb).

(* ---------- 1. one record ---------- *)

(* A record st built from a valid-or-empty profile pr:
   (a) its scores are keyed by exactly the candidates of pr (same order, each once);
   (b) every score is the first-place tally of its candidate in pr, every candidate has a score;
   (c) its ranking lists the candidates of pr, each once, in non-empty groups (the single empty
       group when pr has no candidate); candidates of one group have equal tallies; every
       candidate of an earlier group has a STRICTLY larger tally than every candidate of a later
       group; so two candidates share a group if and only if their tallies are equal. *)
Theorem c02_state_of_tallies : forall (pr : profile) (st : estate), wf_stv0 pr -> state_of pr st ->
  (map fst (escores st) = cands pr /\ Permutation (map fst (escores st)) (cands pr) /\
   NoDup (map fst (escores st))) /\
  ((forall c q, In (c, q) (escores st) -> q == tally c (ballots pr)) /\
   (forall c, In c (cands pr) -> exists q, In (c, q) (escores st) /\ q == tally c (ballots pr))) /\
  (Permutation (flat (remaining st)) (cands pr) /\ NoDup (flat (remaining st)) /\
   (cands pr <> [] -> forall g, In g (remaining st) -> g <> []) /\
   (cands pr = [] -> remaining st = [[]]) /\
   (forall g a b, In g (remaining st) -> In a g -> In b g ->
      tally a (ballots pr) == tally b (ballots pr)) /\
   (forall pre g1 mid g2 post a b, remaining st = pre ++ g1 :: mid ++ g2 :: post ->
      In a g1 -> In b g2 -> tally b (ballots pr) < tally a (ballots pr)) /\
   (forall a b, In a (cands pr) -> In b (cands pr) ->
      ((exists g, In g (remaining st) /\ In a g /\ In b g) <->
       tally a (ballots pr) == tally b (ballots pr)))).
Proof. exact (state_of_tallies cand ceqb ceqb_spec). Qed.

(* ---------- 2. every record of a run ---------- *)

(* A successful run from a valid-or-empty profile (same hypotheses and same trace as
   c02_run_legal, Properties/C02_run.v): the trace has one profile per record, and the record of
   EVERY round r satisfies (a), (b), (c) above with respect to the profile pr = ps r that the
   rounds so far produced — the profile whose step-by-step construction c02_run_legal /
   c02_run_weights describe. *)
Theorem c02_run_records_are_tallies : forall cfg (p : profile) (s s' : mstate) sts,
  wf_stv0 p -> (s_transfer cfg = TRandom -> script_ok s) ->
  run_stv cfg p s = inl (sts, s') ->
  exists t ps ss,
    stv_init cfg p = inl t /\ stv_trace cfg t p sts ps ss /\
    nth_error ps 0 = Some p /\ nth_error ss 0 = Some s /\ last ss s = s' /\
    length ps = length sts /\
    forall r pr st, nth_error ps r = Some pr -> nth_error sts r = Some st ->
      (map fst (escores st) = cands pr /\ Permutation (map fst (escores st)) (cands pr) /\
       NoDup (map fst (escores st))) /\
      ((forall c q, In (c, q) (escores st) -> q == tally c (ballots pr)) /\
       (forall c, In c (cands pr) -> exists q, In (c, q) (escores st) /\ q == tally c (ballots pr))) /\
      (Permutation (flat (remaining st)) (cands pr) /\ NoDup (flat (remaining st)) /\
       (cands pr <> [] -> forall g, In g (remaining st) -> g <> []) /\
       (cands pr = [] -> remaining st = [[]]) /\
       (forall g a b, In g (remaining st) -> In a g -> In b g ->
          tally a (ballots pr) == tally b (ballots pr)) /\
       (forall pre g1 mid g2 post a b, remaining st = pre ++ g1 :: mid ++ g2 :: post ->
          In a g1 -> In b g2 -> tally b (ballots pr) < tally a (ballots pr)) /\
       (forall a b, In a (cands pr) -> In b (cands pr) ->
          ((exists g, In g (remaining st) /\ In a g /\ In b g) <->
           tally a (ballots pr) == tally b (ballots pr)))).
Proof. exact (run_records_are_tallies_spelled cand ceqb ceqb_spec). Qed.

(* ---------- 3. the same two statements with the vocabulary of Spec/TallySpec.v ---------- *)

Theorem c02_state_of_tallies_spec : forall (pr : profile) (st : estate),
  wf_stv0 pr -> state_of pr st ->
  scores_are_tallies pr (escores st) /\ ranked_by_tally pr (remaining st).
Proof. exact (state_of_tallies_spec cand ceqb ceqb_spec). Qed.

(* also: every profile of the trace is valid-or-empty over candidates of the input *)
Theorem c02_run_records_are_tallies_spec : forall cfg (p : profile) (s s' : mstate) sts,
  wf_stv0 p -> (s_transfer cfg = TRandom -> script_ok s) ->
  run_stv cfg p s = inl (sts, s') ->
  exists t ps ss,
    stv_init cfg p = inl t /\ stv_trace cfg t p sts ps ss /\
    nth_error ps 0 = Some p /\ nth_error ss 0 = Some s /\ last ss s = s' /\
    length ps = length sts /\
    forall r pr st, nth_error ps r = Some pr -> nth_error sts r = Some st ->
      wf_stv0 pr /\ incl (cands pr) (cands p) /\
      scores_are_tallies pr (escores st) /\ ranked_by_tally pr (remaining st).
Proof. exact (run_records_are_tallies cand ceqb ceqb_spec). Qed.

End C02_tallies.

Print Assumptions c02_state_of_tallies.
Print Assumptions c02_run_records_are_tallies.
Print Assumptions c02_state_of_tallies_spec.
Print Assumptions c02_run_records_are_tallies_spec.

(* ---------- non-vacuity ---------- *)
Module C02TalliesExamples.
Open Scope positive_scope.

Definition bal (r : list positive) (w : Q) : ballot positive :=
  mkBallot (map (fun c => [c]) r) w [] None None.
Definition states_of (x : res (list (estate positive) * mstate positive)) : list (estate positive) :=
  match x with inl (sts, _) => sts | inr _ => [] end.
Ltac valid := apply (wf_stv_profile_b_ok positive Pos.eqb Pos.eqb_spec); vm_compute; reflexivity.

(* (a) the profile ex1_p of Properties/C01_stv.v: A x5, B x3, C x2, D x1; two seats; Droop quota 4.
   The hypotheses of c02_run_records_are_tallies hold and the run has 5 records. *)
Definition ex1_p : profile positive :=
  mkProfile [bal [1] 5; bal [2] 3; bal [3] 2; bal [4] 1] [1; 2; 3; 4].
Definition ex1_cfg : stv_cfg := mkStv 2%Z QDroop true TFractional None.
Definition ex1_sts := Eval vm_compute in states_of (run_stv positive Pos.eqb ex1_cfg ex1_p (mkM [] [])).

(* two dictionaries with the same keys and == scores (the model does not normalise fractions) *)
Definition same_scores (d d' : scores positive) : Prop :=
  Forall2 (fun x y => fst x = fst y /\ snd x == snd y) d d'.

Example ex1_hyps :
  wf_stv0 positive ex1_p /\ (s_transfer ex1_cfg = TRandom -> script_ok positive (mkM [] [])) /\
  exists s', run_stv positive Pos.eqb ex1_cfg ex1_p (mkM [] []) = inl (ex1_sts, s') /\
    map (fun st => remaining st) ex1_sts =
      [ [[1]; [2]; [3]; [4]];  [[2]; [3]; [4]];  [[2]; [3]];  [[2]];  [[]] ] /\
    Forall2 same_scores (map (fun st => escores st) ex1_sts)
      [ [(1, 5%Q); (2, 3%Q); (3, 2%Q); (4, 1%Q)];  [(2, 3%Q); (3, 2%Q); (4, 1%Q)];
        [(2, 3%Q); (3, 2%Q)];  [(2, 3%Q)];  [] ].
Proof.
  split; [assert (H : wf_stv_profile positive ex1_p) by valid; apply H|].
  split; [intros E; discriminate E|].
  eexists. split; [vm_compute; reflexivity|]. split; [vm_compute; reflexivity|].
  vm_compute. repeat constructor.
Qed.

(* (b) a run whose records have tie groups.  A>B x6, B x3, C x3, D x1, E x1; two seats; N = 14,
   Droop quota 5.  Round 0: A 6, B 3, C 3, D 1, E 1  -> ({A}, {B,C}, {D,E}).
   Round 1 elects A; its 6 ballots move to B at 1/6 each: B 4, C 3, D 1, E 1 -> ({B},{C},{D,E}).
   Round 2 eliminates E (tie D/E broken by the scripted permutation), etc. *)
Definition ex2_p : profile positive :=
  mkProfile [bal [1; 2] 6; bal [2] 3; bal [3] 3; bal [4] 1; bal [5] 1] [1; 2; 3; 4; 5].
Definition ex2_s : mstate positive := mkM [DPerm [4; 5]] [].
Definition ex2_sts := Eval vm_compute in states_of (run_stv positive Pos.eqb ex1_cfg ex2_p ex2_s).

Example ex2_hyps :
  wf_stv0 positive ex2_p /\ (s_transfer ex1_cfg = TRandom -> script_ok positive ex2_s) /\
  stv_init positive ex1_cfg ex2_p = inl 5%Q /\
  exists s', run_stv positive Pos.eqb ex1_cfg ex2_p ex2_s = inl (ex2_sts, s') /\ scr s' = [] /\
    map (fun st => (elected st, eliminated st)) ex2_sts =
    [([[]], [[]]); ([[1]], [[]]); ([[]], [[5]]); ([[]], [[4]]); ([[]], [[3]]); ([[2]], [[]])].
Proof.
  split; [assert (H : wf_stv_profile positive ex2_p) by valid; apply H|].
  split; [intros E; discriminate E|].
  split; [vm_compute; reflexivity|].
  eexists. split; [vm_compute; reflexivity|]. split; reflexivity.
Qed.

(* the records of rounds 0, 1, 2 with their tie groups; the tallies of the profile of round 1
   (computed with the spec function [tally] on the profile the step produced) *)
Example ex2_records :
  map (fun st => remaining st) (firstn 3 ex2_sts) =
    [ [[1]; [2; 3]; [4; 5]];  [[2]; [3]; [4; 5]];  [[2]; [3]; [4]] ] /\
  match nth_error ex2_sts 1 with
  | Some st => same_scores (escores st) [(2, 4%Q); (3, 3%Q); (4, 1%Q); (5, 1%Q)]
  | None => False
  end /\
  match stv_step positive Pos.eqb ex1_cfg 5 ex2_p 0%Z ex2_p
          (match initial_state positive Pos.eqb ex2_p with inl s0 => s0
           | inr _ => mkState 0%Z [] [] [] [] [] end) ex2_s with
  | inl ((np, st), _) =>
      nth_error ex2_sts 1 = Some st /\ cands np = [2; 3; 4; 5] /\
      tally positive Pos.eqb 2 (ballots np) == 4 /\ tally positive Pos.eqb 3 (ballots np) == 3 /\
      tally positive Pos.eqb 4 (ballots np) == 1 /\ tally positive Pos.eqb 5 (ballots np) == 1
  | inr _ => False
  end.
Proof.
  split; [vm_compute; reflexivity|]. split.
  - vm_compute. repeat constructor.
  - vm_compute. repeat split.
Qed.

(* the empty-profile corner of (c): after a default election the profile has no candidate and the
   record shows the single empty group *)
Example ex1_last_record :
  match nth_error ex1_sts 4 with
  | Some st => remaining st = [[]] /\ escores st = [] /\
               state_of positive Pos.eqb (empty_profile positive) st
  | None => False
  end.
Proof. vm_compute. repeat split. Qed.

End C02TalliesExamples.
