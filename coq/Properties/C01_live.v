(* Properties/C01_live.v — liveness of the STV / IRV count (C01 "running the rule terminates and the
   final result elects exactly m candidates ... x all outcomes of the random choices made on the
   way"; C07 "at least min(k,|S|,m) members of S are elected" without the proviso "if the count
   returns").  Droop quota, fractional transfer, valid-or-empty profile, 1 <= m <= n, and ties for a
   seat breakable (simultaneous mode, or one of the tiebreak names random / borda / first_place).
   Statements only; proofs are in Proofs/C01_live.v.

   In the model every random choice is replayed from a script of draws (Model/Core.v: [scr s]);
   "all outcomes of the random choices" = all scripts that answer each request of random.sample
   with a duplicate-free permutation of exactly the requested set.  Vocabulary (Spec/LiveSpec.v):
     serves reqs s        the script left in s starts with one such permutation [DPerm l] for each
                          set of the list reqs, in order
     next_unserved reqs s it answers the first sets of reqs and then its next draw is missing, not
                          a DPerm, or not a duplicate-free permutation of the next set
     tb_requests kind q g the sets [tiebreak_set g (Some q) kind] asks to order: [g] for random; for
                          first_place / borda the groups of two or more members of g still tied on
                          that score of q, best first
     round_asks cfg t n p0 pr prev reqs   the round starting from profile pr / record prev asks
                          reqs: one-by-one election with a tied top group -> the configured tiebreak
                          on pr; elimination with a tied last group -> first_place on the initial p0
     reached cfg t p0 pa stsa sa pb stsb sb   the count started at (profile pa, records stsa newest
                          first, random source sa) passes through (pb, stsb, sb): reflexive; one
                          successful [stv_step] from a reached point with seats still open
     admissible_script cfg p s   at every point the count of p reaches from (p, [initial record], s)
                          with seats open, whatever the round asks is served by the script left
   For the STV vocabulary (wf_stv0, stv_inv, tally, elected_upto, ...) see Properties/C02.v and
   C01_stv.v; for coal_wt / winners_in see Properties/C07.v. *)
From VK Require Import Base Core STV Rules EditSpec.
From VK.Spec Require Import STVSpec TieSpec PCSpec LiveSpec.
From VK.Proofs Require Import STV_final C01_live.
From Coq Require Import Permutation Lia.

Section C01_live.
Variable cand : Type.
Variable ceqb : cand -> cand -> bool.
Hypothesis ceqb_spec : forall a b, reflect (a = b) (ceqb a b).

Notation cset := (cset cand).
Notation profile := (profile cand).
Notation estate := (estate cand).
Notation mstate := (mstate cand).
Notation flat := (flat cand).
Notation tally := (tally cand ceqb).
Notation wf_stv0 := (wf_stv0 cand).
Notation wf_stv_profile := (wf_stv_profile cand).
Notation stv_inv := (stv_inv cand ceqb).
Notation stv_init := (stv_init cand).
Notation stv_step := (stv_step cand ceqb).
Notation run_stv := (run_stv cand ceqb).
Notation initial_state := (initial_state cand ceqb).
Notation count_elected := (count_elected cand).
Notation tiebreak_set := (tiebreak_set cand ceqb).
Notation elected_upto := (elected_upto cand).
Notation eliminated_upto := (eliminated_upto cand).
Notation serves := (serves cand).
Notation next_unserved := (next_unserved cand).
Notation tb_requests := (tb_requests cand ceqb).
Notation round_asks := (round_asks cand ceqb).
Notation reached := (reached cand ceqb).
Notation admissible_script := (admissible_script cand ceqb).

(* ---------- 1. what "served" means ---------- *)

(* a tiebreak with a valid name on a valid-or-empty profile succeeds exactly when the script serves
   the sets it asks to order, and can only fail with EScript *)
Theorem c01_tiebreak_served_iff : forall g (q : profile) kind (s : mstate),
  wf_stv0 q -> kind <> TBInvalid ->
  ((exists tt s', tiebreak_set g (Some q) kind s = inl (tt, s')) <-> serves (tb_requests kind q g) s) /\
  (forall e, tiebreak_set g (Some q) kind s = inr e -> e = EScript).
Proof. exact (tb_served_iff cand ceqb ceqb_spec). Qed.

(* not serving a list of requests = answering some of them and then presenting a next draw that is
   not a duplicate-free permutation of exactly the next requested set *)
Theorem c01_unserved_next_draw : forall (reqs : list cset) (s : mstate),
  ~ serves reqs s <-> next_unserved reqs s.
Proof. exact (unserved_iff_next cand ceqb ceqb_spec). Qed.

(* ---------- 2. one round ---------- *)

(* under the invariant of the count (Properties/C01_stv.v), fractional transfer, positive
   threshold, at most m elected: a round that raises e raises EScript, and it asked for an order of
   sets that the script does not serve *)
Theorem c01_stv_step_error_unserved : forall cfg t N (p0 p : profile) prev older (s : mstate) e,
  stv_inv cfg t N p0 p (prev :: older) -> s_transfer cfg = TFractional -> 0 < t ->
  (count_elected (prev :: older) <= s_m cfg)%Z ->
  (s_simul cfg = true \/ exists kind, s_tiebreak cfg = Some kind /\ kind <> TBInvalid) ->
  stv_step cfg t p0 (count_elected (prev :: older)) p prev s = inr e ->
  e = EScript /\
  exists reqs, round_asks cfg t (count_elected (prev :: older)) p0 p prev reqs /\ ~ serves reqs s.
Proof. exact (step_err_unserved cand ceqb ceqb_spec). Qed.

(* a round that succeeds was served whatever it asked ... *)
Theorem c01_stv_step_ok_served : forall cfg t N (p0 p : profile) prev older (s s' : mstate) np st reqs,
  stv_inv cfg t N p0 p (prev :: older) -> s_transfer cfg = TFractional -> 0 < t ->
  (count_elected (prev :: older) <= s_m cfg)%Z ->
  stv_step cfg t p0 (count_elected (prev :: older)) p prev s = inl ((np, st), s') ->
  round_asks cfg t (count_elected (prev :: older)) p0 p prev reqs -> serves reqs s.
Proof. exact (step_ok_served cand ceqb ceqb_spec). Qed.

(* ... and a round all of whose requests are served succeeds *)
Theorem c01_stv_step_served_ok : forall cfg t N (p0 p : profile) prev older (s : mstate),
  stv_inv cfg t N p0 p (prev :: older) -> s_transfer cfg = TFractional -> 0 < t ->
  (count_elected (prev :: older) <= s_m cfg)%Z ->
  (s_simul cfg = true \/ exists kind, s_tiebreak cfg = Some kind /\ kind <> TBInvalid) ->
  (forall reqs, round_asks cfg t (count_elected (prev :: older)) p0 p prev reqs -> serves reqs s) ->
  exists np st s', stv_step cfg t p0 (count_elected (prev :: older)) p prev s = inl ((np, st), s').
Proof. exact (step_served_ok cand ceqb ceqb_spec). Qed.

(* ---------- 3. the run ---------- *)

(* a failing run raises EScript, and it does so in a round — reached by the count from the input
   profile, with seats still open — that asks random.sample to order the sets reqs while the script
   left at that point answers the first of them and then presents a next draw that is not a
   duplicate-free permutation of exactly the next requested set *)
Theorem c01_stv_error_next_draw : forall cfg (p : profile) (s : mstate) e,
  wf_stv0 p -> s_quota cfg = QDroop -> s_transfer cfg = TFractional ->
  (1 <= s_m cfg <= Z.of_nat (length (cands p)))%Z ->
  (s_simul cfg = true \/ exists kind, s_tiebreak cfg = Some kind /\ kind <> TBInvalid) ->
  run_stv cfg p s = inr e ->
  e = EScript /\
  exists t s0 (pr : profile) prev older (s1 : mstate) reqs,
    stv_init cfg p = inl t /\ initial_state p = inl s0 /\
    reached cfg t p p [s0] s pr (prev :: older) s1 /\
    count_elected (prev :: older) <> s_m cfg /\
    round_asks cfg t (count_elected (prev :: older)) p pr prev reqs /\
    next_unserved reqs s1.
Proof. exact (run_err_next_draw cand ceqb ceqb_spec). Qed.

(* in particular the script was not admissible *)
Theorem c01_stv_error_inadmissible : forall cfg (p : profile) (s : mstate) e,
  wf_stv0 p -> s_quota cfg = QDroop -> s_transfer cfg = TFractional ->
  (1 <= s_m cfg <= Z.of_nat (length (cands p)))%Z ->
  (s_simul cfg = true \/ exists kind, s_tiebreak cfg = Some kind /\ kind <> TBInvalid) ->
  run_stv cfg p s = inr e -> e = EScript /\ ~ admissible_script cfg p s.
Proof. exact (run_err_inadmissible cand ceqb ceqb_spec). Qed.

(* LIVENESS: with an admissible script the count returns *)
Theorem c01_stv_live : forall cfg (p : profile) (s : mstate),
  wf_stv0 p -> s_quota cfg = QDroop -> s_transfer cfg = TFractional ->
  (1 <= s_m cfg <= Z.of_nat (length (cands p)))%Z ->
  (s_simul cfg = true \/ exists kind, s_tiebreak cfg = Some kind /\ kind <> TBInvalid) ->
  admissible_script cfg p s -> exists out s', run_stv cfg p s = inl (out, s').
Proof. exact (run_live cand ceqb ceqb_spec). Qed.

(* and admissibility is not more than that: the script of every successful run is admissible *)
Theorem c01_stv_success_admissible : forall cfg (p : profile) (s s' : mstate) out,
  wf_stv0 p -> s_quota cfg = QDroop -> s_transfer cfg = TFractional ->
  run_stv cfg p s = inl (out, s') -> admissible_script cfg p s.
Proof. exact (run_ok_admissible cand ceqb ceqb_spec). Qed.

Theorem c01_stv_live_iff : forall cfg (p : profile) (s : mstate),
  wf_stv0 p -> s_quota cfg = QDroop -> s_transfer cfg = TFractional ->
  (1 <= s_m cfg <= Z.of_nat (length (cands p)))%Z ->
  (s_simul cfg = true \/ exists kind, s_tiebreak cfg = Some kind /\ kind <> TBInvalid) ->
  ((exists out s', run_stv cfg p s = inl (out, s')) <-> admissible_script cfg p s).
Proof. exact (run_ok_iff_admissible cand ceqb ceqb_spec). Qed.

(* ---------- 4. the outcome theorems of C01 / C07, unconditionally for admissible scripts ---------- *)

(* the count returns, elects exactly m different candidates, and at every recorded round the
   elected so far, the remaining and the eliminated so far list every candidate exactly once *)
Theorem c01_stv_live_outcome : forall cfg (p : profile) (s : mstate),
  wf_stv0 p -> s_quota cfg = QDroop -> s_transfer cfg = TFractional ->
  (1 <= s_m cfg <= Z.of_nat (length (cands p)))%Z ->
  (s_simul cfg = true \/ exists kind, s_tiebreak cfg = Some kind /\ kind <> TBInvalid) ->
  admissible_script cfg p s ->
  exists out s', run_stv cfg p s = inl (out, s') /\
    count_elected out = s_m cfg /\ NoDup (all_elected cand out) /\
    forall r st, nth_error out r = Some st ->
      Permutation (flat (elected_upto out r) ++ flat (remaining st) ++ flat (eliminated_upto out r))
                  (cands p).
Proof. exact (live_outcome cand ceqb ceqb_spec). Qed.

(* IRV / STV with one seat: the count returns exactly one winner, a candidate of the profile *)
Theorem c01_irv_live : forall cfg (p : profile) (s : mstate),
  wf_stv_profile p -> s_quota cfg = QDroop -> s_transfer cfg = TFractional ->
  (s_simul cfg = true \/ exists kind, s_tiebreak cfg = Some kind /\ kind <> TBInvalid) ->
  s_m cfg = 1%Z -> admissible_script cfg p s ->
  exists out s' w, run_stv cfg p s = inl (out, s') /\
    flat (elected_upto out (length out - 1)) = [w] /\ In w (cands p).
Proof. exact (irv_live cand ceqb ceqb_spec). Qed.

(* C07, Droop proportionality for solid coalitions (hypotheses of c07_droop_pc, fractional
   transfer): the count returns AND the coalition gets min(k, |A|, m) seats.  In particular with
   s_tiebreak cfg = Some TBRandom, whatever permutations the random tiebreaks return. *)
Theorem c07_droop_pc_live : forall cfg (p : profile) (A : cset) (k : nat) t (s : mstate),
  wf_stv_profile p -> s_quota cfg = QDroop -> s_transfer cfg = TFractional ->
  (s_simul cfg = true \/ exists kind, s_tiebreak cfg = Some kind /\ kind <> TBInvalid) ->
  NoDup A -> incl A (cands p) -> stv_init cfg p = inl t ->
  Qnat k * t <= coal_wt cand ceqb A (ballots p) ->
  admissible_script cfg p s ->
  exists out s', run_stv cfg p s = inl (out, s') /\
    (Nat.min k (Nat.min (length A) (Z.to_nat (s_m cfg)))
     <= winners_in cand ceqb A (flat (elected_upto out (length out - 1))))%nat.
Proof. exact (droop_pc_live cand ceqb ceqb_spec). Qed.

Corollary c07_droop_pc_live_random_tiebreak :
  forall m simul (p : profile) (A : cset) (k : nat) t (s : mstate),
  wf_stv_profile p -> NoDup A -> incl A (cands p) ->
  stv_init (mkStv m QDroop simul TFractional (Some TBRandom)) p = inl t ->
  Qnat k * t <= coal_wt cand ceqb A (ballots p) ->
  admissible_script (mkStv m QDroop simul TFractional (Some TBRandom)) p s ->
  exists out s', run_stv (mkStv m QDroop simul TFractional (Some TBRandom)) p s = inl (out, s') /\
    (Nat.min k (Nat.min (length A) (Z.to_nat m))
     <= winners_in cand ceqb A (flat (elected_upto out (length out - 1))))%nat.
Proof.
  intros m simul p A k t s Hwf HA Hincl Ei Hcoal Hadm.
  apply (droop_pc_live cand ceqb ceqb_spec (mkStv m QDroop simul TFractional (Some TBRandom)) p A k t s
           Hwf eq_refl eq_refl); try assumption.
  right. exists TBRandom. split; [reflexivity|discriminate].
Qed.

(* C07, IRV majority criterion: a candidate ranked first on ballots worth the threshold wins, and
   the count does return *)
Theorem c07_irv_majority_live : forall cfg (p : profile) (c : cand) t (s : mstate),
  wf_stv_profile p -> s_quota cfg = QDroop -> s_transfer cfg = TFractional ->
  (s_simul cfg = true \/ exists kind, s_tiebreak cfg = Some kind /\ kind <> TBInvalid) ->
  s_m cfg = 1%Z -> In c (cands p) -> stv_init cfg p = inl t -> t <= tally c (ballots p) ->
  admissible_script cfg p s ->
  exists out s', run_stv cfg p s = inl (out, s') /\ flat (elected_upto out (length out - 1)) = [c].
Proof. exact (irv_majority_live cand ceqb ceqb_spec). Qed.

End C01_live.

Print Assumptions c01_tiebreak_served_iff.
Print Assumptions c01_unserved_next_draw.
Print Assumptions c01_stv_step_error_unserved.
Print Assumptions c01_stv_step_ok_served.
Print Assumptions c01_stv_step_served_ok.
Print Assumptions c01_stv_error_next_draw.
Print Assumptions c01_stv_error_inadmissible.
Print Assumptions c01_stv_live.
Print Assumptions c01_stv_success_admissible.
Print Assumptions c01_stv_live_iff.
Print Assumptions c01_stv_live_outcome.
Print Assumptions c01_irv_live.
Print Assumptions c07_droop_pc_live.
Print Assumptions c07_droop_pc_live_random_tiebreak.
Print Assumptions c07_irv_majority_live.

(* ---------- non-vacuity ---------- *)
Module C01LiveExamples.
Open Scope positive_scope.

Definition bal (r : list positive) (w : Q) : ballot positive :=
  mkBallot (map (fun c => [c]) r) w [] None None.
Ltac valid := apply (wf_stv_profile_b_ok positive Pos.eqb Pos.eqb_spec); vm_compute; reflexivity.
Definition s0_of (p : profile positive) : estate positive :=
  match initial_state positive Pos.eqb p with inl s0 => s0 | inr _ => mkState 0%Z [] [] [] [] [] end.

(* (a) A x4, B x2, C x2, D x1; two seats; Droop quota 4.  A is elected, D eliminated, then B and C
   tie for elimination on the current AND on the initial first-place tallies: the round asks for an
   order of {B, C}. *)
Definition exa_p : profile positive := mkProfile [bal [1] 4; bal [2] 2; bal [3] 2; bal [4] 1] [1; 2; 3; 4].
Definition exa_cfg : stv_cfg := mkStv 2%Z QDroop true TFractional None.

Example exa_valid : wf_stv_profile positive exa_p.
Proof. valid. Qed.

Example exa_requests :
  tb_requests positive Pos.eqb TBFirstPlace exa_p [2; 3] = [[2; 3]] /\
  tb_requests positive Pos.eqb TBFirstPlace exa_p [2; 4] = [] /\
  tb_requests positive Pos.eqb TBRandom exa_p [2; 4] = [[2; 4]].
Proof. vm_compute. repeat split. Qed.

Example exa_serves :
  serves positive [[2; 3]] (mkM [DPerm [3; 2]] []) /\
  next_unserved positive [[2; 3]] (mkM [] []) /\
  next_unserved positive [[2; 3]] (mkM [DPerm [2; 4]] []) /\
  next_unserved positive [[2; 3]] (mkM [DPerm [2; 3; 3]] []) /\
  next_unserved positive [[2; 3]] (mkM [DUnit 0] []).
Proof.
  split; [exists [[3; 2]], []; split; [reflexivity|]; constructor; [split|constructor];
          [apply perm_swap|repeat constructor; cbn; intuition discriminate]|].
  assert (Hperm : forall l : list positive, Permutation l [2; 3] -> l = [2; 3] \/ l = [3; 2]).
  { intros l H. pose proof (Permutation_length H) as Hl.
    destruct l as [|a [|b [|c l]]]; try discriminate.
    assert (Ha : In a [2; 3]) by (apply (Permutation_in a H); left; reflexivity).
    assert (Hb : In b [2; 3]) by (apply (Permutation_in b H); right; left; reflexivity).
    assert (H2 : In 2 [a; b]) by (apply (Permutation_in 2 (Permutation_sym H)); left; reflexivity).
    assert (H3 : In 3 [a; b]) by (apply (Permutation_in 3 (Permutation_sym H)); right; left; reflexivity).
    cbn in Ha, Hb, H2, H3. intuition (subst; try discriminate; auto). }
  repeat split.
  - exists [], [2; 3], [], [], []. repeat split; try constructor. intros (l & r & E & _). discriminate.
  - exists [], [2; 3], [], [], [DPerm [2; 4]]. repeat split; try constructor.
    intros (l & r & E & Hp & _). injection E as <- <-. destruct (Hperm _ Hp); discriminate.
  - exists [], [2; 3], [], [], [DPerm [2; 3; 3]]. repeat split; try constructor.
    intros (l & r & E & Hp & _). injection E as <- <-. destruct (Hperm _ Hp); discriminate.
  - exists [], [2; 3], [], [], [DUnit 0]. repeat split; try constructor.
    intros (l & r & E & _). discriminate.
Qed.

(* with one permutation of {B, C} in the script the count returns (so the script is admissible,
   c01_stv_success_admissible); with an empty script, or a permutation of another set, it raises
   EScript (so those scripts are not admissible, c01_stv_error_inadmissible) *)
Example exa_runs :
  (exists out s', run_stv positive Pos.eqb exa_cfg exa_p (mkM [DPerm [3; 2]] []) = inl (out, s') /\
     map (fun st => (elected st, eliminated st)) out
     = [([[]], [[]]); ([[1]], [[]]); ([[]], [[4]]); ([[]], [[2]]); ([[3]], [[]])]) /\
  run_stv positive Pos.eqb exa_cfg exa_p (mkM [] []) = inr EScript /\
  run_stv positive Pos.eqb exa_cfg exa_p (mkM [DPerm [2; 4]] []) = inr EScript.
Proof.
  split; [eexists; eexists; split; vm_compute; reflexivity|]. split; vm_compute; reflexivity.
Qed.

Example exa_admissible :
  admissible_script positive Pos.eqb exa_cfg exa_p (mkM [DPerm [3; 2]] []) /\
  ~ admissible_script positive Pos.eqb exa_cfg exa_p (mkM [] []) /\
  ~ admissible_script positive Pos.eqb exa_cfg exa_p (mkM [DPerm [2; 4]] []).
Proof.
  destruct exa_runs as ((out & s' & Hok & _) & He1 & He2).
  assert (Hm : (1 <= s_m exa_cfg <= Z.of_nat (length (cands exa_p)))%Z) by (cbn; lia).
  assert (Hcb : s_simul exa_cfg = true \/ exists kind, s_tiebreak exa_cfg = Some kind /\ kind <> TBInvalid)
    by (left; reflexivity).
  split; [|split].
  - apply (c01_stv_success_admissible positive Pos.eqb Pos.eqb_spec exa_cfg exa_p _ s' out
             (proj1 exa_valid) eq_refl eq_refl Hok).
  - apply (c01_stv_error_inadmissible positive Pos.eqb Pos.eqb_spec exa_cfg exa_p _ EScript
             (proj1 exa_valid) eq_refl eq_refl Hm Hcb He1).
  - apply (c01_stv_error_inadmissible positive Pos.eqb Pos.eqb_spec exa_cfg exa_p _ EScript
             (proj1 exa_valid) eq_refl eq_refl Hm Hcb He2).
Qed.

(* the round at which the empty script fails: reached in two rounds, it asks for [[2;3]] *)
Example exa_failing_round :
  match stv_step positive Pos.eqb exa_cfg 4 exa_p 0%Z exa_p (s0_of exa_p) (mkM [] []) with
  | inl ((p1, st1), s1) =>
      match stv_step positive Pos.eqb exa_cfg 4 exa_p 1%Z p1 st1 s1 with
      | inl ((p2, st2), s2) =>
          remaining st2 = [[2; 3]] /\ cands p2 = [2; 3] /\
          (tally positive Pos.eqb 2%positive (ballots p2) < 4)%Q /\ (tally positive Pos.eqb 3%positive (ballots p2) < 4)%Q /\
          count_elected positive [st2; st1; s0_of exa_p] = 1%Z /\
          stv_step positive Pos.eqb exa_cfg 4 exa_p 1%Z p2 st2 s2 = inr EScript
      | inr _ => False
      end
  | inr _ => False
  end.
Proof. vm_compute. repeat split. Qed.

(* (b) one-by-one mode with a shared maximum that Borda separates (A>C x3, B x3, C x1, two seats):
   the round asks for nothing, the EMPTY script is admissible and the count returns *)
Definition exb_p : profile positive := mkProfile [bal [1; 3] 3; bal [2] 3; bal [3] 1] [1; 2; 3].
Definition exb_cfg : stv_cfg := mkStv 2%Z QDroop false TFractional (Some TBBorda).

Example exb_live :
  wf_stv_profile positive exb_p /\
  tb_requests positive Pos.eqb TBBorda exb_p [1; 2] = [] /\
  admissible_script positive Pos.eqb exb_cfg exb_p (mkM [] []) /\
  exists out s', run_stv positive Pos.eqb exb_cfg exb_p (mkM [] []) = inl (out, s') /\
    map (fun st => (elected st, tiebreaks st)) out
    = [([[]], []); ([[1]], [([1; 2], [[1]; [2]])]); ([[2]], [])].
Proof.
  assert (Hv : wf_stv_profile positive exb_p) by valid.
  split; [exact Hv|]. split; [vm_compute; reflexivity|].
  assert (Hrun : exists out s', run_stv positive Pos.eqb exb_cfg exb_p (mkM [] []) = inl (out, s') /\
    map (fun st => (elected st, tiebreaks st)) out
    = [([[]], []); ([[1]], [([1; 2], [[1]; [2]])]); ([[2]], [])])
    by (eexists; eexists; split; vm_compute; reflexivity).
  split; [|exact Hrun]. destruct Hrun as (out & s' & Hok & _).
  apply (c01_stv_success_admissible positive Pos.eqb Pos.eqb_spec exb_cfg exb_p _ s' out
           (proj1 Hv) eq_refl eq_refl Hok).
Qed.

(* (c) the same profile with tiebreak random: every permutation of {A, B} is admissible, and the
   two outcomes of the random choice give two (complete) counts; both elect two candidates *)
Definition exc_cfg : stv_cfg := mkStv 2%Z QDroop false TFractional (Some TBRandom).
Example exc_both_orders :
  (exists out s', run_stv positive Pos.eqb exc_cfg exb_p (mkM [DPerm [1; 2]] []) = inl (out, s') /\
     map elected out = [[[]]; [[1]]; [[2]]]) /\
  (exists out s', run_stv positive Pos.eqb exc_cfg exb_p (mkM [DPerm [2; 1]] []) = inl (out, s') /\
     map elected out = [[[]]; [[2]]; [[1]]]) /\
  run_stv positive Pos.eqb exc_cfg exb_p (mkM [DPerm [1; 3]] []) = inr EScript.
Proof.
  split; [eexists; eexists; split; vm_compute; reflexivity|].
  split; [eexists; eexists; split; vm_compute; reflexivity|vm_compute; reflexivity].
Qed.

(* (d) the hypotheses of c07_droop_pc_live on the profile of Properties/C07.v (five candidates, two
   seats, quota 9, coalition {1,2} worth one quota) with the random tiebreak and the empty script *)
Definition exd_p : profile positive :=
  mkProfile [bal [1; 2] 5; bal [2; 1] 4; bal [3] 7; bal [4; 3] 6; bal [5; 3] 3] [1; 2; 3; 4; 5].
Definition exd_cfg : stv_cfg := mkStv 2%Z QDroop false TFractional (Some TBRandom).
Example exd_hyps :
  wf_stv_profile positive exd_p /\ stv_init positive exd_cfg exd_p = inl 9%Q /\
  NoDup [1; 2] /\ incl [1; 2] (cands exd_p) /\
  (Qnat 1%nat * 9 <= coal_wt positive Pos.eqb [1%positive; 2%positive] (ballots exd_p))%Q /\
  admissible_script positive Pos.eqb exd_cfg exd_p (mkM [] []).
Proof.
  assert (Hv : wf_stv_profile positive exd_p) by valid.
  split; [exact Hv|]. split; [vm_compute; reflexivity|].
  split; [repeat constructor; cbn; intuition discriminate|].
  split; [intros c [<-|[<-|[]]]; cbn; tauto|]. split; [vm_compute; discriminate|].
  destruct (run_stv positive Pos.eqb exd_cfg exd_p (mkM [] [])) as [[out s']|e] eqn:E;
    [|vm_compute in E; discriminate].
  apply (c01_stv_success_admissible positive Pos.eqb Pos.eqb_spec exd_cfg exd_p _ s' out
           (proj1 Hv) eq_refl eq_refl E).
Qed.

End C01LiveExamples.
