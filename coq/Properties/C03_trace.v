(* Properties/C03_trace.v — C03, "across any STV count the total ballot weight never increases from
   one round to the next; it drops only by the threshold consumed for each quota-elected candidate
   and by the weight of ballots left with no surviving choice", stated over the WHOLE trace of a
   run (every round, every transfer rule, every replayed script), from the run alone: the
   threshold's non-negativity and integrality and the admissibility of the script at each round
   are consequences of the run invariant, not premises.  (Per-step versions with these as premises:
   Properties/C03_rounds.v, C03_random.v.)  Statements only; proofs in Proofs/C03_trace.v.

   Vocabulary: stv_trace (Spec/ReplaySpec.v; see the header of Properties/C02_run.v);
   Spec/STVRunSpec.v:
     sample_size t bs w l    l has tally w - t rankings, none exhausted by striking w alone
     samples_dead W ls       sampled rankings that list only candidates of W
     round_accounting cfg t n pr pr' st' sa sb   the loss of the round pr -> pr':
       (E) somebody reaches t: fractional  t * |W| + exhausted_wt W (keep_share ..) (ballots pr),
                               full weight          exhausted_wt W (keep_share ..) (ballots pr),
                               random      t * |W| + one unit per dead sampled ranking, for samples
                                           ls consumed from the script (Forall2 sample_size)
       (D) default election: no ballot had a surviving choice, everything goes
       (X) elimination of x: exactly the ballots listing only x go *)
From VK Require Import Base Core STV Rules EditSpec.
From VK.Spec Require Import STVSpec ReplaySpec STVRunSpec.
From VK.Proofs Require Import C03_trace STV_final.

Section C03_trace.
Variable cand : Type.
Variable ceqb : cand -> cand -> bool.
Hypothesis ceqb_spec : forall a b, reflect (a = b) (ceqb a b).

Notation profile := (profile cand).
Notation estate := (estate cand).
Notation mstate := (mstate cand).
Notation total_wt := (total_wt cand).
Notation wf_stv0 := (wf_stv0 cand).
Notation step_ctx := (step_ctx cand ceqb).
Notation script_ok := (script_ok cand).
Notation stv_trace := (stv_trace cand ceqb).
Notation stv_init := (stv_init cand).
Notation stv_step := (stv_step cand ceqb).
Notation run_stv := (run_stv cand ceqb).
Notation count_elected := (count_elected cand).
Notation round_accounting := (round_accounting cand ceqb).

(* A successful run from a valid-or-empty profile, with its trace (profiles ps, records sts, random
   source ss) and threshold t (non-negative, a whole number):
   - the total weight of a later round never exceeds that of an earlier one;
   - what disappears in each round is exactly what [round_accounting] says;
   - with the fractional or random transfer, the weight in play plus one threshold per candidate
     elected so far never exceeds the initial weight (until a default election empties the count) *)
Theorem c03_run_conservation : forall cfg (p : profile) (s s' : mstate) sts,
  wf_stv0 p -> (s_transfer cfg = TRandom -> script_ok s) ->
  run_stv cfg p s = inl (sts, s') ->
  exists t ps ss,
    stv_init cfg p = inl t /\ stv_trace cfg t p sts ps ss /\
    nth_error ps 0 = Some p /\ nth_error ss 0 = Some s /\ last ss s = s' /\
    0 <= t /\ is_integral t = true /\
    (forall i j pi pj, (i <= j)%nat -> nth_error ps i = Some pi -> nth_error ps j = Some pj ->
       total_wt (ballots pj) <= total_wt (ballots pi)) /\
    (forall r pr pr' st' sa sb,
       nth_error ps r = Some pr -> nth_error ps (S r) = Some pr' ->
       nth_error sts (S r) = Some st' ->
       nth_error ss r = Some sa -> nth_error ss (S r) = Some sb ->
       round_accounting cfg t (count_elected (firstn (S r) sts)) pr pr' st' sa sb) /\
    (s_transfer cfg <> TFullWeight ->
     forall r pr, nth_error ps r = Some pr ->
       (cands pr = [] /\ ballots pr = []) \/
       total_wt (ballots pr) + t * inject_Z (count_elected (firstn (S r) sts))
         <= total_wt (ballots p)).
Proof. exact (run_conservation cand ceqb ceqb_spec). Qed.

(* one round, the three transfer rules and the three kinds of round in one statement *)
Theorem c03_step_accounting : forall cfg t (p0 p : profile) prev n (s s' : mstate) np st,
  step_ctx p0 p prev ->
  stv_step cfg t p0 n p prev s = inl ((np, st), s') ->
  (s_transfer cfg = TRandom -> script_ok s /\ is_integral t = true) ->
  round_accounting cfg t n p np st s s'.
Proof. exact (step_accounting cand ceqb ceqb_spec). Qed.

End C03_trace.

Print Assumptions c03_run_conservation.
Print Assumptions c03_step_accounting.

(* ---------- non-vacuity ---------- *)
Module C03TraceExamples.
Open Scope positive_scope.

Definition bal (r : list positive) (w : Q) : ballot positive :=
  mkBallot (map (fun c => [c]) r) w [] None None.
Ltac valid := apply (wf_stv_profile_b_ok positive Pos.eqb Pos.eqb_spec); vm_compute; reflexivity.

(* the total weight of the profile after each round of a run (replayed from the trace: the
   profile after round r+1 is what stv_step returns from the profile after round r) *)
Fixpoint weights (cfg : stv_cfg) (t : Q) (p0 p : profile positive) (s : mstate positive)
         (done : list (estate positive)) (todo : list (estate positive)) : list Q :=
  match todo with
  | prev :: ((_ :: _) as rest) =>
      match stv_step positive Pos.eqb cfg t p0 (count_elected positive (done ++ [prev])) p prev s with
      | inl ((np, _), s1) =>
          total_wt positive (ballots np) :: weights cfg t p0 np s1 (done ++ [prev]) rest
      | inr _ => []
      end
  | _ => []
  end.

(* (a) random transfer.  A>B>C x4, A x2, B>C x3, C x2; two seats; Droop quota 4; the script
   provides the two samples.  Weights 11 -> 7 -> 3: each election consumes exactly the quota. *)
Definition exa_p : profile positive :=
  mkProfile [bal [1; 2; 3] 4; bal [1] 2; bal [2; 3] 3; bal [3] 2] [1; 2; 3].
Definition exa_cfg : stv_cfg := mkStv 2%Z QDroop true TRandom None.
Definition exa_s : mstate positive := mkM [DRanks [[[2]; [3]]; [[2]; [3]]]; DRanks [[[3]]]] [].

Example exa_run :
  wf_stv0 positive exa_p /\ (s_transfer exa_cfg = TRandom -> script_ok positive exa_s) /\
  match run_stv positive Pos.eqb exa_cfg exa_p exa_s with
  | inl (sts, s') =>
      length sts = 3%nat /\ scr s' = [] /\ stv_init positive exa_cfg exa_p = inl 4%Q /\
      total_wt positive (ballots exa_p) == 11 /\
      Forall2 Qeq (weights exa_cfg 4 exa_p exa_p exa_s [] sts) [7%Q; 3%Q]
  | inr _ => False
  end.
Proof.
  split; [assert (H : wf_stv_profile positive exa_p) by valid; apply H|].
  split; [intros _; repeat constructor|]. vm_compute.
  repeat split; repeat constructor.
Qed.

(* (b) fractional transfer with an elimination and a default election.  A>C x6, B x4, C x1,
   D>C x2; three seats; quota 4.  Weights 13 -> 5 (A and B elected: two quotas; A's surplus 2 goes
   to C, B has no surplus) -> 5 (D eliminated, D>C moves on to C) -> 0 (C elected by default). *)
Definition exb_p : profile positive :=
  mkProfile [bal [1; 3] 6; bal [2] 4; bal [3] 1; bal [4; 3] 2] [1; 2; 3; 4].
Definition exb_cfg : stv_cfg := mkStv 3%Z QDroop true TFractional None.

Example exb_run :
  wf_stv0 positive exb_p /\
  match run_stv positive Pos.eqb exb_cfg exb_p (mkM [] []) with
  | inl (sts, s') =>
      map (fun st => (elected st, eliminated st)) sts
        = [([[]], [[]]); ([[1]; [2]], [[]]); ([[]], [[4]]); ([[3]], [[]])] /\
      total_wt positive (ballots exb_p) == 13 /\
      Forall2 Qeq (weights exb_cfg 4 exb_p exb_p (mkM [] []) [] sts) [5%Q; 5%Q; 0%Q]
  | inr _ => False
  end.
Proof.
  split; [assert (H : wf_stv_profile positive exb_p) by valid; apply H|].
  vm_compute. repeat split; repeat constructor.
Qed.

End C03TraceExamples.
