(* Properties/C02_elim.v — C02, the clause "exactly one candidate with the lowest tally is eliminated
   (ties decided by lowest initial first-place tally, and only then at random)" ON ITS OWN, for every
   configuration — in particular for every value of the configured tiebreak option, which an
   elimination never consults — and its converse "a tie for elimination is always broken and
   recorded".  Statements only; proofs are in Proofs/C02_elim.v.

   Vocabulary (Spec/STVSpec.v, see the header of Properties/C02.v): tally, step_ctx, script_ok,
   min_tally p x (x is a candidate of p with the smallest current tally), tied_with p x low (low =
   exactly the candidates of p whose current tally equals that of x), sorted_by_tally p0 l (l is in
   order of non-increasing tally in p0); stv_trace (Spec/ReplaySpec.v, see Properties/C02_run.v);
   DPerm l is one recorded random.sample permutation replayed from the script [scr]. *)
From VK Require Import Base Core STV Rules EditSpec.
From VK.Spec Require Import STVSpec ScoreSpec TieSpec ReplaySpec STVRunSpec.
From VK.Proofs Require Import C02_elim STV_final.
From Coq Require Import Permutation.

Section C02_elim.
Variable cand : Type.
Variable ceqb : cand -> cand -> bool.
Hypothesis ceqb_spec : forall a b, reflect (a = b) (ceqb a b).

Notation cset := (cset cand).
Notation ranking := (ranking cand).
Notation profile := (profile cand).
Notation estate := (estate cand).
Notation mstate := (mstate cand).
Notation singletons := (singletons cand).
Notation tally := (tally cand ceqb).
Notation wf_stv0 := (wf_stv0 cand).
Notation step_ctx := (step_ctx cand ceqb).
Notation script_ok := (script_ok cand).
Notation stv_trace := (stv_trace cand ceqb).
Notation stv_init := (stv_init cand).
Notation stv_step := (stv_step cand ceqb).
Notation run_stv := (run_stv cand ceqb).
Notation tiebreak_set := (tiebreak_set cand ceqb).
Notation min_tally := (min_tally cand ceqb).
Notation tied_with := (tied_with cand ceqb).
Notation sorted_by_tally := (sorted_by_tally cand ceqb).

(* THE ELIMINATION RULE.  What an elimination round from the current profile p (initial profile p0,
   random source s) leaves in its record st and in the random source s'.  Neither the configuration
   nor the threshold occurs in it.
     - exactly one candidate x is eliminated, nobody is elected;
     - (1) x has the lowest current tally; low = all the candidates sharing it;
     - (2) among low, x has the lowest first-place tally in the INITIAL profile p0; low0 = the
           candidates of low sharing that too;
     - (3a) low = {x}: nothing is recorded, the random source is untouched;
     - (3b) otherwise exactly one tiebreak (low, tt) is recorded; tt is the answer of the first_place
           tiebreak on p0, a strict order of low by non-increasing initial tally ending in x.  The
           draws consumed from the script are permutations [pre] of candidates of low with STRICTLY
           LARGER initial tally than x, followed — exactly when low0 has two or more members — by ONE
           duplicate-free permutation of low0, which is the tail of the recorded order and whose last
           member is x; if low0 = {x} no draw involves x. *)
Definition elim_outcome (p0 p : profile) (st : estate) (s s' : mstate) : Prop :=
  exists (x : cand) (low low0 : cset),
    eliminated st = [[x]] /\ elected st = [[]] /\
    min_tally p x /\ tied_with p x low /\ NoDup low /\
    (forall c, In c low -> tally x (ballots p0) <= tally c (ballots p0)) /\
    (forall c, In c low0 <-> In c low /\ tally c (ballots p0) == tally x (ballots p0)) /\
    NoDup low0 /\
    ((low = [x] /\ tiebreaks st = [] /\ s' = s)
     \/
     ((2 <= length low)%nat /\
      exists (tt : ranking) (l : list cand) (pre : list (list cand)),
        tiebreaks st = [(low, tt)] /\
        tt = singletons (l ++ [x]) /\ Permutation (l ++ [x]) low /\
        sorted_by_tally p0 (l ++ [x]) /\
        tiebreak_set low (Some p0) TBFirstPlace s = inl (tt, s') /\
        Forall (fun lp => forall c, In c lp ->
                  In c low /\ tally x (ballots p0) < tally c (ballots p0)) pre /\
        ((low0 = [x] /\ scr s = map (fun lp => DPerm lp) pre ++ scr s')
         \/
         ((2 <= length low0)%nat /\ exists lx hd,
            scr s = map (fun lp => DPerm lp) pre ++ DPerm (lx ++ [x]) :: scr s' /\
            Permutation (lx ++ [x]) low0 /\ NoDup (lx ++ [x]) /\
            tt = hd ++ singletons (lx ++ [x]))))).

(* (1) one round: nobody reaches the threshold and the candidates left differ from the open seats:
   the round is an elimination by the rule above — for EVERY cfg (quota, mode, transfer, and every
   value of s_tiebreak cfg: None, first_place, borda, random, invalid) *)
Theorem c02_elim_tie_rule : forall cfg t (p0 p : profile) prev n (s s' : mstate) np st,
  step_ctx p0 p prev -> (s_transfer cfg = TRandom -> script_ok s) ->
  stv_step cfg t p0 n p prev s = inl ((np, st), s') ->
  (forall c, In c (cands p) -> tally c (ballots p) < t) ->
  Z.of_nat (length (cands p)) <> (s_m cfg - n)%Z ->
  elim_outcome p0 p st s s'.
Proof. exact (elim_step_rule cand ceqb ceqb_spec). Qed.

(* the same, recognising the round from its record: a successful round that reports an eliminated
   candidate is such an elimination *)
Theorem c02_elim_tie_rule_observed : forall cfg t (p0 p : profile) prev n (s s' : mstate) np st,
  step_ctx p0 p prev -> (s_transfer cfg = TRandom -> script_ok s) ->
  stv_step cfg t p0 n p prev s = inl ((np, st), s') ->
  eliminated st <> [[]] ->
  (forall c, In c (cands p) -> tally c (ballots p) < t) /\
  Z.of_nat (length (cands p)) <> (s_m cfg - n)%Z /\
  elim_outcome p0 p st s s'.
Proof. exact (elim_step_observed cand ceqb ceqb_spec). Qed.

(* the configured tiebreak option is not consulted: a round in which nobody reaches the threshold
   (elimination or default election) depends on the configuration only through the seat count —
   changing s_tiebreak (or quota name, mode, transfer rule) gives the very same result, success or
   error, records and random source included *)
Theorem c02_elim_ignores_tiebreak_option : forall cfg cfg' t (p0 p : profile) prev n (s : mstate),
  step_ctx p0 p prev ->
  (forall c, In c (cands p) -> tally c (ballots p) < t) ->
  s_m cfg' = s_m cfg ->
  stv_step cfg' t p0 n p prev s = stv_step cfg t p0 n p prev s.
Proof. exact (below_threshold_round_cfg cand ceqb ceqb_spec). Qed.

(* (2) ties for elimination are always broken and recorded: with g the (duplicate-free) set of the
   candidates of lowest current tally in an elimination round, if g has two or more members the
   round records exactly one tiebreak, keyed by a permutation of g, whose order is a strict order of
   g ending in the eliminated candidate; if g has fewer, no tiebreak is recorded, no draw is
   consumed, g = {x} and x is eliminated *)
Theorem c02_elim_tie_recorded : forall cfg t (p0 p : profile) prev n (s s' : mstate) np st,
  step_ctx p0 p prev -> (s_transfer cfg = TRandom -> script_ok s) ->
  stv_step cfg t p0 n p prev s = inl ((np, st), s') ->
  (forall c, In c (cands p) -> tally c (ballots p) < t) ->
  Z.of_nat (length (cands p)) <> (s_m cfg - n)%Z ->
  forall g : cset, NoDup g -> (forall c, In c g <-> min_tally p c) ->
  ((2 <= length g)%nat ->
     exists key tt l x, tiebreaks st = [(key, tt)] /\ Permutation key g /\
       tt = singletons (l ++ [x]) /\ Permutation (l ++ [x]) g /\ eliminated st = [[x]]) /\
  ((length g < 2)%nat ->
     tiebreaks st = [] /\ s' = s /\ exists x, g = [x] /\ eliminated st = [[x]]).
Proof. exact (elim_tie_recorded cand ceqb ceqb_spec). Qed.

(* the run: in a successful run from a valid-or-empty profile — any quota, mode, transfer rule and
   tiebreak option — round 0 eliminates nobody and every later round whose record reports an
   eliminated candidate is an elimination by the rule above, on the profile and random-source state
   the trace has at that round (nobody reaches the threshold there, and the candidates left differ
   from the open seats) *)
Theorem c02_elim_tie_rule_run : forall cfg (p : profile) (s s' : mstate) sts,
  wf_stv0 p -> (s_transfer cfg = TRandom -> script_ok s) ->
  run_stv cfg p s = inl (sts, s') ->
  exists t ps ss,
    stv_init cfg p = inl t /\ stv_trace cfg t p sts ps ss /\
    nth_error ps 0 = Some p /\ nth_error ss 0 = Some s /\ last ss s = s' /\
    (forall st0, nth_error sts 0 = Some st0 -> eliminated st0 = [[]]) /\
    forall r pr st sa sb,
      nth_error ps r = Some pr -> nth_error ss r = Some sa ->
      nth_error sts (S r) = Some st -> nth_error ss (S r) = Some sb ->
      eliminated st <> [[]] ->
      (forall c, In c (cands pr) -> tally c (ballots pr) < t) /\
      Z.of_nat (length (cands pr)) <> (s_m cfg - count_elected cand (firstn (S r) sts))%Z /\
      elim_outcome p pr st sa sb.
Proof. exact (elim_run_rule cand ceqb ceqb_spec). Qed.

End C02_elim.

Print Assumptions c02_elim_tie_rule.
Print Assumptions c02_elim_tie_rule_observed.
Print Assumptions c02_elim_ignores_tiebreak_option.
Print Assumptions c02_elim_tie_recorded.
Print Assumptions c02_elim_tie_rule_run.

(* ---------- non-vacuity ---------- *)
Module C02ElimExamples.
Open Scope positive_scope.

Definition bal (r : list positive) (w : Q) : ballot positive :=
  mkBallot (map (fun c => [c]) r) w [] None None.
Ltac valid := apply (wf_stv_profile_b_ok positive Pos.eqb Pos.eqb_spec); vm_compute; reflexivity.

Definition cfg_with (tb : option tb_kind) : stv_cfg := mkStv 1%Z QDroop false TFractional tb.

(* (A) a tie on the current tally resolved by the INITIAL tally, no randomness.
   1 x6, 2 x3, 3 x2, 4>3 x1; one seat; Droop quota 7.  Round 1: 4 (tally 1) goes, its ballot moves to
   3.  Round 2: 2 and 3 share the lowest tally 3; initially 2 had 3 and 3 had 2: 3 goes, the
   tiebreak ({2,3}, 2 > 3) is recorded, the script is empty.  Then 2 goes, then 1 is elected by
   default.  The same under every tiebreak option. *)
Definition exA : profile positive :=
  mkProfile [bal [1] 6; bal [2] 3; bal [3] 2; bal [4; 3] 1] [1; 2; 3; 4].

Example exA_valid : wf_stv0 positive exA.
Proof. assert (H : wf_stv_profile positive exA) by valid. apply H. Qed.

Example exA_run :
  match run_stv positive Pos.eqb (cfg_with None) exA (mkM [] []) with
  | inl (sts, s') =>
      map (@eliminated positive) sts = [[[]]; [[4]]; [[3]]; [[2]]; [[]]] /\
      map (@tiebreaks positive) sts = [[]; []; [([2; 3], [[2]; [3]])]; []; []] /\
      map (@elected positive) sts = [[[]]; [[]]; [[]]; [[]]; [[1]]]
  | inr _ => False
  end.
Proof. vm_compute. repeat split. Qed.

Example exA_any_option :
  run_stv positive Pos.eqb (cfg_with (Some TBRandom)) exA (mkM [] [])
    = run_stv positive Pos.eqb (cfg_with None) exA (mkM [] []) /\
  run_stv positive Pos.eqb (cfg_with (Some TBBorda)) exA (mkM [] [])
    = run_stv positive Pos.eqb (cfg_with None) exA (mkM [] []) /\
  run_stv positive Pos.eqb (cfg_with (Some TBFirstPlace)) exA (mkM [] [])
    = run_stv positive Pos.eqb (cfg_with None) exA (mkM [] []) /\
  run_stv positive Pos.eqb (cfg_with (Some TBInvalid)) exA (mkM [] [])
    = run_stv positive Pos.eqb (cfg_with None) exA (mkM [] []).
Proof. repeat split; vm_compute; reflexivity. Qed.

(* (B) a tie on both tallies resolved by one random draw from the script.
   1 x5, 2 x2, 3 x2, 4 x3; one seat; quota 7.  Round 1: 2 and 3 share the lowest tally 2, also
   initially: one permutation is consumed; with the draw (3, 2) candidate 2 goes, with (2, 3)
   candidate 3 goes; with an empty script the round fails. *)
Definition exB : profile positive :=
  mkProfile [bal [1] 5; bal [2] 2; bal [3] 2; bal [4] 3] [1; 2; 3; 4].

Example exB_valid : wf_stv_profile positive exB.
Proof. valid. Qed.

Definition exB_s0 : estate positive :=
  match initial_state positive Pos.eqb exB with inl s0 => s0 | inr _ => mkState 0%Z [] [] [] [] [] end.

Example exB_ctx : step_ctx positive Pos.eqb exB exB exB_s0.
Proof.
  constructor; try apply exB_valid; [apply incl_refl|].
  split; vm_compute; reflexivity.
Qed.

(* the premises of c02_elim_tie_rule / c02_elim_tie_recorded hold for the first round *)
Example exB_premises :
  (forall c, In c (cands exB) -> (tally positive Pos.eqb c (ballots exB) < 7)%Q) /\
  Z.of_nat (length (cands exB)) <> (s_m (cfg_with None) - 0)%Z.
Proof.
  split; [|vm_compute; discriminate].
  intros c [E|[E|[E|[E|[]]]]]; subst c; vm_compute; reflexivity.
Qed.

Example exB_round1 :
  match stv_step positive Pos.eqb (cfg_with None) 7%Q exB 0%Z exB exB_s0 (mkM [DPerm [3; 2]] []) with
  | inl ((np, st), s') =>
      eliminated st = [[2]] /\ elected st = [[]] /\
      tiebreaks st = [([2; 3], [[3]; [2]])] /\ scr s' = [] /\ cands np = [1; 3; 4]
  | inr _ => False
  end /\
  match stv_step positive Pos.eqb (cfg_with None) 7%Q exB 0%Z exB exB_s0 (mkM [DPerm [2; 3]] []) with
  | inl ((np, st), s') =>
      eliminated st = [[3]] /\ tiebreaks st = [([2; 3], [[2]; [3]])] /\ scr s' = []
  | inr _ => False
  end /\
  stv_step positive Pos.eqb (cfg_with None) 7%Q exB 0%Z exB exB_s0 (mkM [] []) = inr EScript.
Proof. vm_compute. repeat split. Qed.

(* the configured option is irrelevant: borda would separate nobody here either, and is not asked *)
Example exB_any_option :
  stv_step positive Pos.eqb (cfg_with (Some TBBorda)) 7%Q exB 0%Z exB exB_s0 (mkM [DPerm [3; 2]] [])
    = stv_step positive Pos.eqb (cfg_with None) 7%Q exB 0%Z exB exB_s0 (mkM [DPerm [3; 2]] []) /\
  stv_step positive Pos.eqb (cfg_with (Some TBRandom)) 7%Q exB 0%Z exB exB_s0 (mkM [DPerm [3; 2]] [])
    = stv_step positive Pos.eqb (cfg_with None) 7%Q exB 0%Z exB exB_s0 (mkM [DPerm [3; 2]] []) /\
  stv_step positive Pos.eqb (cfg_with (Some TBFirstPlace)) 7%Q exB 0%Z exB exB_s0 (mkM [DPerm [3; 2]] [])
    = stv_step positive Pos.eqb (cfg_with None) 7%Q exB 0%Z exB exB_s0 (mkM [DPerm [3; 2]] []).
Proof. repeat split; vm_compute; reflexivity. Qed.

(* the theorem applies to that round, under any option *)
Example exB_applies : forall tb np st s',
  stv_step positive Pos.eqb (cfg_with tb) 7%Q exB 0%Z exB exB_s0 (mkM [DPerm [3; 2]] [])
    = inl ((np, st), s') ->
  elim_outcome positive Pos.eqb exB exB st (mkM [DPerm [3; 2]] []) s'.
Proof.
  intros tb np st s' H.
  apply (c02_elim_tie_rule positive Pos.eqb Pos.eqb_spec (cfg_with tb) 7%Q exB exB exB_s0 0%Z
           _ s' np st exB_ctx); [intros E; discriminate E|exact H|apply exB_premises|apply exB_premises].
Qed.

Example exB_run :
  match run_stv positive Pos.eqb (cfg_with (Some TBBorda)) exB (mkM [DPerm [3; 2]] []) with
  | inl (sts, s') =>
      scr s' = [] /\
      map (@eliminated positive) sts = [[[]]; [[2]]; [[3]]; [[4]]; [[]]] /\
      map (@tiebreaks positive) sts = [[]; [([2; 3], [[3]; [2]])]; []; []; []] /\
      map (@elected positive) sts = [[[]]; [[]]; [[]]; [[]]; [[1]]]
  | inr _ => False
  end.
Proof. vm_compute. repeat split. Qed.

(* (C) both levels at once, and a draw that does not involve the eliminated candidate.
   1 x6, 2 x3, 3 x3, 4 x2, 5>4 x1; one seat; quota 8.  Round 1: 5 goes, 4 rises to 3.  Round 2: 2, 3
   and 4 share the lowest tally 3; initially 2 and 3 had 3 and 4 had 2: 4 goes — it is alone on the
   lowest initial tally — but the first_place tiebreak orders the whole tied set, so one permutation
   of {2,3} (strictly larger initial tallies) is consumed for the recorded order 3 > 2 > 4.
   Round 3: 2 and 3 tie on both tallies: a second draw (2, 3) eliminates 3. *)
Definition exC : profile positive :=
  mkProfile [bal [1] 6; bal [2] 3; bal [3] 3; bal [4] 2; bal [5; 4] 1] [1; 2; 3; 4; 5].

Example exC_run :
  wf_stv0 positive exC /\
  match run_stv positive Pos.eqb (cfg_with (Some TBInvalid)) exC
          (mkM [DPerm [3; 2]; DPerm [2; 3]] []) with
  | inl (sts, s') =>
      scr s' = [] /\
      map (@eliminated positive) sts = [[[]]; [[5]]; [[4]]; [[3]]; [[2]]; [[]]] /\
      map (@tiebreaks positive) sts =
        [[]; []; [([2; 3; 4], [[3]; [2]; [4]])]; [([2; 3], [[2]; [3]])]; []; []]
  | inr _ => False
  end.
Proof.
  split; [assert (H : wf_stv_profile positive exC) by valid; apply H|].
  vm_compute. repeat split.
Qed.

End C02ElimExamples.
