(* Properties/C10_closed.v — C10: the two theorems that Properties/C10.v states as `_partial`
   (c10_condo_tiebreak_partial, c10_stv_tiebreak_partial), at full strength.  Statements only;
   proofs are in Proofs/C10_closed.v.

   CondoBorda: on the C06 input domain [untied_profile p] (Spec/PairwiseSpec.v) every dominating
   tier is a duplicate-free subset of the candidates, hence the premises [NoDup g] and
   [incl g (cands p)] of the partial statement are theorems.
   STV: on valid STV profiles ([wf_stv_profile], Spec/STVSpec.v) the tied lowest group of every
   round consists of candidates of the initial profile, hence the premise [incl g (cands p)] of the
   elimination case is a theorem. *)
From VK Require Import Base Core STV Pairwise Rules.
From VK.Spec Require Import ScoreSpec TieSpec PairwiseSpec STVSpec.
From VK.Proofs Require Import C10_closed STV_final.
From Coq Require Import Permutation.

Section C10_closed.
Variable cand : Type.
Variable ceqb : cand -> cand -> bool.
Hypothesis ceqb_spec : forall a b, reflect (a = b) (ceqb a b).

Notation cset := (cset cand).
Notation ranking := (ranking cand).
Notation profile := (profile cand).
Notation mstate := (mstate cand).
Notation estate := (estate cand).
Notation flat := (flat cand).
Notation singletons := (singletons cand).
Notation tiebreak_set := (tiebreak_set cand ceqb).
Notation run_stv := (run_stv cand ceqb).
Notation run_condo := (run_condo cand ceqb).
Notation dominating_tiers := (dominating_tiers cand ceqb).
Notation tied_at := (tied_at cand).
Notation untied_profile := (untied_profile cand).
Notation wf_stv_profile := (wf_stv_profile cand).

(* CondoBorda: a run is [s0; s1]; a recorded pair (g, t) of s1 is the only one; g is a whole
   dominating tier — duplicate-free, made of candidates of p, with at least two members — and seat
   m falls strictly inside it; t was returned by the Borda tiebreak of g on p; it is a list of
   singletons, a duplicate-free permutation of g; the elected groups are the tiers before g followed
   by the first j entries of t, the remaining groups are the other entries of t followed by the
   tiers after g. *)
Theorem c10_condo_tiebreak : forall m (p : profile) (s s' : mstate) s0 s1 g t,
  untied_profile p ->
  run_condo m p s = inl ([s0; s1], s') ->
  In (g, t) (tiebreaks s1) ->
  exists tiers pre post j l,
    dominating_tiers p = inl tiers /\ tiebreaks s1 = [(g, t)] /\
    tiebreak_set g (Some p) TBBorda s = inl (t, s') /\
    tiers = pre ++ g :: post /\ (2 <= length g)%nat /\
    (Z.of_nat (length (flat pre)) < m < Z.of_nat (length (flat pre) + length g))%Z /\
    j = (Z.to_nat m - length (flat pre))%nat /\
    elected s1 = pre ++ firstn j t /\ remaining s1 = skipn j t ++ post /\
    NoDup g /\ incl g (cands p) /\
    t = singletons l /\ Permutation l g /\ NoDup l.
Proof. exact (c10_condo_closed_proof cand ceqb ceqb_spec). Qed.

(* STV with fractional or full-weight transfer on a valid profile, every round prev -> st of a
   successful run, with t the threshold: a recorded pair (g, tt) is the only one of its round; g is
   duplicate-free, made of candidates of the initial profile, with at least two members; and either
   - (one-by-one election) g is the top group of the previous ranking, its members share the tally
     k, the largest tally, which reaches the threshold; tt was returned by [tiebreak_set g] on the
     current profile with the configured tiebreak, is a strict order of g, and its first entry is
     the elected group; or
   - (elimination) nobody reaches the threshold, g is the last group of the previous ranking, its
     members share the tally k, the smallest tally; tt was returned by the first-place tiebreak on
     the INITIAL profile, is a strict order of g, and its last entry x is the eliminated
     candidate. *)
Theorem c10_stv_tiebreak : forall cfg (p : profile) (s s' : mstate) sts,
  s_transfer cfg <> TRandom -> wf_stv_profile p ->
  run_stv cfg p s = inl (sts, s') ->
  exists t, stv_init cand cfg p = inl t /\
  forall l1 prev st l2 g tt, sts = l1 ++ prev :: st :: l2 -> In (g, tt) (tiebreaks st) ->
    tiebreaks st = [(g, tt)] /\ (2 <= length g)%nat /\ NoDup g /\ incl g (cands p) /\
    ((exists (pc : profile) (sa sb : mstate) post kind k,
        s_simul cfg = false /\ s_tiebreak cfg = Some kind /\ remaining prev = g :: post /\
        tied_at (escores prev) g k /\ t <= k /\ (forall c q, In (c, q) (escores prev) -> q <= k) /\
        tiebreak_set g (Some pc) kind sa = inl (tt, sb) /\
        elected st = firstn 1 tt /\ eliminated st = no_group cand /\
        exists l, tt = singletons l /\ Permutation l g /\ NoDup l)
     \/
     (exists (sa sb : mstate) rest x k l l',
        filter (fun q => Qle_bool t (snd q)) (escores prev) = [] /\
        rev (remaining prev) = g :: rest /\
        tied_at (escores prev) g k /\ (forall c q, In (c, q) (escores prev) -> k <= q) /\
        tiebreak_set g (Some p) TBFirstPlace sa = inl (tt, sb) /\
        eliminated st = [[x]] /\ elected st = no_group cand /\
        tt = singletons l /\ Permutation l g /\ NoDup l /\ l = l' ++ [x])).
Proof.
  exact (fun cfg p s s' sts Hk Hwf =>
           c10_stv_closed_proof cand ceqb ceqb_spec cfg p s s' sts Hk (proj1 Hwf)).
Qed.

End C10_closed.

Print Assumptions c10_condo_tiebreak.
Print Assumptions c10_stv_tiebreak.

(* ================================================================== *)
(** * Non-vacuity: concrete runs (cand := positive) that satisfy the hypotheses and record a tie *)
Module C10ClosedExamples.
Open Scope positive_scope.

Definition B (l : list positive) (w : Q) : ballot positive :=
  plain_ballot positive (Core.singletons positive l) w.

Ltac solve_nodup :=
  repeat (constructor; [cbn; intuition discriminate|]); constructor.
Ltac solve_untied_ballot :=
  split; [discriminate|]; split; [repeat constructor|]; split; [solve_nodup|];
  split; [intros x Hx; cbn in Hx |- *; intuition|]; split; [intros x []|reflexivity].
Ltac solve_untied :=
  split; [solve_nodup|]; split; [discriminate|]; repeat (constructor; [solve_untied_ballot|]); constructor.

(* (a) CondoBorda, two seats, a 3-cycle 1 > 2 > 3 > 1 as top tier: the tier [1;3;2] straddles the
   seat boundary; Borda puts 1 first and one recorded draw orders 3 and 2 *)
Definition p_cycle : profile positive :=
  mkProfile [B [1;2;3] 1; B [2;3;1] 1; B [3;1;2] 1; B [1] (1#2)] [1;2;3;4].

Example c10c_ex_condo :
  untied_profile positive p_cycle /\
  exists s0 s1 s',
    Rules.run_condo positive Pos.eqb 2 p_cycle (mkM [DPerm [3;2]] []) = inl ([s0; s1], s') /\
    In ([1;3;2], [[1];[3];[2]]) (tiebreaks s1) /\
    elected s1 = [[1];[3]] /\ remaining s1 = [[2];[4]].
Proof.
  split; [solve_untied|]. vm_compute. do 3 eexists. split; [reflexivity|].
  split; [left; reflexivity|]. split; reflexivity.
Qed.

(* (b) STV, one seat, Droop threshold 3: nobody reaches it, candidates 2 and 3 tie for
   elimination (tally 1 each, tied on initial first-place votes too): one recorded draw, the last
   of the drawn order (3) is eliminated *)
Definition p_stv : profile positive := mkProfile [B [1] 2; B [2] 1; B [3] 1] [1;2;3].
Definition cfg1 : stv_cfg := mkStv 1 QDroop true TFractional (Some TBRandom).

Example c10c_ex_stv :
  s_transfer cfg1 <> TRandom /\ wf_stv_profile positive p_stv /\
  exists sts s',
    STV.run_stv positive Pos.eqb cfg1 p_stv (mkM [DPerm [2;3]] []) = inl (sts, s') /\
    map (@tiebreaks positive) sts = [[]; [([2;3], [[2];[3]])]; []; []] /\
    map (@eliminated positive) sts = [[[]]; [[3]]; [[2]]; [[]]] /\
    map (@elected positive) sts = [[[]]; [[]]; [[]]; [[1]]].
Proof.
  split; [discriminate|].
  split; [apply (wf_stv_profile_b_ok positive Pos.eqb Pos.eqb_spec); vm_compute; reflexivity|].
  vm_compute. do 2 eexists. repeat split.
Qed.

End C10ClosedExamples.
