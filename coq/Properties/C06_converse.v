(* Properties/C06_converse.v — C06, the sentence "the top tier is the Smith set and is a single
   candidate exactly when a Condorcet winner exists": both directions, with the SAME candidate on both
   sides, uniqueness of the Condorcet winner, and the link to the query functions
   has_condorcet_winner / get_condorcet_winner.  Statements only; proofs are in Proofs/C06_converse.v
   (on top of Proofs/C06_tiers.v).  (Properties/C06.v already has: c06_smith — the top tier is the
   Smith set; c06_condorcet_iff — has_condorcet_winner = true iff a Condorcet winner exists, and a
   Condorcet winner is the top tier.  Missing there: a singleton top tier IS a Condorcet winner.)

   Vocabulary (Spec/PairwiseSpec.v): [pref_weight bs a b] = weight of the original ballots ranking a
   above b (listed beats unlisted, two unlisted split evenly); [margin bs a b] = pref_weight bs a b -
   pref_weight bs b a.  "c is a Condorcet winner" is spelled out in every statement as
       In c (cands p) /\ forall d, In d (cands p) -> d <> c -> 0 < margin (ballots p) c d.
   [get_condorcet_winner] (Spec/CondorcetWinnerFn.v) is the Python method read line by line on top of
   the model's has_condorcet_winner and dominating_tiers (the model file has no such function).

   Input domain [untied_profile p], as for all C06 theorems: duplicate-free candidates, at least one
   ballot, every ballot a non-empty untied ranking without repetition over known candidates, of
   positive weight.  Hence there is at least one candidate and the total weight is positive; a profile
   with ONE candidate is in the domain (that candidate is vacuously a Condorcet winner and the model
   answers [[c]], true, c: see ex_one below).  Empty candidate lists and all-zero weights are outside
   the domain; there the model (like the Python code) has NO tier and the query functions raise
   IndexError: recorded at the end as Examples and as c06_cw_iff_zero_weight_refuted. *)
From VK Require Import Base Core STV Pairwise Rules.
From VK.Spec Require Import PairwiseSpec CondorcetWinnerFn.
From VK.Proofs Require Import C06_converse.
From Coq Require Import Permutation.

Section C06_converse.
Variable cand : Type.
Variable ceqb : cand -> cand -> bool.
Hypothesis ceqb_spec : forall a b, reflect (a = b) (ceqb a b).

Notation cset := (cset cand).
Notation ranking := (ranking cand).
Notation ballot := (ballot cand).
Notation profile := (profile cand).
Notation pref_weight := (pref_weight cand ceqb).
Notation margin := (margin cand ceqb).
Notation untied_profile := (untied_profile cand).
Notation dominating_tiers := (dominating_tiers cand ceqb).
Notation has_condorcet_winner := (has_condorcet_winner cand ceqb).
Notation get_condorcet_winner := (get_condorcet_winner cand ceqb).

(* a strictly positive margin is "more weight ranks a above b than b above a"; every ballot list *)
Theorem c06_margin_pos_iff : forall (bs : list ballot) (a b : cand),
  0 < margin bs a b <-> pref_weight bs b a < pref_weight bs a b.
Proof. exact (c06_margin_pos_iff_proof cand ceqb). Qed.

(* 1. converse: if the top tier the model computes is the one-element set {c}, then c is a candidate
   and beats every other candidate with a strictly positive margin *)
Theorem c06_top_singleton_is_cw : forall p : profile, untied_profile p ->
  forall (T0 : cset) (rest : ranking) (c : cand),
  dominating_tiers p = inl (T0 :: rest) -> Permutation T0 [c] ->
  In c (cands p) /\ forall d, In d (cands p) -> d <> c -> 0 < margin (ballots p) c d.
Proof. exact (c06_top_singleton_is_cw_proof cand ceqb ceqb_spec). Qed.

(* the same, with "one-element set containing c" written as length 1 and membership, and the
   conclusion written with the two head-to-head weights *)
Theorem c06_top_singleton_is_cw_pw : forall p : profile, untied_profile p ->
  forall (T0 : cset) (rest : ranking) (c : cand),
  dominating_tiers p = inl (T0 :: rest) -> length T0 = 1%nat -> In c T0 ->
  In c (cands p) /\
  forall d, In d (cands p) -> d <> c -> pref_weight (ballots p) d c < pref_weight (ballots p) c d.
Proof. exact (c06_top_singleton_is_cw_pw_proof cand ceqb ceqb_spec). Qed.

(* 2. forward: if c beats every other candidate with a strictly positive margin, then the top tier is
   exactly {c} *)
Theorem c06_cw_is_top_singleton : forall p : profile, untied_profile p ->
  forall (T0 : cset) (rest : ranking) (c : cand),
  dominating_tiers p = inl (T0 :: rest) ->
  In c (cands p) -> (forall d, In d (cands p) -> d <> c -> 0 < margin (ballots p) c d) ->
  Permutation T0 [c] /\ length T0 = 1%nat /\ In c T0.
Proof. exact (c06_cw_is_top_singleton_proof cand ceqb ceqb_spec). Qed.

(* 3. the iff: for EVERY c, the top tier is {c} exactly when c is a Condorcet winner; the top tier has
   one element exactly when a Condorcet winner exists; it has two or more exactly when none exists *)
Theorem c06_top_singleton_iff_cw : forall p : profile, untied_profile p ->
  forall (T0 : cset) (rest : ranking), dominating_tiers p = inl (T0 :: rest) ->
  (forall c, Permutation T0 [c] <->
     (In c (cands p) /\ forall d, In d (cands p) -> d <> c -> 0 < margin (ballots p) c d)) /\
  (length T0 = 1%nat <->
     exists c, In c (cands p) /\ forall d, In d (cands p) -> d <> c -> 0 < margin (ballots p) c d) /\
  ((2 <= length T0)%nat <->
     ~ exists c, In c (cands p) /\ forall d, In d (cands p) -> d <> c -> 0 < margin (ballots p) c d).
Proof. exact (c06_top_singleton_iff_cw_proof cand ceqb ceqb_spec). Qed.

(* the packaged existential form (dominating_tiers never fails on the domain: c06_tiers_top_exists) *)
Theorem c06_cw_exists_iff : forall p : profile, untied_profile p ->
  (exists c rest, dominating_tiers p = inl ([c] :: rest)) <->
  (exists c, In c (cands p) /\ forall d, In d (cands p) -> d <> c -> 0 < margin (ballots p) c d).
Proof. exact (c06_cw_exists_iff_proof cand ceqb ceqb_spec). Qed.

(* a profile has at most one Condorcet winner; EVERY profile, no domain hypothesis *)
Theorem c06_cw_unique : forall (p : profile) (c c' : cand),
  (In c (cands p) /\ forall d, In d (cands p) -> d <> c -> 0 < margin (ballots p) c d) ->
  (In c' (cands p) /\ forall d, In d (cands p) -> d <> c' -> 0 < margin (ballots p) c' d) ->
  c = c'.
Proof. exact (c06_cw_unique_proof cand ceqb ceqb_spec). Qed.

(* 4. has_condorcet_winner: True exactly when the top tier is a singleton, exactly when a Condorcet
   winner exists; False exactly when none exists (so it never fails) *)
Theorem c06_has_cw_model : forall p : profile, untied_profile p ->
  (has_condorcet_winner p = inl true <-> exists c rest, dominating_tiers p = inl ([c] :: rest)) /\
  (has_condorcet_winner p = inl true <->
     exists c, In c (cands p) /\ forall d, In d (cands p) -> d <> c -> 0 < margin (ballots p) c d) /\
  (has_condorcet_winner p = inl false <->
     ~ exists c, In c (cands p) /\ forall d, In d (cands p) -> d <> c -> 0 < margin (ballots p) c d).
Proof. exact (c06_has_cw_model_proof cand ceqb ceqb_spec). Qed.

(* get_condorcet_winner returns c exactly when c is the Condorcet winner, raises ValueError exactly
   when there is none, and does nothing else *)
Theorem c06_get_cw_model : forall p : profile, untied_profile p ->
  (forall c, get_condorcet_winner p = inl c <->
     (In c (cands p) /\ forall d, In d (cands p) -> d <> c -> 0 < margin (ballots p) c d)) /\
  (get_condorcet_winner p = inr EValue <->
     ~ exists c, In c (cands p) /\ forall d, In d (cands p) -> d <> c -> 0 < margin (ballots p) c d) /\
  ((exists c, get_condorcet_winner p = inl c) \/ get_condorcet_winner p = inr EValue).
Proof. exact (c06_get_cw_model_proof cand ceqb ceqb_spec). Qed.

End C06_converse.

Print Assumptions c06_margin_pos_iff.
Print Assumptions c06_top_singleton_is_cw.
Print Assumptions c06_top_singleton_is_cw_pw.
Print Assumptions c06_cw_is_top_singleton.
Print Assumptions c06_top_singleton_iff_cw.
Print Assumptions c06_cw_exists_iff.
Print Assumptions c06_cw_unique.
Print Assumptions c06_has_cw_model.
Print Assumptions c06_get_cw_model.

(* ------------------------------------------------------------------ *)
(* Non-vacuity *)
Open Scope positive_scope.

Definition B (l : list positive) (w : Q) : Core.ballot positive :=
  plain_ballot positive (Core.singletons positive l) w.

Ltac solve_nodup :=
  repeat (constructor; [cbn; intuition discriminate|]); constructor.
Ltac solve_untied_ballot :=
  split; [discriminate|]; split; [repeat constructor|]; split; [solve_nodup|];
  split; [intros x Hx; cbn in Hx |- *; intuition|]; split; [intros x []|reflexivity].
Ltac solve_untied :=
  split; [solve_nodup|]; split; [discriminate|]; repeat (constructor; [solve_untied_ballot|]); constructor.

Definition is_cw (p : Core.profile positive) (c : positive) : Prop :=
  In c (cands p) /\ forall d, In d (cands p) -> d <> c -> (0 < margin positive Pos.eqb (ballots p) c d)%Q.

(* (a) a Condorcet winner that is far from a majority winner, with partial ballots and a zero-vote
   candidate: first places 1: 4, 3: 3, 2: 2 (of 9), yet 2 beats 1 by 5-4, 3 by 6-3 and 4 by 9-0 *)
Definition ex_cw_minority : Core.profile positive :=
  mkProfile [B [1;2] 4; B [3;2;1] 3; B [2] 2] [1;2;3;4].

Example ex_cw_minority_untied : untied_profile positive ex_cw_minority.
Proof. solve_untied. Qed.

Example ex_cw_minority_values :
  dominating_tiers positive Pos.eqb ex_cw_minority = inl [[2]; [1]; [3]; [4]] /\
  has_condorcet_winner positive Pos.eqb ex_cw_minority = inl true /\
  get_condorcet_winner positive Pos.eqb ex_cw_minority = inl 2 /\
  margin positive Pos.eqb (ballots ex_cw_minority) 2 1 == 1 /\
  margin positive Pos.eqb (ballots ex_cw_minority) 2 3 == 3 /\
  margin positive Pos.eqb (ballots ex_cw_minority) 2 4 == 9 /\
  margin positive Pos.eqb (ballots ex_cw_minority) 1 3 == 1 /\      (* ballot (2) splits 1 | 1 *)
  is_cw ex_cw_minority 2.
Proof.
  repeat (split; [vm_compute; reflexivity|]).
  split; [cbn; intuition|]. intros d Hd Hne. cbn in Hd.
  destruct Hd as [<-|[<-|[<-|[<-|[]]]]]; [|congruence| |]; vm_compute; reflexivity.
Qed.

(* the converse theorem applied: from the computed tiers alone, 2 is a Condorcet winner *)
Example ex_cw_minority_by_theorem : is_cw ex_cw_minority 2.
Proof.
  apply (c06_top_singleton_is_cw positive Pos.eqb Pos.eqb_spec ex_cw_minority ex_cw_minority_untied
           [2] [[1]; [3]; [4]] 2); [vm_compute; reflexivity|apply Permutation_refl].
Qed.

(* (b) a 3-cycle 1 > 2 > 3 > 1 (plus a partial ballot and the zero-vote candidate 4): top tier of
   size 3, no Condorcet winner, get_condorcet_winner raises ValueError *)
Definition ex_cycle3 : Core.profile positive :=
  mkProfile [B [1;2;3] 1; B [2;3;1] 1; B [3;1;2] 1; B [1] (1#2)] [1;2;3;4].

Example ex_cycle3_untied : untied_profile positive ex_cycle3.
Proof. solve_untied. Qed.

Example ex_cycle3_values :
  dominating_tiers positive Pos.eqb ex_cycle3 = inl [[1;3;2]; [4]] /\
  has_condorcet_winner positive Pos.eqb ex_cycle3 = inl false /\
  get_condorcet_winner positive Pos.eqb ex_cycle3 = inr EValue /\
  Qlt 0 (margin positive Pos.eqb (ballots ex_cycle3) 1 2) /\
  Qlt 0 (margin positive Pos.eqb (ballots ex_cycle3) 2 3) /\
  Qlt 0 (margin positive Pos.eqb (ballots ex_cycle3) 3 1).
Proof. repeat (split; [vm_compute; reflexivity|]). vm_compute; reflexivity. Qed.

Example ex_cycle3_no_cw : ~ exists c, is_cw ex_cycle3 c.
Proof.
  apply (proj2 (proj2 (c06_top_singleton_iff_cw positive Pos.eqb Pos.eqb_spec ex_cycle3 ex_cycle3_untied
                         [1;3;2] [[4]] ltac:(vm_compute; reflexivity)))).
  cbn [length]. repeat constructor.
Qed.

(* (c) a pairwise tie 1 ~ 2, both beating 3: top tier with 2 members, no Condorcet winner *)
Definition ex_tie2 : Core.profile positive :=
  mkProfile [B [1;2] 1; B [2;1] 1; B [3] (1#3)] [1;2;3].

Example ex_tie2_untied : untied_profile positive ex_tie2.
Proof. solve_untied. Qed.

Example ex_tie2_values :
  dominating_tiers positive Pos.eqb ex_tie2 = inl [[2;1]; [3]] /\
  has_condorcet_winner positive Pos.eqb ex_tie2 = inl false /\
  get_condorcet_winner positive Pos.eqb ex_tie2 = inr EValue /\
  margin positive Pos.eqb (ballots ex_tie2) 1 2 == 0 /\
  margin positive Pos.eqb (ballots ex_tie2) 1 3 == 5#3 /\
  margin positive Pos.eqb (ballots ex_tie2) 2 3 == 5#3.
Proof. repeat (split; [vm_compute; reflexivity|]). vm_compute; reflexivity. Qed.

(* (d) degenerate, INSIDE the domain: one candidate.  It is vacuously a Condorcet winner and the
   model agrees *)
Definition ex_one : Core.profile positive := mkProfile [B [1] (2#3)] [1].

Example ex_one_untied : untied_profile positive ex_one.
Proof. solve_untied. Qed.

Example ex_one_values :
  dominating_tiers positive Pos.eqb ex_one = inl [[1]] /\
  has_condorcet_winner positive Pos.eqb ex_one = inl true /\
  get_condorcet_winner positive Pos.eqb ex_one = inl 1 /\
  is_cw ex_one 1.
Proof.
  repeat (split; [vm_compute; reflexivity|]).
  split; [left; reflexivity|]. intros d [<-|[]] Hne. congruence.
Qed.

(* (e) degenerate, OUTSIDE the domain (not covered by the theorems; recorded for the reader).
   mk_profile inside ballot_fill drops zero-weight ballots and rebuilds the candidate list from the
   remaining ballots, so without a ballot of positive weight there are no tiers at all and
   has_condorcet_winner / get_condorcet_winner raise IndexError (the Python code does the same:
   "list index out of range"):
   - all weights zero, two candidates (every margin 0, no Condorcet winner): IndexError, not False;
   - no ballots, two candidates: the same;
   - no candidates, no ballots: the same;
   - all weights zero, ONE candidate: see c06_cw_iff_zero_weight_refuted below. *)
Definition ex_zero2 : Core.profile positive := mkProfile [B [1;2] 0; B [2] 0] [1;2].
Definition ex_noballot : Core.profile positive := mkProfile [] [1;2].
Definition ex_empty : Core.profile positive := mkProfile [] [].

Example ex_zero2_values :
  dominating_tiers positive Pos.eqb ex_zero2 = inl [] /\
  has_condorcet_winner positive Pos.eqb ex_zero2 = inr EIndex /\
  margin positive Pos.eqb (ballots ex_zero2) 1 2 == 0.
Proof. repeat (split; [vm_compute; reflexivity|]). vm_compute; reflexivity. Qed.

Example ex_noballot_values :
  dominating_tiers positive Pos.eqb ex_noballot = inl [] /\
  has_condorcet_winner positive Pos.eqb ex_noballot = inr EIndex /\
  get_condorcet_winner positive Pos.eqb ex_noballot = inr EIndex.
Proof. repeat (split; [vm_compute; reflexivity|]). vm_compute; reflexivity. Qed.

Example ex_empty_values :
  dominating_tiers positive Pos.eqb ex_empty = inl [] /\
  has_condorcet_winner positive Pos.eqb ex_empty = inr EIndex /\
  get_condorcet_winner positive Pos.eqb ex_empty = inr EIndex.
Proof. repeat (split; [vm_compute; reflexivity|]). vm_compute; reflexivity. Qed.

(* The premise "every ballot has positive weight" cannot be weakened to "non-negative weight": one
   candidate and one ballot of weight 0 satisfy every other clause of untied_profile, the candidate is
   (vacuously) a Condorcet winner, yet there is no top tier and both query functions raise IndexError.
   So outside the domain "a Condorcet winner exists -> the top tier is that candidate" fails. *)
Theorem c06_cw_iff_zero_weight_refuted :
  exists (p : Core.profile positive) (c : positive),
    NoDup (cands p) /\ ballots p <> [] /\
    Forall (fun x => rk x <> [] /\ Forall (fun g => length g = 1%nat) (rk x) /\
                     NoDup (listing positive x) /\ incl (listing positive x) (cands p) /\
                     incl (map fst (sc x)) (cands p) /\ (0 <= wt x)%Q) (ballots p) /\
    (In c (cands p) /\
     forall d, In d (cands p) -> d <> c -> (0 < margin positive Pos.eqb (ballots p) c d)%Q) /\
    dominating_tiers positive Pos.eqb p = inl [] /\
    has_condorcet_winner positive Pos.eqb p = inr EIndex /\
    get_condorcet_winner positive Pos.eqb p = inr EIndex.
Proof. exact c06_cw_iff_zero_weight_refuted_proof. Qed.
Print Assumptions c06_cw_iff_zero_weight_refuted.
