(* Properties/C20_rules2.v — C20, second complement to Properties/C20.v and C20_more.v: FORWARD
   error theorems at the level of the run.  "Precondition X violated => [run_rule R p s] is
   [inr <documented error>] for EVERY script s" — hence no partial result (the result is a sum type)
   and, when the statement quantifies over every s, no draw consumed (the empty script gives the
   same error).  Statements only; proofs are in Proofs/C20_rules2.v.

   1. BlocPlurality's budget k.                    4. a non-positive seat count, rule by rule.
   2. Alaska with an unknown quota name.           5. an empty score vector for Borda.
   3. a tied ballot reaching Alaska's STV stage.   6. GeneralRating / Limited argument checks.

   Vocabulary: [rating_args_ok/bad], [score_ballot_ok/bad] (Spec/RatingSpec.v), [bloc_budget]
   (Spec/OneShotSpec.v: k if k is given and non-zero, else m), [wf_profile] (Spec/ScoreSpec.v),
   [wf_stv0], [integral_weights] (Spec/STVSpec.v).

   Findings (model and Python agree on all of them; checked against /repo/src at HEAD):
   - Alaska's unknown quota name is NOT refused up front: the STV object is built inside the second
     _run_step, after the Plurality stage has run — so a tiebreak draw of that stage is consumed
     first, and an error of that stage wins ([c20_alaska_bad_quota_not_upfront_refuted]).
   - a tied ballot is accepted by Alaska's constructor and by its Plurality stage; TypeError is
     raised only if the tie survives the cut; if the tied candidates are eliminated the run
     succeeds ([ex_alaska_tie_eliminated]).
   - Borda(score_vector = []) is Borda(score_vector = None) (`if not score_vector`), and
     BlocPlurality(k = 0) is BlocPlurality(k = None) (`if not k`): no error. *)
From VK Require Import Base Core STV Pairwise Rules PV Election.
From VK.Spec Require Import ScoreSpec RatingSpec STVSpec OneShotSpec UpfrontSpec.
From VK.Proofs Require Import STV_final C20_rules2.
From Coq Require Import Permutation.

(* ================================================================== *)
(** * 6 (arguments only, no candidates involved) *)

(* GeneralRating's argument check fails iff m <= 0, L <= 0, or a budget is given with k <= 0 or
   k < L — and then always with ValueError *)
Theorem c20_rating_args_err_iff : forall m L k e,
  rating_args m L k = inr e <->
  e = EValue /\ ((m <= 0)%Z \/ L <= 0 \/ exists k', k = Some k' /\ (k' <= 0 \/ k' < L)).
Proof. exact rating_args_err_iff. Qed.

(* BlocPlurality(m, k) hands GeneralRating L = 1 and the budget [bloc_budget m k]: ValueError iff
   m <= 0 or the budget is <= 0, i.e. iff m <= 0 or k is a negative number (k = None and k = 0
   fall back to m); no other exception; accepted iff m >= 1 and budget >= 1; the "inconsistent"
   case L > k cannot occur on its own: an integer budget >= 1 is never below L = 1 *)
Theorem c20_bloc_args : forall m k,
  (rating_args m 1 (Some (inject_Z (bloc_budget m k))) = inr EValue <->
     (m <= 0 \/ bloc_budget m k <= 0)%Z) /\
  ((m <= 0 \/ bloc_budget m k <= 0)%Z <-> ((m <= 0)%Z \/ exists x, k = Some x /\ (x < 0)%Z)) /\
  (forall e, rating_args m 1 (Some (inject_Z (bloc_budget m k))) = inr e -> e = EValue) /\
  (rating_args m 1 (Some (inject_Z (bloc_budget m k))) = inl tt <->
     (1 <= m /\ 1 <= bloc_budget m k)%Z) /\
  ((1 <= bloc_budget m k)%Z -> ~ inject_Z (bloc_budget m k) < 1).
Proof. exact bloc_args. Qed.

Theorem c20_bloc_budget : forall m k,
  (k = None \/ k = Some 0%Z -> bloc_budget m k = m) /\
  (forall x, k = Some x -> x <> 0%Z -> bloc_budget m k = x).
Proof. exact bloc_budget_cases. Qed.

Print Assumptions c20_rating_args_err_iff.
Print Assumptions c20_bloc_args.
Print Assumptions c20_bloc_budget.

Section C20.
Variable cand : Type.
Variable ceqb : cand -> cand -> bool.
Hypothesis ceqb_spec : forall a b, reflect (a = b) (ceqb a b).

Notation ballot := (ballot cand).
Notation profile := (profile cand).
Notation mstate := (mstate cand).
Notation flat := (flat cand).
Notation wf_profile := (wf_profile cand).
Notation wf_stv0 := (wf_stv0 cand).
Notation integral_weights := (integral_weights cand).
Notation score_ballot_ok := (score_ballot_ok cand).
Notation score_ballot_bad := (score_ballot_bad cand).
Notation first_place_votes := (first_place_votes cand ceqb).
Notation borda_scores := (borda_scores cand ceqb).
Notation score_rankings := (score_rankings cand ceqb).
Notation dominating_tiers := (dominating_tiers cand ceqb).
Notation ranking_validate := (ranking_validate cand).
Notation stv_validate := (stv_validate cand).
Notation plurality_stage := (plurality_stage cand ceqb).
Notation run_alaska := (run_alaska cand ceqb).
Notation run_one_shot := (run_one_shot cand ceqb).
Notation run_dictator := (run_dictator cand ceqb).
Notation run_rule := (run_rule cand ceqb).
Notation round0 := (round0 cand ceqb).
Notation upfront := (upfront cand).

(* ================================================================== *)
(** * 6. GeneralRating and Limited: the argument checks at run level *)

(* each bad argument, whatever the others are: ValueError for every profile, script, tiebreak *)
Theorem c20_rating_each_arg : forall m L k tb (p : profile) (s : mstate),
  ((m <= 0)%Z -> run_rule (RRating m L k tb) p s = inr EValue) /\
  (L <= 0 -> run_rule (RRating m L k tb) p s = inr EValue) /\
  (forall k', k = Some k' -> k' <= 0 -> run_rule (RRating m L k tb) p s = inr EValue) /\
  (forall k', k = Some k' -> k' < L -> run_rule (RRating m L k tb) p s = inr EValue).
Proof. exact (rating_each_arg cand ceqb). Qed.

(* every error of a GeneralRating run comes from exactly one of: the arguments (ValueError), the
   first offending ballot (TypeError), or — arguments and all ballots accepted — the election step *)
Theorem c20_rating_error_cases : forall m L k tb (p : profile) (s : mstate) e,
  run_rule (RRating m L k tb) p s = inr e <->
  (e = EValue /\ rating_args_bad m L k) \/
  (e = EType /\ rating_args_ok m L k /\ exists b, In b (ballots p) /\ score_ballot_bad L k b) \/
  (rating_args_ok m L k /\ Forall (score_ballot_ok L k) (ballots p) /\
   run_one_shot SKBallotScores m tb p s = inr e).
Proof. exact (rating_error_cases cand ceqb). Qed.

(* ValueError exactly: bad arguments, or everything accepted and the election step raises it (too
   few candidates, a boundary tie without tiebreak, an unknown tiebreak name: C05 [c05_top_m_errors],
   [c05_invalid_tiebreak]) *)
Theorem c20_rating_value_error_iff : forall m L k tb (p : profile) (s : mstate),
  run_rule (RRating m L k tb) p s = inr EValue <->
  rating_args_bad m L k \/
  (rating_args_ok m L k /\ Forall (score_ballot_ok L k) (ballots p) /\
   run_one_shot SKBallotScores m tb p s = inr EValue).
Proof. exact (rating_value_error_iff cand ceqb). Qed.

(* Limited(m, k): k > m alone is a ValueError for every profile, script, tiebreak ... *)
Theorem c20_limited_guard : forall m k tb (p : profile) (s : mstate),
  inject_Z m < k -> run_rule (RLimited m k tb) p s = inr EValue.
Proof. exact (limited_guard cand ceqb). Qed.

(* ... and every error of a Limited run, the guard included *)
Theorem c20_limited_error_cases : forall m k tb (p : profile) (s : mstate) e,
  run_rule (RLimited m k tb) p s = inr e <->
  (e = EValue /\ (inject_Z m < k \/ (m <= 0)%Z \/ k <= 0)) \/
  (e = EType /\ ~ (inject_Z m < k \/ (m <= 0)%Z \/ k <= 0) /\
   exists b, In b (ballots p) /\ score_ballot_bad k (Some k) b) \/
  (~ (inject_Z m < k \/ (m <= 0)%Z \/ k <= 0) /\ Forall (score_ballot_ok k (Some k)) (ballots p) /\
   run_one_shot SKBallotScores m tb p s = inr e).
Proof. exact (limited_error_cases cand ceqb). Qed.

Theorem c20_limited_value_error_iff : forall m k tb (p : profile) (s : mstate),
  run_rule (RLimited m k tb) p s = inr EValue <->
  (inject_Z m < k \/ (m <= 0)%Z \/ k <= 0) \/
  (~ (inject_Z m < k \/ (m <= 0)%Z \/ k <= 0) /\ Forall (score_ballot_ok k (Some k)) (ballots p) /\
   run_one_shot SKBallotScores m tb p s = inr EValue).
Proof. exact (limited_value_error_iff cand ceqb). Qed.

(* ================================================================== *)
(** * 1. BlocPlurality's budget k *)

(* a negative k (or a non-positive m): ValueError for every profile, script, tiebreak *)
Theorem c20_bloc_k_nonpositive : forall m k tb (p : profile) (s : mstate),
  ((m <= 0)%Z \/ exists x, k = Some x /\ (x < 0)%Z) ->
  run_rule (RBloc m k tb) p s = inr EValue.
Proof. exact (bloc_k_nonpositive cand ceqb). Qed.

(* k = 0 is NOT an error: k = 0, k = None and k = m are one and the same election *)
Theorem c20_bloc_k_fallback : forall m tb (p : profile),
  run_rule (RBloc m (Some 0%Z) tb) p = run_rule (RBloc m None tb) p /\
  run_rule (RBloc m (Some m) tb) p = run_rule (RBloc m None tb) p.
Proof. exact (bloc_k_fallback cand ceqb). Qed.

(* every error of a BlocPlurality run *)
Theorem c20_bloc_error_cases : forall m k tb (p : profile) (s : mstate) e,
  run_rule (RBloc m k tb) p s = inr e <->
  (e = EValue /\ (m <= 0 \/ bloc_budget m k <= 0)%Z) \/
  (e = EType /\ (1 <= m /\ 1 <= bloc_budget m k)%Z /\
   exists b, In b (ballots p) /\ score_ballot_bad 1 (Some (inject_Z (bloc_budget m k))) b) \/
  ((1 <= m /\ 1 <= bloc_budget m k)%Z /\
   Forall (score_ballot_ok 1 (Some (inject_Z (bloc_budget m k)))) (ballots p) /\
   run_one_shot SKBallotScores m tb p s = inr e).
Proof. exact (bloc_error_cases cand ceqb). Qed.

Theorem c20_bloc_value_error_iff : forall m k tb (p : profile) (s : mstate),
  run_rule (RBloc m k tb) p s = inr EValue <->
  (m <= 0 \/ bloc_budget m k <= 0)%Z \/
  ((1 <= m /\ 1 <= bloc_budget m k)%Z /\
   Forall (score_ballot_ok 1 (Some (inject_Z (bloc_budget m k)))) (ballots p) /\
   run_one_shot SKBallotScores m tb p s = inr EValue).
Proof. exact (bloc_value_error_iff cand ceqb). Qed.

(* ================================================================== *)
(** * 2. Alaska with an unknown quota name *)

(* (ii) the Plurality stage fails: its error is the error of the run (quota never looked at) *)
Theorem c20_alaska_stage_error_wins : forall m1 m2 cfg (p : profile) (s : mstate) s0 e,
  alaska_args m1 m2 = inl tt -> ranking_validate p = inl tt -> round0 SKFpv p = inl s0 ->
  plurality_stage m1 (s_tiebreak cfg) p s0 s = inr e ->
  run_alaska m1 m2 cfg p s = inr e.
Proof. exact (run_alaska_stage_err cand ceqb). Qed.

(* (i) the stage succeeds, leaving the reduced profile p1 and the script state sa (its draws, if
   any, consumed): the run ends in the error of STV's constructor on p1 — TypeError for a ballot
   of p1 without ranking / with a tie / (random transfer) of non-integral weight, else ValueError,
   whatever m_2 *)
Theorem c20_alaska_bad_quota_after_stage : forall m1 m2 cfg (p : profile) (s sa : mstate) s0 p1 s1,
  s_quota cfg = QBad ->
  alaska_args m1 m2 = inl tt -> ranking_validate p = inl tt -> round0 SKFpv p = inl s0 ->
  plurality_stage m1 (s_tiebreak cfg) p s0 s = inl ((p1, s1), sa) ->
  run_alaska m1 m2 cfg p s =
  match stv_validate p1 with
  | inr e => inr e
  | inl _ =>
      if is_trandom (s_transfer cfg) && negb (forallb (fun b => is_integral (wt b)) (ballots p1))
      then inr EType else inr EValue
  end.
Proof. exact (alaska_bad_quota_after_stage cand ceqb). Qed.

Theorem c20_alaska_bad_quota_value_error : forall m1 m2 cfg (p : profile) (s sa : mstate) s0 p1 s1,
  s_quota cfg = QBad ->
  alaska_args m1 m2 = inl tt -> ranking_validate p = inl tt -> round0 SKFpv p = inl s0 ->
  plurality_stage m1 (s_tiebreak cfg) p s0 s = inl ((p1, s1), sa) ->
  stv_validate p1 = inl tt ->
  ~ (s_transfer cfg = TRandom /\ exists b, In b (ballots p1) /\ is_integral (wt b) = false) ->
  run_alaska m1 m2 cfg p s = inr EValue.
Proof. exact (alaska_bad_quota_value_error cand ceqb). Qed.

(* with an unknown quota name no run ever returns states, for any profile, sizes and script *)
Theorem c20_alaska_bad_quota_never_runs : forall m1 m2 cfg (p : profile) (s : mstate),
  s_quota cfg = QBad -> forall sts s', run_alaska m1 m2 cfg p s <> inl (sts, s').
Proof. exact (alaska_bad_quota_never_runs cand ceqb). Qed.

(* (iii) on a valid STV profile (integral weights if the transfer is the random one) the whole run,
   as an equation: size error; else the stage's error; else ValueError ... *)
Theorem c20_alaska_bad_quota_run : forall m1 m2 cfg (p : profile) (s : mstate),
  wf_stv0 p -> s_quota cfg = QBad -> (s_transfer cfg = TRandom -> integral_weights p) ->
  exists s0, round0 SKFpv p = inl s0 /\
    run_alaska m1 m2 cfg p s =
    match alaska_args m1 m2 with
    | inr e => inr e
    | inl _ =>
        match plurality_stage m1 (s_tiebreak cfg) p s0 s with
        | inr e => inr e
        | inl _ => inr EValue
        end
    end.
Proof. exact (alaska_bad_quota_run cand ceqb ceqb_spec). Qed.

(* ... hence ValueError iff the sizes are not ordered, or the stage raises ValueError, or the stage
   succeeds (what remains is the stage's EScript: a draw was asked for and the script was empty or
   wrong — the quota had not been examined yet) *)
Theorem c20_alaska_bad_quota_value_error_iff : forall m1 m2 cfg (p : profile) (s : mstate),
  wf_stv0 p -> s_quota cfg = QBad -> (s_transfer cfg = TRandom -> integral_weights p) ->
  exists s0, round0 SKFpv p = inl s0 /\
    (run_alaska m1 m2 cfg p s = inr EValue <->
       (m1 <= 0 \/ m2 <= 0 \/ m1 < m2)%Z \/
       ((1 <= m2 <= m1)%Z /\
        (plurality_stage m1 (s_tiebreak cfg) p s0 s = inr EValue \/
         exists p1 s1 sa, plurality_stage m1 (s_tiebreak cfg) p s0 s = inl ((p1, s1), sa)))).
Proof. exact (alaska_bad_quota_value_error_iff cand ceqb ceqb_spec). Qed.

(* ================================================================== *)
(** * 3. a tied ballot reaching Alaska's STV stage *)

(* relative to the reduced profile: a ballot of p1 without ranking or with a tied position makes
   STV's constructor raise TypeError — whatever m_2, the quota name, the transfer *)
Theorem c20_alaska_stage_tied : forall m1 m2 cfg (p : profile) (s sa : mstate) s0 p1 s1,
  alaska_args m1 m2 = inl tt -> ranking_validate p = inl tt -> round0 SKFpv p = inl s0 ->
  plurality_stage m1 (s_tiebreak cfg) p s0 s = inl ((p1, s1), sa) ->
  (exists b, In b (ballots p1) /\ (rk b = [] \/ exists g, In g (rk b) /\ (1 < length g)%nat)) ->
  run_alaska m1 m2 cfg p s = inr EType.
Proof. exact (alaska_stage_tied cand ceqb). Qed.

(* a sufficient condition on p itself: some ballot of positive weight ties two different
   candidates neither of which is eliminated by the stage *)
Theorem c20_alaska_tie_survives : forall m1 m2 cfg (p : profile) (s sa : mstate) s0 p1 s1,
  alaska_args m1 m2 = inl tt -> ranking_validate p = inl tt -> round0 SKFpv p = inl s0 ->
  plurality_stage m1 (s_tiebreak cfg) p s0 s = inl ((p1, s1), sa) ->
  (exists b g c1 c2, In b (ballots p) /\ 0 < wt b /\ In g (rk b) /\ In c1 g /\ In c2 g /\ c1 <> c2 /\
     ~ In c1 (flat (eliminated s1)) /\ ~ In c2 (flat (eliminated s1))) ->
  run_alaska m1 m2 cfg p s = inr EType.
Proof. exact (alaska_tie_survives cand ceqb ceqb_spec). Qed.

(* the same read on the survivors (state 1's "remaining"), for duplicate-free candidates *)
Theorem c20_alaska_tie_survives_remaining : forall m1 m2 cfg (p : profile) (s sa : mstate) s0 p1 s1,
  NoDup (cands p) ->
  alaska_args m1 m2 = inl tt -> ranking_validate p = inl tt -> round0 SKFpv p = inl s0 ->
  plurality_stage m1 (s_tiebreak cfg) p s0 s = inl ((p1, s1), sa) ->
  (exists b g c1 c2, In b (ballots p) /\ 0 < wt b /\ In g (rk b) /\ In c1 g /\ In c2 g /\ c1 <> c2 /\
     In c1 (flat (remaining s1)) /\ In c2 (flat (remaining s1))) ->
  run_alaska m1 m2 cfg p s = inr EType.
Proof. exact (alaska_tie_survives_remaining cand ceqb ceqb_spec). Qed.

(* ================================================================== *)
(** * 4. a non-positive seat count *)

(* rules whose constructor tests the seat count before anything else: ValueError for EVERY
   profile and script (GeneralRating, Limited, BlocPlurality, Alaska's m_1 and m_2,
   RandomDictator, BoostedRandomDictator) *)
Theorem c20_m_nonpositive_upfront : forall m, (m <= 0)%Z ->
  forall (p : profile) (s : mstate),
  (forall L k tb, run_rule (RRating m L k tb) p s = inr EValue) /\
  (forall k tb, run_rule (RLimited m k tb) p s = inr EValue) /\
  (forall k tb, run_rule (RBloc m k tb) p s = inr EValue) /\
  (forall m2 cfg, run_rule (RAlaska m m2 cfg) p s = inr EValue) /\
  (forall m1 cfg, run_rule (RAlaska m1 m cfg) p s = inr EValue) /\
  run_rule (RRandomDictator m) p s = inr EValue /\
  run_rule (RBoosted m) p s = inr EValue.
Proof. exact (m_nonpositive_upfront cand ceqb ceqb_spec). Qed.

(* (Boosted)RandomDictator, both bounds: before the profile is looked at *)
Theorem c20_dictator_m_range : forall boosted m (p : profile) (s : mstate),
  (m <= 0 \/ Z.of_nat (length (cands p)) < m)%Z -> run_dictator boosted m p s = inr EValue.
Proof. exact (dictator_m_range cand ceqb). Qed.

(* rules that look at the profile first — the exact outcome for EVERY profile when m <= 0.
   STV: the ballots (TypeError), the integrality check of the random transfer (TypeError), then
   ValueError *)
Theorem c20_stv_m_nonpositive : forall cfg (p : profile) (s : mstate), (s_m cfg <= 0)%Z ->
  run_rule (RSTV cfg) p s =
  match stv_validate p with
  | inr e => inr e
  | inl _ =>
      if is_trandom (s_transfer cfg) && negb (forallb (fun b => is_integral (wt b)) (ballots p))
      then inr EType else inr EValue
  end.
Proof. exact (stv_m_nonpositive cand ceqb). Qed.

(* Plurality / SNTV: the ranking check, the round-0 scores, then ValueError from
   elect_cands_from_set_ranking *)
Theorem c20_plurality_m_nonpositive : forall m tb (p : profile) (s : mstate), (m <= 0)%Z ->
  run_rule (RPlurality m tb) p s =
  match ranking_validate p with
  | inr e => inr e
  | inl _ => match first_place_votes p with inl _ => inr EValue | inr e => inr e end
  end.
Proof. exact (plurality_m_nonpositive cand ceqb). Qed.

(* Borda: the score vector, the ranking check, the round-0 scores, then ValueError *)
Theorem c20_borda_m_nonpositive : forall m v tb (p : profile) (s : mstate), (m <= 0)%Z ->
  run_rule (RBorda m v tb) p s =
  match validate_vector (match v with Some (x :: l) => x :: l | _ => default_borda cand p end) with
  | inr e => inr e
  | inl _ =>
      match ranking_validate p with
      | inr e => inr e
      | inl _ =>
          match score_rankings p (match v with Some (x :: l) => x :: l | _ => default_borda cand p end) with
          | inl _ => inr EValue
          | inr e => inr e
          end
      end
  end.
Proof. exact (borda_m_nonpositive cand ceqb). Qed.

(* CondoBorda: the ranking check, the Borda scores, the dominating tiers, then ValueError *)
Theorem c20_condoborda_m_nonpositive : forall m (p : profile) (s : mstate), (m <= 0)%Z ->
  run_rule (RCondoBorda m) p s =
  match ranking_validate p with
  | inr e => inr e
  | inl _ =>
      match borda_scores p with
      | inr e => inr e
      | inl _ => match dominating_tiers p with inr e => inr e | inl _ => inr EValue end
      end
  end.
Proof. exact (condoborda_m_nonpositive cand ceqb). Qed.

(* on well-formed inputs: ValueError outright (CondoBorda: [c20_condoborda_m_range]) *)
Theorem c20_m_nonpositive_wf : forall m (p : profile) (s : mstate), (m <= 0)%Z ->
  (forall cfg, s_m cfg = m -> wf_stv0 p -> (s_transfer cfg = TRandom -> integral_weights p) ->
     run_rule (RSTV cfg) p s = inr EValue) /\
  (forall tb, wf_profile p -> run_rule (RPlurality m tb) p s = inr EValue) /\
  (forall v tb, wf_profile p ->
     validate_vector (match v with Some (x :: l) => x :: l | _ => default_borda cand p end) = inl tt ->
     run_rule (RBorda m v tb) p s = inr EValue).
Proof. exact (m_nonpositive_wf cand ceqb ceqb_spec). Qed.

(* ================================================================== *)
(** * 5. an empty score vector for Borda *)

(* no error: score_vector = [] is score_vector = None, which is the conventional vector
   (n, n-1, ..., 1) — same run, same up-front checks *)
Theorem c20_borda_empty_vector : forall m tb (p : profile),
  run_rule (RBorda m (Some []) tb) p = run_rule (RBorda m None tb) p /\
  run_rule (RBorda m (Some (default_borda cand p)) tb) p = run_rule (RBorda m None tb) p /\
  upfront (RBorda m (Some []) tb) p = upfront (RBorda m None tb) p.
Proof. exact (borda_empty_vector cand ceqb). Qed.

End C20.

Print Assumptions c20_rating_each_arg.
Print Assumptions c20_rating_error_cases.
Print Assumptions c20_rating_value_error_iff.
Print Assumptions c20_limited_guard.
Print Assumptions c20_limited_error_cases.
Print Assumptions c20_limited_value_error_iff.
Print Assumptions c20_bloc_k_nonpositive.
Print Assumptions c20_bloc_k_fallback.
Print Assumptions c20_bloc_error_cases.
Print Assumptions c20_bloc_value_error_iff.
Print Assumptions c20_alaska_stage_error_wins.
Print Assumptions c20_alaska_bad_quota_after_stage.
Print Assumptions c20_alaska_bad_quota_value_error.
Print Assumptions c20_alaska_bad_quota_never_runs.
Print Assumptions c20_alaska_bad_quota_run.
Print Assumptions c20_alaska_bad_quota_value_error_iff.
Print Assumptions c20_alaska_stage_tied.
Print Assumptions c20_alaska_tie_survives.
Print Assumptions c20_alaska_tie_survives_remaining.
Print Assumptions c20_m_nonpositive_upfront.
Print Assumptions c20_dictator_m_range.
Print Assumptions c20_stv_m_nonpositive.
Print Assumptions c20_plurality_m_nonpositive.
Print Assumptions c20_borda_m_nonpositive.
Print Assumptions c20_condoborda_m_nonpositive.
Print Assumptions c20_m_nonpositive_wf.
Print Assumptions c20_borda_empty_vector.

(* ------------------------------------------------------------------ *)
(* Non-vacuity (cand := positive, ceqb := Pos.eqb). *)
Open Scope positive_scope.

Definition rb (r : list (list positive)) (w : Q) : ballot positive := plain_ballot positive r w.
Definition sbal (d : list (positive * Q)) (w : Q) : ballot positive := mkBallot [] w d None None.
Definition st0 : Core.mstate positive := mkM [] [].
Definition run := run_rule positive Pos.eqb.

(* score ballots: two approvals / one approval; three candidates *)
Definition ex_sc : Core.profile positive :=
  mkProfile [sbal [(1, 1%Q); (2, 1%Q)] 2; sbal [(2, 1%Q)] 1] [1; 2; 3].
(* ranked ballots *)
Definition ex_rk : Core.profile positive :=
  mkProfile [rb [[1];[2];[3]] 3; rb [[2];[1]] 2; rb [[3]] 1] [1; 2; 3].

(* 1. BlocPlurality: k = -1 (smallest violation) and k = -7: ValueError, also from a script that
   has draws to offer; k = 0 and k = None: the same successful run; k = 1: the first ballot is over
   budget (TypeError, not an argument error); m = 0 and m = -1; the late ValueError of the
   election step (m = 4 > 3 candidates) *)
Example ex_bloc :
  run (RBloc 2 (Some (-1)%Z) None) ex_sc st0 = inr EValue /\
  run (RBloc 2 (Some (-7)%Z) (Some TBRandom)) ex_sc (mkM [DPerm [1; 2]] []) = inr EValue /\
  (exists sts, run (RBloc 2 (Some 0%Z) None) ex_sc st0 = inl (sts, st0) /\
               run (RBloc 2 None None) ex_sc st0 = inl (sts, st0) /\
               run (RBloc 2 (Some 2%Z) None) ex_sc st0 = inl (sts, st0)) /\
  run (RBloc 2 (Some 1%Z) None) ex_sc st0 = inr EType /\
  run (RBloc 0 (Some 2%Z) None) ex_sc st0 = inr EValue /\
  run (RBloc (-1) None None) ex_sc st0 = inr EValue /\
  bloc_budget 4 (Some 4%Z) = 4%Z /\
  Forall (score_ballot_ok positive 1 (Some (inject_Z 4))) (ballots ex_sc) /\
  run (RBloc 4 (Some 4%Z) None) ex_sc st0 = inr EValue.
Proof.
  split; [vm_compute; reflexivity|]. split; [vm_compute; reflexivity|].
  split; [eexists; repeat split; vm_compute; reflexivity|].
  split; [vm_compute; reflexivity|]. split; [vm_compute; reflexivity|].
  split; [vm_compute; reflexivity|]. split; [reflexivity|]. split; [|vm_compute; reflexivity].
  repeat (constructor; [split; [discriminate|]; split;
    [intros c q Hin; cbn [sc sbal In] in Hin;
     repeat (destruct Hin as [Hin|Hin]; [inversion Hin; subst; split; discriminate|]); destruct Hin
    |vm_compute; discriminate]|]).
  constructor.
Qed.

(* 6. GeneralRating: L = 0 and L = -1; k = 0 and k = -1/2; L > k by a small margin (L = 1,
   k = 99/100) and grossly (L = 5, k = 1); m = -1; each with the other arguments fine (m = 1,
   L = 1, k = 2 is accepted and runs); the late ValueError of the election step (4 seats, 3
   candidates: arguments and ballots accepted); Limited: k = m + 1/100 and k = 5 m refused,
   k = m accepted *)
Example ex_rating :
  rating_args_ok 1 1 (Some 2%Q) /\
  run (RRating 1 0 (Some 2%Q) None) ex_sc st0 = inr EValue /\
  run (RRating 1 (-1) None None) ex_sc st0 = inr EValue /\
  run (RRating 1 1 (Some 0%Q) None) ex_sc st0 = inr EValue /\
  run (RRating 1 1 (Some (-1#2)%Q) None) ex_sc st0 = inr EValue /\
  run (RRating 1 1 (Some (99#100)%Q) None) ex_sc st0 = inr EValue /\
  run (RRating 1 5 (Some 1%Q) None) ex_sc st0 = inr EValue /\
  run (RRating (-1) 1 (Some 2%Q) None) ex_sc st0 = inr EValue /\
  (exists sts, run (RRating 1 1 (Some 2%Q) None) ex_sc st0 = inl (sts, st0)) /\
  (* arguments and ballots accepted, ValueError from the election step: 4 seats, 3 candidates *)
  run (RRating 4 1 (Some 2%Q) None) ex_sc st0 = inr EValue /\
  run_one_shot positive Pos.eqb SKBallotScores 4 None ex_sc st0 = inr EValue /\
  (* Limited *)
  run (RLimited 2 (201#100) None) ex_sc st0 = inr EValue /\
  run (RLimited 2 10 None) ex_sc st0 = inr EValue /\
  (exists sts, run (RLimited 2 2 None) ex_sc st0 = inl (sts, st0)).
Proof.
  split; [split; [discriminate|]; split; [reflexivity|]; split; [reflexivity|discriminate]|].
  repeat (split; [vm_compute; reflexivity|]).
  split; [eexists; vm_compute; reflexivity|].
  repeat (split; [vm_compute; reflexivity|]).
  eexists; vm_compute; reflexivity.
Qed.

(* 2. Alaska with an unknown quota name.  ex_cut: first-place votes 2, 1, 1: candidates 2 and 3
   tie for the second place of the Plurality(2) stage. *)
Definition ex_cut : Core.profile positive :=
  mkProfile [rb [[1];[2]] 2; rb [[2];[1]] 1; rb [[3];[1]] 1] [1; 2; 3].
Definition qcfg (q : quota_kind) (tb : option tb_kind) : stv_cfg := mkStv 1 q true TFractional tb.

(* the unknown quota name is NOT refused up front: with the random tiebreak the run first asks for
   a draw — from the empty script that is EScript, not ValueError; given the draw, the stage
   succeeds (one draw consumed) and only then is ValueError raised; without a tiebreak rule the
   stage's own ValueError is what is reported (the stage fails, the quota is never examined);
   the same configuration given to STV directly IS refused without any draw *)
Theorem c20_alaska_bad_quota_not_upfront_refuted :
  wf_stv0 positive ex_cut /\ alaska_args 2 1 = inl tt /\ s_quota (qcfg QBad (Some TBRandom)) = QBad /\
  run (RAlaska 2 1 (qcfg QBad (Some TBRandom))) ex_cut st0 = inr EScript /\
  (exists s0 p1 s1,
     Rules.round0 positive Pos.eqb SKFpv ex_cut = inl s0 /\
     Rules.plurality_stage positive Pos.eqb 2 (Some TBRandom) ex_cut s0 (mkM [DPerm [3; 2]] [])
       = inl ((p1, s1), mkM [] [CSample [2; 3]]) /\
     remaining s1 = [[1]; [3]]) /\
  run (RAlaska 2 1 (qcfg QBad (Some TBRandom))) ex_cut (mkM [DPerm [3; 2]] []) = inr EValue /\
  (exists s0, Rules.round0 positive Pos.eqb SKFpv ex_cut = inl s0 /\
     Rules.plurality_stage positive Pos.eqb 2 None ex_cut s0 st0 = inr EValue) /\
  run (RAlaska 2 1 (qcfg QBad None)) ex_cut st0 = inr EValue /\
  (forall s, run (RSTV (qcfg QBad (Some TBRandom))) ex_cut s = inr EValue).
Proof.
  split; [exact (proj1 (wf_stv_profile_b_ok positive Pos.eqb Pos.eqb_spec ex_cut eq_refl))|].
  split; [reflexivity|]. split; [reflexivity|]. split; [vm_compute; reflexivity|].
  split; [do 3 eexists; split; [vm_compute; reflexivity|]; split; [vm_compute; reflexivity|reflexivity]|].
  split; [vm_compute; reflexivity|].
  split; [eexists; split; vm_compute; reflexivity|].
  split; [vm_compute; reflexivity|].
  intros s. reflexivity.
Qed.

Print Assumptions c20_alaska_bad_quota_not_upfront_refuted.

(* ... and with a known quota name the same request runs *)
Example ex_alaska_good_quota :
  exists sts, run (RAlaska 2 1 (qcfg QDroop (Some TBRandom))) ex_cut (mkM [DPerm [3; 2]] [])
              = inl (sts, mkM [] [CSample [2; 3]]).
Proof. eexists. vm_compute. reflexivity. Qed.

(* 3. tied ballots and Alaska.  ex_tie_in: the last ballot ties candidates 1 and 2, who are the two
   survivors of Plurality(2): TypeError — from the STV stage, the constructor and the Plurality
   stage accept the profile.  ex_tie_out: the last ballot ties candidates 3 and 4, who are both
   eliminated: the run succeeds. *)
Definition ex_tie_in : Core.profile positive :=
  mkProfile [rb [[1];[2];[3]] 3; rb [[2];[1]] 2; rb [[3];[1; 2]] 1] [1; 2; 3].
Definition ex_tie_out : Core.profile positive :=
  mkProfile [rb [[1];[2];[3]] 3; rb [[2];[1]] 2; rb [[1];[3; 4]] 1] [1; 2; 3; 4].

Example ex_alaska_tie_survives :
  alaska_args 2 1 = inl tt /\ STV.ranking_validate positive ex_tie_in = inl tt /\
  exists s0 p1 s1,
    Rules.round0 positive Pos.eqb SKFpv ex_tie_in = inl s0 /\
    Rules.plurality_stage positive Pos.eqb 2 None ex_tie_in s0 st0 = inl ((p1, s1), st0) /\
    eliminated s1 = [[3]] /\
    (exists b g, In b (ballots ex_tie_in) /\ (0 < wt b)%Q /\ In g (rk b) /\ In 1 g /\ In 2 g /\
       ~ In 1 (Core.flat positive (eliminated s1)) /\ ~ In 2 (Core.flat positive (eliminated s1))) /\
    run (RAlaska 2 1 (qcfg QDroop None)) ex_tie_in st0 = inr EType /\
    (* m_1 = 3: nobody is eliminated, the tie survives a fortiori *)
    run (RAlaska 3 1 (qcfg QDroop None)) ex_tie_in st0 = inr EType.
Proof.
  split; [reflexivity|]. split; [reflexivity|]. do 3 eexists.
  split; [vm_compute; reflexivity|]. split; [vm_compute; reflexivity|]. split; [reflexivity|].
  split.
  - exists (rb [[3];[1; 2]] 1), [1; 2]. split; [right; right; left; reflexivity|].
    split; [reflexivity|]. split; [right; left; reflexivity|]. split; [left; reflexivity|].
    split; [right; left; reflexivity|]. split; cbn; intuition discriminate.
  - split; vm_compute; reflexivity.
Qed.

Example ex_alaska_tie_eliminated :
  (exists b g, In b (ballots ex_tie_out) /\ In g (rk b) /\ (1 < length g)%nat) /\
  exists s0 s1 s2,
    run (RAlaska 2 1 (qcfg QDroop None)) ex_tie_out st0 = inl ([s0; s1; s2], st0) /\
    eliminated s1 = [[3; 4]] /\ elected s2 = [[1]].
Proof.
  split.
  - exists (rb [[1];[3; 4]] 1), [3; 4]. split; [right; right; left; reflexivity|].
    split; [right; left; reflexivity|]. cbn. auto.
  - do 3 eexists. split; [vm_compute; reflexivity|]. split; reflexivity.
Qed.

(* 4. m = -1 and m = 0, every rule with a seat count, on valid profiles *)
Example ex_m_negative :
  wf_stv0 positive ex_rk /\
  run (RSTV (mkStv (-1) QDroop true TFractional None)) ex_rk st0 = inr EValue /\
  run (RSTV (mkStv 0 QDroop true TFractional None)) ex_rk st0 = inr EValue /\
  run (RPlurality (-1) None) ex_rk st0 = inr EValue /\
  run (RPlurality 0 None) ex_rk st0 = inr EValue /\
  run (RBorda (-1) None None) ex_rk st0 = inr EValue /\
  run (RBorda 0 (Some [2%Q; 1%Q]) None) ex_rk st0 = inr EValue /\
  run (RCondoBorda (-1)) ex_rk st0 = inr EValue /\
  run (RCondoBorda 0) ex_rk st0 = inr EValue /\
  run (RAlaska (-1) (-1) (qcfg QDroop None)) ex_rk st0 = inr EValue /\
  run (RAlaska 2 (-1) (qcfg QDroop None)) ex_rk st0 = inr EValue /\
  run (RAlaska 2 0 (qcfg QDroop None)) ex_rk st0 = inr EValue /\
  run (RRandomDictator (-1)) ex_rk (mkM [DRank [[1];[2];[3]]] []) = inr EValue /\
  run (RBoosted (-1)) ex_rk (mkM [DUnit 1%Q] []) = inr EValue /\
  run (RRandomDictator 0) ex_rk st0 = inr EValue /\
  run (RRating (-1) 1 None None) ex_sc st0 = inr EValue /\
  run (RLimited (-1) (-1) None) ex_sc st0 = inr EValue /\
  run (RLimited 0 0 None) ex_sc st0 = inr EValue /\
  run (RBloc (-1) (Some 2%Z) None) ex_sc st0 = inr EValue /\
  (* m = 1 is accepted by all of them *)
  (exists sts, run (RSTV (mkStv 1 QDroop true TFractional None)) ex_rk st0 = inl (sts, st0)) /\
  (exists sts, run (RPlurality 1 None) ex_rk st0 = inl (sts, st0)) /\
  (exists sts, run (RBorda 1 None None) ex_rk st0 = inl (sts, st0)) /\
  (exists sts, run (RCondoBorda 1) ex_rk st0 = inl (sts, st0)) /\
  (exists sts, run (RAlaska 1 1 (qcfg QDroop None)) ex_rk st0 = inl (sts, st0)).
Proof.
  split; [exact (proj1 (wf_stv_profile_b_ok positive Pos.eqb Pos.eqb_spec ex_rk eq_refl))|].
  repeat (split; [vm_compute; reflexivity|]).
  repeat (split; [eexists; vm_compute; reflexivity|]).
  eexists; vm_compute; reflexivity.
Qed.

(* 5. Borda with an empty score vector: the run of the default vector (3, 2, 1), not an error *)
Example ex_borda_empty :
  default_borda positive ex_rk = [3%Q; 2%Q; 1%Q] /\
  exists s0 s1,
    run (RBorda 1 (Some []) None) ex_rk st0 = inl ([s0; s1], st0) /\
    run (RBorda 1 None None) ex_rk st0 = inl ([s0; s1], st0) /\
    run (RBorda 1 (Some [3%Q; 2%Q; 1%Q]) None) ex_rk st0 = inl ([s0; s1], st0) /\
    elected s1 = [[1]].
Proof.
  split; [reflexivity|]. do 2 eexists.
  split; [vm_compute; reflexivity|]. split; [vm_compute; reflexivity|].
  split; [vm_compute; reflexivity|reflexivity].
Qed.
