(* Properties/C03_random.v — C03: exact vote accounting for the random (Cambridge) transfer, which
   Properties/C03.v and Properties/C03_rounds.v only bound.  Statements only; proofs are in
   Proofs/C03_random.v.
   Vocabulary (Spec/EditSpec.v, Spec/STVSpec.v): total_wt, wt_where q bs = Σ{wt b | b in bs, q b};
   first_is w b = "b is led by w"; strip W r = r with the candidates of W struck out (empty
   positions dropped); tally c bs = weight of the ballots led by c; step_ctx, script_ok, reaches as
   in Properties/C03_rounds.v.  A random.sample of ballots is the draw [DRanks l] of the script. *)
From VK Require Import Base Core STV EditSpec STVSpec.
From VK.Proofs Require Import C03_random STV_final.

Section C03_random.
Variable cand : Type.
Variable ceqb : cand -> cand -> bool.
Hypothesis ceqb_spec : forall a b, reflect (a = b) (ceqb a b).

Notation ranking := (ranking cand).
Notation ballot := (ballot cand).
Notation profile := (profile cand).
Notation estate := (estate cand).
Notation mstate := (mstate cand).
Notation flat := (flat cand).
Notation strip := (strip cand ceqb).
Notation first_is := (first_is cand ceqb).
Notation pos_wt := (pos_wt cand).
Notation total_wt := (total_wt cand).
Notation wt_where := (wt_where cand).
Notation all_pos := (all_pos cand).
Notation tally := (tally cand ceqb).
Notation step_ctx := (step_ctx cand ceqb).
Notation script_ok := (script_ok cand).
Notation reaches := (reaches cand ceqb).
Notation rand_transfer := (rand_transfer cand ceqb).
Notation stv_step := (stv_step cand ceqb).

(* ---------- one random transfer ---------- *)

(* every successful call, any weights: the output weighs exactly int(fpv) - int(t) (one unit per
   sampled ballot: every sampled ranking is non-empty, so none is filtered out, and condensing
   preserves totals) plus the ballots not led by the winner that still rank somebody and have
   positive weight *)
Theorem c03_rand_total_gen : forall w fpv (bs : list ballot) t (s s' : mstate) out,
  rand_transfer w fpv bs t s = inl (out, s') ->
  total_wt out ==
    inject_Z (Qtrunc fpv - Qtrunc t) +
    wt_where (fun b => negb (first_is w b) && nonempty (strip [w] (rk b)) && pos_wt b) bs.
Proof. exact (rand_total_gen cand ceqb ceqb_spec). Qed.

(* positive weights (integrality of the weights and non-empty rankings are forced by success) *)
Theorem c03_rand_total : forall w fpv (bs : list ballot) t (s s' : mstate) out,
  rand_transfer w fpv bs t s = inl (out, s') -> all_pos bs ->
  total_wt out ==
    inject_Z (Qtrunc fpv - Qtrunc t) +
    wt_where (fun b => negb (first_is w b) && nonempty (strip [w] (rk b))) bs.
Proof. exact (rand_total cand ceqb ceqb_spec). Qed.

(* ---------- an election round of STV with the random transfer ---------- *)

(* W = the candidates elected in the round, in transfer order.  After the draws [pre] of a tie-break
   (one-by-one mode only) the round consumes exactly one sample l_w per winner, of tally w - t
   rankings, none of which is exhausted by striking out w alone; and the total weight drops by
   exactly t per winner plus one unit for every sampled ranking that lists only winners of this
   same round (possible only when several candidates are elected simultaneously) *)
Theorem c03_stv_accounting_random : forall cfg t (p0 p : profile) prev n (s s' : mstate) np st,
  step_ctx p0 p prev ->
  stv_step cfg t p0 n p prev s = inl ((np, st), s') ->
  s_transfer cfg = TRandom -> script_ok s -> is_integral t = true ->
  (exists c, reaches t p c) ->
  let W := flat (elected st) in
  exists (pre : list (draw cand)) (ls : list (list ranking)),
    scr s = pre ++ map (fun l => DRanks l) ls ++ scr s' /\
    Forall2 (fun w l => Qnat (length l) == tally w (ballots p) - t /\
                        forall r, In r l -> nonempty (strip [w] r) = true) W ls /\
    total_wt (ballots p) - total_wt (ballots np) ==
      t * Qnat (length W) +
      Qnat (length (filter (fun r => negb (nonempty (strip W r))) (concat ls))).
Proof. exact (round_accounting_random cand ceqb ceqb_spec). Qed.

(* one winner in the round: exactly the threshold disappears (the winner's exhausted ballots are
   part of the quota he keeps; if they exceed it the transfer fails with ValueError, see
   c03_rand_errors) *)
Theorem c03_stv_accounting_random_single : forall cfg t (p0 p : profile) prev n (s s' : mstate) np st,
  step_ctx p0 p prev ->
  stv_step cfg t p0 n p prev s = inl ((np, st), s') ->
  s_transfer cfg = TRandom -> script_ok s -> is_integral t = true ->
  (exists c, reaches t p c) ->
  length (flat (elected st)) = 1%nat ->
  total_wt (ballots p) - total_wt (ballots np) == t.
Proof. exact (round_accounting_random_single cand ceqb ceqb_spec). Qed.

(* in particular every election round of the one-by-one mode *)
Theorem c03_stv_accounting_random_one_by_one :
  forall cfg t (p0 p : profile) prev n (s s' : mstate) np st,
  step_ctx p0 p prev ->
  stv_step cfg t p0 n p prev s = inl ((np, st), s') ->
  s_transfer cfg = TRandom -> script_ok s -> is_integral t = true ->
  (exists c, reaches t p c) ->
  s_simul cfg = false ->
  total_wt (ballots p) - total_wt (ballots np) == t.
Proof. exact (round_accounting_random_one_by_one cand ceqb ceqb_spec). Qed.

End C03_random.

Print Assumptions c03_rand_total_gen.
Print Assumptions c03_rand_total.
Print Assumptions c03_stv_accounting_random.
Print Assumptions c03_stv_accounting_random_single.
Print Assumptions c03_stv_accounting_random_one_by_one.

(* ---------- non-vacuity ---------- *)
Module C03RandomExamples.
Open Scope positive_scope.

Definition bal (r : list positive) (w : Q) : ballot positive :=
  mkBallot (map (fun c => [c]) r) w [] None None.
Definition s0_of (p : profile positive) : estate positive :=
  match initial_state positive Pos.eqb p with inl s0 => s0 | inr _ => mkState 0%Z [] [] [] [] [] end.

(* one transfer: winner 1 with tally 6, threshold 4, two sampled units, 5 units not led by 1 *)
Definition pile1 : list (ballot positive) :=
  [bal [1;2;3] 3; bal [1] 1; bal [1;2] 2; bal [2;1;3] 5].

Example c03r_ex_transfer :
  all_pos positive pile1 /\
  exists out s',
    STV.rand_transfer positive Pos.eqb 1 6 pile1 4 (mkM [DRanks [[[2];[3]]; [[2]]]] []) = inl (out, s') /\
    total_wt positive out == 7 /\
    wt_where positive (fun b => negb (Core.first_is positive Pos.eqb 1 b) &&
                                nonempty (Core.strip positive Pos.eqb [1] (rk b))) pile1 == 5.
Proof. split; [repeat constructor|]. eexists. eexists. repeat split; vm_compute; reflexivity. Qed.

(* (a) one winner.  A>B x4, A x2 (bullet votes), B x3, C x2; two seats; Droop quota 4.  A (tally 6)
   is elected; two units are sampled from the transferable A>B ballots; the total drops 11 -> 7 *)
Definition exa_p : profile positive :=
  mkProfile [bal [1; 2] 4; bal [1] 2; bal [2] 3; bal [3] 2] [1; 2; 3].
Definition exa_cfg : stv_cfg := mkStv 2%Z QDroop true TRandom None.
Definition exa_s : mstate positive := mkM [DRanks [[[2]]; [[2]]]] [].

Example exa_hyps :
  step_ctx positive Pos.eqb exa_p exa_p (s0_of exa_p) /\ script_ok positive exa_s /\
  is_integral 4 = true /\ reaches positive Pos.eqb 4 exa_p 1.
Proof.
  assert (H : wf_stv_profile positive exa_p).
  { apply (wf_stv_profile_b_ok positive Pos.eqb Pos.eqb_spec). vm_compute. reflexivity. }
  split.
  { constructor; try apply H; [apply incl_refl|]. split; vm_compute; reflexivity. }
  split; [repeat constructor|]. split; [reflexivity|].
  split; [left; reflexivity|]. vm_compute. discriminate.
Qed.

Example exa_round :
  match STV.stv_step positive Pos.eqb exa_cfg 4 exa_p 0%Z exa_p (s0_of exa_p) exa_s with
  | inl ((np, st), s') =>
      elected st = [[1]] /\ scr s' = [] /\
      total_wt positive (ballots exa_p) - total_wt positive (ballots np) == 4
  | inr _ => False
  end.
Proof. vm_compute. repeat split. Qed.

(* (b) two simultaneous winners.  A>B x4, B>A x3, C>A x1; two seats; Droop quota 3.  A (4) and B (3)
   are elected together; A's sample is one unit [B], B's sample is empty; the sampled ballot lists
   only the other winner and disappears: the total drops 8 -> 1 = 2 * 3 + 1 *)
Definition exb_p : profile positive :=
  mkProfile [bal [1; 2] 4; bal [2; 1] 3; bal [3; 1] 1] [1; 2; 3].
Definition exb_s : mstate positive := mkM [DRanks [[[2]]]; DRanks []] [].

Example exb_hyps :
  step_ctx positive Pos.eqb exb_p exb_p (s0_of exb_p) /\ script_ok positive exb_s /\
  is_integral 3 = true /\ reaches positive Pos.eqb 3 exb_p 1.
Proof.
  assert (H : wf_stv_profile positive exb_p).
  { apply (wf_stv_profile_b_ok positive Pos.eqb Pos.eqb_spec). vm_compute. reflexivity. }
  split.
  { constructor; try apply H; [apply incl_refl|]. split; vm_compute; reflexivity. }
  split; [repeat constructor|]. split; [reflexivity|].
  split; [left; reflexivity|]. vm_compute. discriminate.
Qed.

Example exb_round :
  match STV.stv_step positive Pos.eqb exa_cfg 3 exb_p 0%Z exb_p (s0_of exb_p) exb_s with
  | inl ((np, st), s') =>
      elected st = [[1]; [2]] /\ scr s' = [] /\
      total_wt positive (ballots exb_p) - total_wt positive (ballots np) == 3 * 2 + 1 /\
      length (filter (fun r => negb (nonempty (Core.strip positive Pos.eqb [1; 2] r)))
                     (concat [[[[2]]]; []])) = 1%nat
  | inr _ => False
  end.
Proof. vm_compute. repeat split. Qed.

End C03RandomExamples.
