(* Properties/C14.v — ballot generators return well-formed profiles of exactly the requested size.
   Statements only; proofs are in Proofs/C14_wf.v (common tails), Proofs/C14_kernels.v (per-ballot
   kernels) and Proofs/C14_types.v (slate ballot types).
   Model (Model/Generators.v, candidates and blocs numbered, [pcand] = [bloc] = positive):
     pl_ballot            one ballot of short_name_PlackettLuce / name_PlackettLuce
     cumulative_ballot    one ballot of name_Cumulative
     table_bloc           BallotSimplex / exact name_BradleyTerry: n draws from a table
     type_loop            one ballot type of sample_cohesion_ballot_types
     fill_type, slate_ballot   slate_PlackettLuce / slate_BradleyTerry: fill a type with per-slate orders
     ac_ballot, ac_bloc   AlternatingCrossover
     sort_by_distance     OneDimSpatial / Spatial / ClusteredSpatial: rank by distance
     pool_to_profile      ballot_pool_to_profile
     finish_blocs         per bloc PreferenceProfile(...).condense_ballots(), aggregate by +=
     bt_mcmc_run/_bloc, slate_mcmc_run   the MCMC samplers
   Every random kernel takes the primitive's recorded result as an argument ("draw"), rejects
   impossible results with EScript and reports the primitive calls it stands for; "for every
   stream" = for every draw on which the function returns [inl].
   Spec vocabulary (Spec/GenSpec.v): whole_pos q (q is a positive whole number), whole_pos_weights,
   pool_count, draw_count, size_of, type_multiset, order_of, slots, at_distance;
   (Spec/Content.v) wtof k bs = total weight of the ballots of bs with the content of k,
   distinct_contents. *)
From VK Require Import Base Core GenValidation PrefInterval Generators Content GenSpec.
From VK Require Import C14_wf C14_kernels C14_types.
From Coq Require Import Permutation Sorting.Sorted.

(* ====================== A8. condense per bloc, add up ====================== *)

(* shape of the result: one condensed profile per pool, in order; the aggregate lists them all *)
Theorem c14_finish_blocs : forall pools by_bloc agg,
  finish_blocs pools = inl (by_bloc, agg) ->
  Forall2 (fun (bp : bloc * list gballot) (bq : bloc * gprofile) =>
             fst bq = fst bp /\
             ballots (snd bq) = condense_bs pcand Pos.eqb (snd bp) /\
             cands (snd bq) = cast_cands pcand Pos.eqb (snd bp))
          pools by_bloc /\
  ballots agg = concat (map (fun bq => ballots (snd bq)) by_bloc) /\
  (by_bloc <> [] -> cands agg = cast_cands pcand Pos.eqb (ballots agg)).
Proof. exact finish_blocs_ok. Qed.
Print Assumptions c14_finish_blocs.

Theorem c14_finish_never_errors : forall pools, exists r, finish_blocs pools = inl r.
Proof. exact finish_blocs_never_errors. Qed.
Print Assumptions c14_finish_never_errors.

(* each per-bloc profile is the condensed pool *)
Theorem c14_by_bloc_condensed : forall pools by_bloc agg,
  finish_blocs pools = inl (by_bloc, agg) ->
  Forall2 (fun (bp : bloc * list gballot) (bq : bloc * gprofile) =>
     fst bq = fst bp /\
     (forall k, wtof pcand Pos.eqb k (ballots (snd bq)) == wtof pcand Pos.eqb k (snd bp)) /\
     distinct_contents pcand Pos.eqb (ballots (snd bq)) /\
     (forall x, In x (ballots (snd bq)) -> exists y, In y (snd bp) /\ rk x = rk y /\ sc x = sc y) /\
     (forall y, In y (snd bp) ->
        exists x, In x (ballots (snd bq)) /\ same_content pcand Pos.eqb x y = true) /\
     total_wt pcand (ballots (snd bq)) == total_wt pcand (snd bp) /\
     (whole_pos_weights (snd bp) -> whole_pos_weights (ballots (snd bq))) /\
     ((forall b, In b (snd bp) -> wt b == 1) ->
      total_wt pcand (ballots (snd bq)) == Qnat (length (snd bp))))
    pools by_bloc.
Proof. exact by_bloc_condensed. Qed.
Print Assumptions c14_by_bloc_condensed.

(* the per-bloc profiles add up to the aggregate, content by content *)
Theorem c14_by_bloc_sum : forall pools by_bloc agg,
  finish_blocs pools = inl (by_bloc, agg) ->
  forall k,
    wtof pcand Pos.eqb k (ballots agg) ==
      qsum (map (fun bq => wtof pcand Pos.eqb k (ballots (snd bq))) by_bloc) /\
    wtof pcand Pos.eqb k (ballots agg) ==
      qsum (map (fun bp => wtof pcand Pos.eqb k (snd bp)) pools).
Proof. exact by_bloc_sum. Qed.
Print Assumptions c14_by_bloc_sum.

(* total weight: with unit-weight pools (what every kernel produces) it is the number of generated
   ballots; with pools of the apportioned sizes n_1 + ... + n_k = N it is exactly N *)
Theorem c14_total : forall pools by_bloc agg,
  finish_blocs pools = inl (by_bloc, agg) ->
  total_wt pcand (ballots agg) == qsum (map (fun bq => total_wt pcand (ballots (snd bq))) by_bloc) /\
  total_wt pcand (ballots agg) == qsum (map (fun bp => total_wt pcand (snd bp)) pools) /\
  ((forall bp b, In bp pools -> In b (snd bp) -> wt b == 1) ->
   total_wt pcand (ballots agg) == Qnat (list_sum (map (fun bp => length (snd bp)) pools))).
Proof. exact finish_total. Qed.
Print Assumptions c14_total.

Theorem c14_integral_positive : forall pools by_bloc agg,
  finish_blocs pools = inl (by_bloc, agg) ->
  (forall bp, In bp pools -> whole_pos_weights (snd bp)) ->
  whole_pos_weights (ballots agg) /\
  (forall bq, In bq by_bloc -> whole_pos_weights (ballots (snd bq))).
Proof. exact finish_integral_positive. Qed.
Print Assumptions c14_integral_positive.

(* ====================== A1. Plackett-Luce ballots ====================== *)

(* [bl] = requested ballot length; the draw is (order of non-zero candidates, tied zero candidates) *)
Theorem c14_pl_ballot : forall iv bl d b calls,
  pl_ballot iv bl d = inl (b, calls) ->
  let k := Nat.min bl (length (pi_int iv)) in
  let tied := (bl - length (pi_int iv))%nat in
  wt b == 1 /\ sc b = [] /\
  (exists order tail,
     order = fst d /\ (tied <> O -> tail = snd d) /\
     rk b = singletons pcand order ++ (match tail with [] => [] | _ => [tail] end) /\
     length order = k /\ NoDup order /\ incl order (map fst (pi_int iv)) /\
     length tail = tied /\ NoDup tail /\ incl tail (pi_zero iv)) /\
  calls = GPL (pi_int iv) k :: (if Nat.eqb tied 0 then [] else [GUniSub (pi_zero iv) tied]) /\
  length (flat pcand (rk b)) = bl /\
  incl (flat pcand (rk b)) (pi_cands iv) /\
  ((forall c, In c (map fst (pi_int iv)) -> ~ In c (pi_zero iv)) -> NoDup (flat pcand (rk b))).
Proof. exact pl_ballot_wf. Qed.
Print Assumptions c14_pl_ballot.

(* name_PlackettLuce (ballot length = number of candidates): complete, zero-support candidates only
   as the final tied group *)
Theorem c14_pl_complete : forall iv d b calls,
  NoDup (pi_cands iv) ->
  pl_ballot iv (length (pi_cands iv)) d = inl (b, calls) ->
  exists order tail,
    rk b = singletons pcand order ++ (match tail with [] => [] | _ => [tail] end) /\
    Permutation order (map fst (pi_int iv)) /\
    Permutation tail (pi_zero iv) /\
    Permutation (flat pcand (rk b)) (pi_cands iv).
Proof. exact pl_complete. Qed.
Print Assumptions c14_pl_complete.

(* ValueError exactly when more tied places are requested than zero-support candidates exist *)
Theorem c14_pl_errors : forall iv bl d,
  let k := Nat.min bl (length (pi_int iv)) in
  let tied := (bl - length (pi_int iv))%nat in
  (forall e, pl_ballot iv bl d = inr e -> e = EScript \/ e = EValue) /\
  (pl_ballot iv bl d = inr EValue <->
   valid_sample (map fst (pi_int iv)) k (fst d) = true /\ (length (pi_zero iv) < tied)%nat).
Proof. exact pl_ballot_errors. Qed.
Print Assumptions c14_pl_errors.

(* ====================== A2. cumulative ballots ====================== *)

Theorem c14_cumulative_points : forall iv nv d b calls,
  cumulative_ballot iv nv d = inl (b, calls) ->
  rk b = [] /\ wt b == 1 /\
  length d = nv /\ incl d (map fst (pi_int iv)) /\
  NoDup (map fst (sc b)) /\
  (forall c, In c (map fst (sc b)) <-> In c d) /\
  incl (map fst (sc b)) (map fst (pi_int iv)) /\
  (forall c v, In (c, v) (sc b) -> whole_pos v /\ v == Qnat (draw_count d c)) /\
  qsum (map snd (sc b)) == Qnat nv /\
  calls = [GIID (pi_int iv) nv].
Proof. exact cumulative_ballot_wf. Qed.
Print Assumptions c14_cumulative_points.

(* ====================== A3. table samplers ====================== *)

Theorem c14_table_bloc : forall tbl zero n draws bs calls,
  table_bloc tbl zero n draws = inl (bs, calls) ->
  length draws = n /\ length bs = n /\ calls = [GTable tbl n] /\
  bs = map (fun r => unit_ballot (rank_of r zero)) draws /\
  (forall r, In r draws -> exists v, In (r, v) tbl /\ 0 < v).
Proof. exact table_bloc_ok. Qed.
Print Assumptions c14_table_bloc.

(* exact name-Bradley-Terry: every ballot ranks all non-zero candidates, then the zero group *)
Theorem c14_table_bloc_bt : forall d zero n draws bs calls,
  (forall c s, In (c, s) d -> 0 < s) ->
  table_bloc (bt_pdf d) zero n draws = inl (bs, calls) ->
  length bs = n /\ calls = [GTable (bt_pdf d) n] /\
  forall b, In b bs ->
    exists r, Permutation r (map fst d) /\
      rk b = singletons pcand r ++ (match zero with [] => [] | _ => [zero] end) /\
      wt b == 1 /\ sc b = [] /\ flat pcand (rk b) = r ++ zero.
Proof. exact table_bloc_bt. Qed.
Print Assumptions c14_table_bloc_bt.

(* ====================== A4. slate ballot types and slate ballots ====================== *)

(* the type loop returns an arrangement of the multiset {b repeated size(b)}; the shuffle result
   handed to the loop has to be a rearrangement of the population the loop reports *)
Theorem c14_type_loop : forall sizes flips blocs values sh t calls,
  NoDup blocs -> length blocs = length values ->
  Forall (fun v => 0 <= v) values ->
  (forall b, In b blocs -> (1 <= size_of sizes b)%nat) ->
  length flips = list_sum (map (size_of sizes) blocs) ->
  (forall pop, In (GShuffle pop) calls -> exists s, sh = Some s /\ Permutation s pop) ->
  type_loop flips blocs values sizes [] sh = inl (t, calls) ->
  (forall b, In b blocs -> count_bloc b t = size_of sizes b) /\
  (forall b, ~ In b blocs -> count_bloc b t = O) /\
  Permutation t (type_multiset sizes blocs) /\
  length t = length flips.
Proof. exact type_loop_arrangement. Qed.
Print Assumptions c14_type_loop.

(* filling a type: the positions labelled b carry the first (count of b) candidates of b's order *)
Theorem c14_fill_type : forall t orders r,
  fill_type t orders = inl r ->
  length r = length t /\
  forall b, slots b t r = firstn (count_bloc b t) (order_of orders b).
Proof. exact fill_type_spec. Qed.
Print Assumptions c14_fill_type.

Theorem c14_slate_ballot : forall intervals zero t orders b calls,
  NoDup (map fst intervals) ->
  (forall x, In x t -> In x (map fst intervals)) ->
  (forall bl iv, In (bl, iv) intervals -> count_bloc bl t = length (pi_int iv)) ->
  slate_ballot intervals zero t orders = inl (b, calls) ->
  exists r,
    wt b == 1 /\ sc b = [] /\
    rk b = singletons pcand r ++ (match zero with [] => [] | _ => [zero] end) /\
    flat pcand (rk b) = r ++ zero /\
    length r = length t /\
    (forall bl iv, In (bl, iv) intervals ->
       (pi_int iv <> [] -> slots bl t r = order_of orders bl) /\
       length (slots bl t r) = length (pi_int iv) /\ NoDup (slots bl t r) /\
       incl (slots bl t r) (map fst (pi_int iv)) /\
       (NoDup (map fst (pi_int iv)) -> Permutation (slots bl t r) (map fst (pi_int iv)))) /\
    Permutation r (concat (map (fun x : bloc * pinterval => slots (fst x) t r) intervals)) /\
    calls = map (fun x : bloc * pinterval => GPL (pi_int (snd x)) (length (pi_int (snd x))))
                (filter (fun x : bloc * pinterval => nonempty (pi_int (snd x))) intervals).
Proof. exact slate_ballot_wf. Qed.
Print Assumptions c14_slate_ballot.

(* ====================== A5. AlternatingCrossover ====================== *)

Theorem c14_ac_ballot : forall cross bo oo,
  wt (ac_ballot cross bo oo) == 1 /\ sc (ac_ballot cross bo oo) = [] /\
  rk (ac_ballot cross bo oo) = singletons pcand (if cross then interleave oo bo else bo ++ oo) /\
  flat pcand (rk (ac_ballot cross bo oo)) = (if cross then interleave oo bo else bo ++ oo) /\
  incl (flat pcand (rk (ac_ballot cross bo oo))) (bo ++ oo) /\
  (cross = false -> flat pcand (rk (ac_ballot cross bo oo)) = bo ++ oo) /\
  (cross = true ->
     (Permutation (flat pcand (rk (ac_ballot cross bo oo))) (bo ++ oo) <-> length bo = length oo)).
Proof. exact ac_ballot_wf. Qed.
Print Assumptions c14_ac_ballot.

(* known finding: with slates of different sizes a crossover ballot is truncated *)
Theorem c14_ac_truncates : forall bo oo,
  length bo <> length oo ->
  length (flat pcand (rk (ac_ballot true bo oo))) = (2 * Nat.min (length bo) (length oo))%nat /\
  (length (flat pcand (rk (ac_ballot true bo oo))) < length bo + length oo)%nat.
Proof. exact ac_truncates. Qed.
Print Assumptions c14_ac_truncates.

Theorem c14_ac_bloc : forall draws n_cross i pb po p_bloc p_opp bs calls,
  ac_bloc n_cross i pb po p_bloc p_opp draws = inl (bs, calls) ->
  length bs = length draws /\
  (forall k d, nth_error draws k = Some d ->
     nth_error bs k = Some (ac_ballot (Nat.ltb (i + k) n_cross) (fst d) (snd d)) /\
     Permutation (fst d) pb /\ Permutation (snd d) po).
Proof. exact ac_bloc_ok. Qed.
Print Assumptions c14_ac_bloc.

(* ====================== A6. spatial models ====================== *)

(* for every stream of positions (= every list of distances): a rearrangement of the candidates,
   by non-decreasing distance, candidates at equal distance in candidate order (stable) *)
Theorem c14_spatial_sorted : forall cs dists,
  length cs = length dists ->
  exists sorted : list (pcand * Q),
    sort_by_distance cs dists = map fst sorted /\
    Permutation sorted (combine cs dists) /\
    StronglySorted (fun a b => snd a <= snd b) sorted /\
    (forall q, at_distance q sorted = at_distance q (combine cs dists)) /\
    Permutation (sort_by_distance cs dists) cs.
Proof. exact sort_by_distance_ok. Qed.
Print Assumptions c14_spatial_sorted.

(* ====================== A7. ballot_pool_to_profile ====================== *)

Theorem c14_pool_to_profile : forall pool cs p,
  pool_to_profile pool cs = inl p ->
  NoDup cs /\ (cs <> [] -> cands p = cs) /\
  (forall b, In b (ballots p) ->
     exists r, In r pool /\ rk b = singletons pcand r /\ sc b = [] /\
               wt b = Qnat (pool_count pool r) /\ (0 < pool_count pool r)%nat) /\
  (forall r, In r pool -> exists b, In b (ballots p) /\ rk b = singletons pcand r) /\
  NoDup (map rk (ballots p)) /\
  total_wt pcand (ballots p) == Qnat (length pool) /\
  whole_pos_weights (ballots p).
Proof. exact pool_to_profile_ok. Qed.
Print Assumptions c14_pool_to_profile.

Theorem c14_pool_to_profile_errors : forall pool cs,
  (forall e, pool_to_profile pool cs = inr e -> e = EValue) /\
  (pool_to_profile pool cs = inr EValue <-> ~ NoDup cs) /\
  (NoDup cs -> exists p, pool_to_profile pool cs = inl p).
Proof. exact pool_to_profile_errors. Qed.
Print Assumptions c14_pool_to_profile_errors.

(* ====================== A9. MCMC kernels ====================== *)

Theorem c14_bt_mcmc_perm : forall iv steps cur r,
  In r (bt_mcmc_run iv cur steps) -> Permutation r cur.
Proof. exact bt_mcmc_run_perm. Qed.
Print Assumptions c14_bt_mcmc_perm.

Theorem c14_bt_mcmc_bloc : forall iv seed steps bs,
  bt_mcmc_bloc iv seed steps = inl bs ->
  length seed = length (pi_int iv) /\ NoDup seed /\ incl seed (map fst (pi_int iv)) /\
  (NoDup (map fst (pi_int iv)) -> Permutation seed (map fst (pi_int iv))) /\
  length bs = length steps /\
  forall b, In b bs ->
    exists r, Permutation r seed /\
      rk b = singletons pcand r ++ (match pi_zero iv with [] => [] | _ => [pi_zero iv] end) /\
      wt b == 1 /\ sc b = [] /\ flat pcand (rk b) = r ++ pi_zero iv.
Proof. exact bt_mcmc_bloc_ok. Qed.
Print Assumptions c14_bt_mcmc_bloc.

Theorem c14_slate_mcmc_perm : forall own c steps cur t,
  In t (slate_mcmc_run own c cur steps) ->
  Permutation t cur /\ forall b, count_bloc b t = count_bloc b cur.
Proof. exact slate_mcmc_run_perm. Qed.
Print Assumptions c14_slate_mcmc_perm.

(* ====================== non-vacuity ====================== *)

Local Open Scope positive_scope.

Definition ex_iv : pinterval := mkPI [(1, 1#2); (2, 1#2)] [3].

(* short PL of length 3 over two supported candidates and one zero-support candidate *)
Example ex_pl : exists b calls, pl_ballot ex_iv 3 ([2; 1], [3]) = inl (b, calls) /\
  rk b = [[2]; [1]; [3]] /\ length (pi_cands ex_iv) = 3%nat /\ NoDup (pi_cands ex_iv).
Proof.
  eexists. eexists. split; [vm_compute; reflexivity|]. split; [reflexivity|]. split; [reflexivity|].
  repeat constructor; cbn; intuition discriminate.
Qed.

(* ... and the documented ValueError: 2 tied places, one zero-support candidate *)
Example ex_pl_error : pl_ballot ex_iv 4 ([2; 1], [3]) = inr EValue.
Proof. vm_compute. reflexivity. Qed.

Example ex_cumulative : exists b calls, cumulative_ballot ex_iv 3 [2; 1; 2] = inl (b, calls) /\
  sc b = [(2, 2%Q); (1, 1%Q)].
Proof. eexists. eexists. split; vm_compute; reflexivity. Qed.

Definition ex_ub (r : list pcand) : gballot := unit_ballot (singletons pcand r).

Example ex_finish : exists by_bloc agg,
  finish_blocs [(1, [ex_ub [1; 2]; ex_ub [2; 1]; ex_ub [1; 2]]); (2, [ex_ub [2; 1]])]
    = inl (by_bloc, agg) /\
  map (fun bq => map wt (ballots (snd bq))) by_bloc = [[2; 1]; [1]]%Q /\
  length (ballots agg) = 3%nat.
Proof. eexists. eexists. split; [vm_compute; reflexivity|]. split; vm_compute; reflexivity. Qed.

(* a type of two slates of sizes 2 and 1, cohesion 3/4 : 1/4; the second flip exhausts nothing,
   the third exhausts slate 1, renormalisation leaves slate 2 with value 1 *)
Example ex_type_loop :
  type_loop [1#2; 9#10; 1#4]%Q [1; 2] [3#4; 1#4]%Q [(1, 2%nat); (2, 1%nat)] [] None
  = inl ([1; 2; 1], []).
Proof. vm_compute. reflexivity. Qed.

(* zero cohesion for the other slate: after slate 1 is used up the rest is shuffled *)
Example ex_type_loop_shuffle :
  type_loop [1#2; 1#2; 1#2]%Q [1; 2] [1; 0]%Q [(1, 1%nat); (2, 2%nat)] [] (Some [2; 2])
  = inl ([1; 2; 2], [GShuffle [2; 2]]).
Proof. vm_compute. reflexivity. Qed.

Example ex_slate_ballot : exists b calls,
  slate_ballot [(1, mkPI [(1, 1#2); (2, 1#2)] []); (2, mkPI [(3, 1%Q)] [4])] [4] [1; 2; 1]
               [(1, [2; 1]); (2, [3])] = inl (b, calls) /\
  rk b = [[2]; [3]; [1]; [4]].
Proof. eexists. eexists. split; vm_compute; reflexivity. Qed.

Example ex_ac_truncated :
  flat pcand (rk (ac_ballot true [1; 2; 3] [4])) = [4; 1].
Proof. vm_compute. reflexivity. Qed.

(* ties keep candidate order *)
Example ex_sort : sort_by_distance [1; 2; 3; 4] [1; 1#2; 1; 1#2]%Q = [2; 4; 1; 3].
Proof. vm_compute. reflexivity. Qed.

Example ex_pool : exists p, pool_to_profile [[1; 2]; [2; 1]; [1; 2]] [1; 2] = inl p /\
  map wt (ballots p) = [Qnat 2; Qnat 1] /\ cands p = [1; 2].
Proof. eexists. split; [vm_compute; reflexivity|]. split; vm_compute; reflexivity. Qed.

Example ex_bt_mcmc : exists bs,
  bt_mcmc_bloc ex_iv [1; 2] [(0%nat, 1#3); (0%nat, 2)]%Q = inl bs /\
  map (fun b => flat pcand (rk b)) bs = [[2; 1; 3]; [2; 1; 3]].
Proof. eexists. split; vm_compute; reflexivity. Qed.
