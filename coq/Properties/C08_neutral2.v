(* Properties/C08_neutral2.v — C08, neutrality, second file: the utilities and entry points that
   Properties/C08.v (c08_neutral and its c08_neutral_* companions) does not state:
     1. has_condorcet_winner and get_condorcet_winner,
     2. the tiebreak utilities draw_perm / random_break / tiebreak_set (script renamed along),
     3. get_status (and its per-candidate scan),
     4. get_profile / get_step (and the per-round replay) for every rule,
     5. PluralityVeto — run_pv is not a constructor of [rule], so c08_neutral does not cover it —
        together with each helper of Model/PV.v, and run_wrule (every public election class:
        the wrapper classes and PluralityVeto).
   Statements only.  Proofs: Proofs/C08_neutral2.v, from the free theorems obtained with Paramcoq in
   Proofs/ParamModel.v and Proofs/C08_neutral2_param.v, via the bridges of Proofs/ParamBridge.v.
   Vocabulary: Spec/Rename.v (rn_cset, rn_ranking, rn_scores, rn_ballot(s), rn_profile, rn_tiebreak,
   rn_state(s), rn_mstate, rn_res, rn_mres) and Spec/Rename2.v (rn_status, rn_step, rn_pv_obj,
   rn_pv_step, rn_veto); Spec/CondorcetWinnerFn.v (get_condorcet_winner).
   In every statement: the left-hand side runs the model function on the RENAMED inputs (candidate
   sets, profiles, recorded states, draw script and call log all renamed by [f]); the right-hand side
   renames the result of the run on the original inputs.  [rn_res g] / [rn_mres f g] rename a
   successful result with [g] (and the final script and log with [f]) and keep an error unchanged. *)
From VK Require Import Base Core STV Pairwise Rules PV Election Election2.
From VK.Spec Require Import CondorcetWinnerFn Rename Rename2.
From VK.Proofs Require Import C08_neutral C08_neutral2.

(* ====================================================================== *)
(** * Neutrality under a renaming that preserves the equality tests.
    [A], [B] are two candidate types (possibly the same) with equality tests [ea], [eb];
    [f : A -> B] preserves the tests (for reflecting tests: [f] is injective, see the second
    section). *)

Section Neutrality2.
Variables A B : Type.
Variable ea : A -> A -> bool.
Variable eb : B -> B -> bool.
Variable f : A -> B.
Hypothesis f_eqb : forall x y, eb (f x) (f y) = ea x y.

(* ---- 1. Condorcet winner ---- *)

(* the answer (true / false / the error) is the same on the renamed profile *)
Theorem c08_neutral_has_condorcet_winner : forall p : profile A,
  has_condorcet_winner B eb (rn_profile f p) = has_condorcet_winner A ea p.
Proof. exact (has_condorcet_winner_rename A B ea eb f f_eqb). Qed.

(* the winner is renamed; ValueError when there is none is unchanged *)
Theorem c08_neutral_get_condorcet_winner : forall p : profile A,
  get_condorcet_winner B eb (rn_profile f p) = rn_res f (get_condorcet_winner A ea p).
Proof. exact (get_condorcet_winner_rename A B ea eb f f_eqb). Qed.

(* ---- 2. tiebreaks, with the script renamed along ---- *)

(* random.sample of a candidate set: the scripted permutation is validated against the set *)
Theorem c08_neutral_draw_perm : forall (g : cset A) (s : mstate A),
  draw_perm B eb (rn_cset f g) (rn_mstate f s) = rn_mres f (rn_cset f) (draw_perm A ea g s).
Proof. exact (draw_perm_rename A B ea eb f f_eqb). Qed.

(* tiebroken_ranking(r, profile, "random") *)
Theorem c08_neutral_random_break : forall (r : ranking A) (s : mstate A),
  random_break B eb (rn_ranking f r) (rn_mstate f s)
  = rn_mres f (rn_ranking f) (random_break A ea r s).
Proof. exact (random_break_rename A B ea eb f f_eqb). Qed.

(* tiebreak_set, EVERY tiebreak kind (random, first_place, borda, and the invalid kind), with or
   without a profile, from every script: the resolution is renamed, the unused script and the logged
   calls are renamed, the errors (EScript on an exhausted or ill-typed script, EValue, the errors of
   the scoring) are the same *)
Theorem c08_neutral_tiebreak_set :
  forall (g : cset A) (p : option (profile A)) (tb : tb_kind) (s : mstate A),
  tiebreak_set B eb (rn_cset f g) (option_map (rn_profile f) p) tb (rn_mstate f s)
  = rn_mres f (rn_ranking f) (tiebreak_set A ea g p tb s).
Proof. exact (tiebreak_set_rename A B ea eb f f_eqb). Qed.

(* ---- 3. the status table ---- *)

(* one candidate's (status code, round) after scanning the rounds *)
Theorem c08_neutral_status_scan : forall (sts : list (estate A)) (i : Z) (c : A) (acc : Z * Z),
  status_scan B eb (rn_states f sts) i (f c) acc = status_scan A ea sts i c acc.
Proof. exact (status_scan_rename A B ea eb f f_eqb). Qed.

(* get_status_df: the rows come in the same order, candidates renamed, codes and rounds unchanged;
   IndexError unchanged *)
Theorem c08_neutral_get_status : forall (cs : cset A) (sts : list (estate A)) (i : Z),
  get_status B eb (rn_cset f cs) (rn_states f sts) i
  = rn_res (rn_status f) (get_status A ea cs sts i).
Proof. exact (get_status_rename A B ea eb f f_eqb). Qed.

(* ---- 4. get_profile / get_step, every rule, every script ---- *)

(* one replayed round *)
Theorem c08_neutral_replay_step :
  forall (r : rule) (p0 p : profile A) (prev : estate A) (s : mstate A),
  replay_step B eb r (rn_profile f p0) (rn_profile f p) (rn_state f prev) (rn_mstate f s)
  = rn_mres f (rn_profile f) (replay_step A ea r p0 p prev s).
Proof. exact (replay_step_rename A B ea eb f f_eqb). Qed.

Theorem c08_neutral_get_profile :
  forall (r : rule) (p : profile A) (sts : list (estate A)) (i : Z) (s : mstate A),
  get_profile B eb r (rn_profile f p) (rn_states f sts) i (rn_mstate f s)
  = rn_mres f (rn_profile f) (get_profile A ea r p sts i s).
Proof. exact (get_profile_rename A B ea eb f f_eqb). Qed.

Theorem c08_neutral_get_step :
  forall (r : rule) (p : profile A) (sts : list (estate A)) (i : Z) (s : mstate A),
  get_step B eb r (rn_profile f p) (rn_states f sts) i (rn_mstate f s)
  = rn_mres f (rn_step f) (get_step A ea r p sts i s).
Proof. exact (get_step_rename A B ea eb f f_eqb). Qed.

(* ---- 5. PluralityVeto ---- *)

(* the whole run, every [m], every tiebreak setting, every script (the voter order [DIdxs] carries no
   candidate and is unchanged; the [DPerm] draws of the veto tiebreaks are renamed): every round's
   remaining / elected / eliminated groups, recorded tiebreaks and tallies are renamed, the final
   script and log are renamed, the errors are the same *)
Theorem c08_neutral_pv : forall (m : Z) (tb : option tb_kind) (p : profile A) (s : mstate A),
  run_pv B eb m tb (rn_profile f p) (rn_mstate f s)
  = rn_mres f (rn_states f) (run_pv A ea m tb p s).
Proof. exact (run_pv_rename A B ea eb f f_eqb). Qed.

(* its helpers *)
Theorem c08_neutral_pv_validate : forall p : profile A,
  pv_validate B (rn_profile f p) = pv_validate A p.
Proof. exact (pv_validate_rename A B f). Qed.

Theorem c08_neutral_pv_has_tie : forall b : ballot A, has_tie B (rn_ballot f b) = has_tie A b.
Proof. exact (has_tie_rename A B f). Qed.

Theorem c08_neutral_pv_decondense : forall bs : list (ballot A),
  decondense B (rn_ballots f bs) = rn_ballots f (decondense A bs).
Proof. exact (decondense_rename A B f). Qed.

Theorem c08_neutral_pv_scores : forall bs : list (ballot A),
  pv_scores B eb (rn_ballots f bs) = rn_res (rn_scores f) (pv_scores A ea bs).
Proof. exact (pv_scores_rename A B ea eb f f_eqb). Qed.

Theorem c08_neutral_pv_dec : forall (c : A) (d : scores A),
  dec B eb (f c) (rn_scores f d) = rn_res (rn_scores f) (dec A ea c d).
Proof. exact (dec_rename A B ea eb f f_eqb). Qed.

Theorem c08_neutral_pv_veto_loop :
  forall (order : list nat) (idx : nat) (bs : list (ballot A)) (p : profile A)
         (tb : option tb_kind) (d : scores A) (tbs : list (cset A * ranking A)) (s : mstate A),
  veto_loop B eb order idx (rn_ballots f bs) (rn_profile f p) tb (rn_scores f d)
    (map (rn_tiebreak f) tbs) (rn_mstate f s)
  = rn_mres f (rn_veto f) (veto_loop A ea order idx bs p tb d tbs s).
Proof. exact (veto_loop_rename A B ea eb f f_eqb). Qed.

Theorem c08_neutral_pv_step :
  forall (m : Z) (tb : option tb_kind) (n_cands : nat) (o : pv_obj A) (p : profile A)
         (prev : estate A) (s : mstate A),
  pv_step B eb m tb n_cands (rn_pv_obj f o) (rn_profile f p) (rn_state f prev) (rn_mstate f s)
  = rn_mres f (rn_pv_step f) (pv_step A ea m tb n_cands o p prev s).
Proof. exact (pv_step_rename A B ea eb f f_eqb). Qed.

Theorem c08_neutral_pv_loop :
  forall (fuel : nat) (m : Z) (tb : option tb_kind) (n_cands : nat) (o : pv_obj A) (p : profile A)
         (sts : list (estate A)) (s : mstate A),
  pv_loop B eb fuel m tb n_cands (rn_pv_obj f o) (rn_profile f p) (rn_states f sts) (rn_mstate f s)
  = rn_mres f (rn_states f) (pv_loop A ea fuel m tb n_cands o p sts s).
Proof. exact (pv_loop_rename A B ea eb f f_eqb). Qed.

(* ---- every public election class: the base rules, the wrapper classes (IRV, SequentialRCV, SNTV,
   Rating, Approval, Cumulative) and PluralityVeto ---- *)
Theorem c08_neutral_wrule : forall (w : wrule) (p : profile A) (s : mstate A),
  run_wrule B eb w (rn_profile f p) (rn_mstate f s)
  = rn_mres f (rn_states f) (run_wrule A ea w p s).
Proof. exact (run_wrule_rename A B ea eb f f_eqb). Qed.

End Neutrality2.

Print Assumptions c08_neutral_has_condorcet_winner.
Print Assumptions c08_neutral_get_condorcet_winner.
Print Assumptions c08_neutral_draw_perm.
Print Assumptions c08_neutral_random_break.
Print Assumptions c08_neutral_tiebreak_set.
Print Assumptions c08_neutral_status_scan.
Print Assumptions c08_neutral_get_status.
Print Assumptions c08_neutral_replay_step.
Print Assumptions c08_neutral_get_profile.
Print Assumptions c08_neutral_get_step.
Print Assumptions c08_neutral_pv.
Print Assumptions c08_neutral_pv_validate.
Print Assumptions c08_neutral_pv_has_tie.
Print Assumptions c08_neutral_pv_decondense.
Print Assumptions c08_neutral_pv_scores.
Print Assumptions c08_neutral_pv_dec.
Print Assumptions c08_neutral_pv_veto_loop.
Print Assumptions c08_neutral_pv_step.
Print Assumptions c08_neutral_pv_loop.
Print Assumptions c08_neutral_wrule.

(* ====================================================================== *)
(** * The usual reading: candidate types [cand], [cand'] whose tests reflect equality, and an
    injective renaming [f : cand -> cand'] (in particular any bijection of one type). *)

Section Neutrality2Injective.
Variables cand cand' : Type.
Variable ceqb : cand -> cand -> bool.
Variable ceqb' : cand' -> cand' -> bool.
Hypothesis ceqb_spec : forall a b, reflect (a = b) (ceqb a b).
Hypothesis ceqb'_spec : forall a b, reflect (a = b) (ceqb' a b).
Variable f : cand -> cand'.
Hypothesis f_inj : forall x y, f x = f y -> x = y.

Theorem c08_neutral_has_condorcet_winner_injective : forall p : profile cand,
  has_condorcet_winner cand' ceqb' (rn_profile f p) = has_condorcet_winner cand ceqb p.
Proof.
  exact (has_condorcet_winner_rename cand cand' ceqb ceqb' f
           (injective_eqb cand cand' ceqb ceqb' f ceqb_spec ceqb'_spec f_inj)).
Qed.

Theorem c08_neutral_get_condorcet_winner_injective : forall p : profile cand,
  get_condorcet_winner cand' ceqb' (rn_profile f p)
  = rn_res f (get_condorcet_winner cand ceqb p).
Proof.
  exact (get_condorcet_winner_rename cand cand' ceqb ceqb' f
           (injective_eqb cand cand' ceqb ceqb' f ceqb_spec ceqb'_spec f_inj)).
Qed.

Theorem c08_neutral_tiebreak_set_injective :
  forall (g : cset cand) (p : option (profile cand)) (tb : tb_kind) (s : mstate cand),
  tiebreak_set cand' ceqb' (rn_cset f g) (option_map (rn_profile f) p) tb (rn_mstate f s)
  = rn_mres f (rn_ranking f) (tiebreak_set cand ceqb g p tb s).
Proof.
  exact (tiebreak_set_rename cand cand' ceqb ceqb' f
           (injective_eqb cand cand' ceqb ceqb' f ceqb_spec ceqb'_spec f_inj)).
Qed.

Theorem c08_neutral_get_status_injective :
  forall (cs : cset cand) (sts : list (estate cand)) (i : Z),
  get_status cand' ceqb' (rn_cset f cs) (rn_states f sts) i
  = rn_res (rn_status f) (get_status cand ceqb cs sts i).
Proof.
  exact (get_status_rename cand cand' ceqb ceqb' f
           (injective_eqb cand cand' ceqb ceqb' f ceqb_spec ceqb'_spec f_inj)).
Qed.

Theorem c08_neutral_get_profile_injective :
  forall (r : rule) (p : profile cand) (sts : list (estate cand)) (i : Z) (s : mstate cand),
  get_profile cand' ceqb' r (rn_profile f p) (rn_states f sts) i (rn_mstate f s)
  = rn_mres f (rn_profile f) (get_profile cand ceqb r p sts i s).
Proof.
  exact (get_profile_rename cand cand' ceqb ceqb' f
           (injective_eqb cand cand' ceqb ceqb' f ceqb_spec ceqb'_spec f_inj)).
Qed.

Theorem c08_neutral_get_step_injective :
  forall (r : rule) (p : profile cand) (sts : list (estate cand)) (i : Z) (s : mstate cand),
  get_step cand' ceqb' r (rn_profile f p) (rn_states f sts) i (rn_mstate f s)
  = rn_mres f (rn_step f) (get_step cand ceqb r p sts i s).
Proof.
  exact (get_step_rename cand cand' ceqb ceqb' f
           (injective_eqb cand cand' ceqb ceqb' f ceqb_spec ceqb'_spec f_inj)).
Qed.

Theorem c08_neutral_pv_injective :
  forall (m : Z) (tb : option tb_kind) (p : profile cand) (s : mstate cand),
  run_pv cand' ceqb' m tb (rn_profile f p) (rn_mstate f s)
  = rn_mres f (rn_states f) (run_pv cand ceqb m tb p s).
Proof.
  exact (run_pv_rename cand cand' ceqb ceqb' f
           (injective_eqb cand cand' ceqb ceqb' f ceqb_spec ceqb'_spec f_inj)).
Qed.

Theorem c08_neutral_wrule_injective : forall (w : wrule) (p : profile cand) (s : mstate cand),
  run_wrule cand' ceqb' w (rn_profile f p) (rn_mstate f s)
  = rn_mres f (rn_states f) (run_wrule cand ceqb w p s).
Proof.
  exact (run_wrule_rename cand cand' ceqb ceqb' f
           (injective_eqb cand cand' ceqb ceqb' f ceqb_spec ceqb'_spec f_inj)).
Qed.

End Neutrality2Injective.

Print Assumptions c08_neutral_has_condorcet_winner_injective.
Print Assumptions c08_neutral_get_condorcet_winner_injective.
Print Assumptions c08_neutral_tiebreak_set_injective.
Print Assumptions c08_neutral_get_status_injective.
Print Assumptions c08_neutral_get_profile_injective.
Print Assumptions c08_neutral_get_step_injective.
Print Assumptions c08_neutral_pv_injective.
Print Assumptions c08_neutral_wrule_injective.

(* ====================================================================== *)
(** * Non-vacuity: concrete renamings and inputs; both sides computed independently, and the same
    equations obtained from the theorems. *)

(* two renamings of positive names: a shift (injective, not surjective) and a 3-cycle *)
Definition ex_sh (x : positive) : positive := (x + 10)%positive.
Example c08n2_ex_sh_injective : forall x y, ex_sh x = ex_sh y -> x = y.
Proof. intros x y H. unfold ex_sh in H. exact (proj1 (Pos.add_cancel_r x y 10) H). Qed.

Definition ex_cy (x : positive) : positive :=
  if (x =? 1)%positive then 3%positive
  else if (x =? 2)%positive then 1%positive
  else if (x =? 3)%positive then 2%positive else x.
Example c08n2_ex_cy_injective : forall x y, ex_cy x = ex_cy y -> x = y.
Proof.
  intros x y. unfold ex_cy.
  destruct (Pos.eqb_spec x 1); destruct (Pos.eqb_spec x 2); destruct (Pos.eqb_spec x 3);
  destruct (Pos.eqb_spec y 1); destruct (Pos.eqb_spec y 2); destruct (Pos.eqb_spec y 3);
  intros H; subst; try reflexivity; try discriminate; try congruence.
Qed.

Definition ex_b (r : list positive) (w : Z) : ballot positive :=
  mkBallot (map (fun c => [c]) r) (inject_Z w) [] None None.
(* 4 x (1>2>3), 3 x (2>3>1), 2 x (3>2>1): candidate 2 beats 1 (5:4) and 3 (7:2) *)
Definition ex_p : profile positive :=
  mkProfile [ex_b [1;2;3]%positive 4; ex_b [2;3;1]%positive 3; ex_b [3;2;1]%positive 2]
            [1;2;3]%positive.
(* a Condorcet cycle *)
Definition ex_cyc : profile positive :=
  mkProfile [ex_b [1;2;3]%positive 1; ex_b [2;3;1]%positive 1; ex_b [3;1;2]%positive 1]
            [1;2;3]%positive.
(* 1 and 2 tied on first places (2 each), 3 has one *)
Definition ex_tie : profile positive :=
  mkProfile [ex_b [1;2;3]%positive 2; ex_b [2;1;3]%positive 2; ex_b [3;2;1]%positive 1]
            [1;2;3]%positive.
Definition ex_s0 : mstate positive := mkM [] [].
Definition script (l : list (draw positive)) : mstate positive := mkM l [].

(* ---- 1. Condorcet winner ---- *)
Example c08n2_ex_condorcet :
  has_condorcet_winner positive Pos.eqb ex_p = inl true /\
  get_condorcet_winner positive Pos.eqb ex_p = inl 2%positive /\
  has_condorcet_winner positive Pos.eqb (rn_profile ex_sh ex_p) = inl true /\
  get_condorcet_winner positive Pos.eqb (rn_profile ex_sh ex_p) = inl 12%positive /\
  get_condorcet_winner positive Pos.eqb (rn_profile ex_cy ex_p) = inl 1%positive /\
  has_condorcet_winner positive Pos.eqb ex_cyc = inl false /\
  has_condorcet_winner positive Pos.eqb (rn_profile ex_cy ex_cyc) = inl false /\
  get_condorcet_winner positive Pos.eqb (rn_profile ex_cy ex_cyc) = inr EValue.
Proof. vm_compute. repeat split. Qed.

Example c08n2_ex_condorcet_by_theorem :
  get_condorcet_winner positive Pos.eqb (rn_profile ex_sh ex_p)
  = rn_res ex_sh (get_condorcet_winner positive Pos.eqb ex_p).
Proof.
  exact (c08_neutral_get_condorcet_winner_injective positive positive Pos.eqb Pos.eqb
           Pos.eqb_spec Pos.eqb_spec ex_sh c08n2_ex_sh_injective ex_p).
Qed.

(* ---- 2. tiebreak_set ---- *)
(* random: the set {1,2,3} resolved by the scripted permutation 3,1,2; one draw is consumed, one is
   left; the call is logged *)
Example c08n2_ex_tiebreak_random :
  tiebreak_set positive Pos.eqb [1;2;3]%positive None TBRandom
    (script [DPerm [3;1;2]%positive; DPerm [1;2]%positive])
  = inl ([[3]; [1]; [2]]%positive,
         mkM [DPerm [1;2]%positive] [CSample [1;2;3]%positive]).
Proof. vm_compute. reflexivity. Qed.
(* the renamed call, computed on its own: it consumes the renamed draw and logs the renamed call *)
Example c08n2_ex_tiebreak_random_renamed :
  tiebreak_set positive Pos.eqb (rn_cset ex_sh [1;2;3]%positive) (option_map (rn_profile ex_sh) None)
    TBRandom (rn_mstate ex_sh (script [DPerm [3;1;2]%positive; DPerm [1;2]%positive]))
  = inl ([[13]; [11]; [12]]%positive,
         mkM [DPerm [11;12]%positive] [CSample [11;12;13]%positive]).
Proof. vm_compute. reflexivity. Qed.
Example c08n2_ex_tiebreak_random_by_theorem :
  tiebreak_set positive Pos.eqb (rn_cset ex_sh [1;2;3]%positive) (option_map (rn_profile ex_sh) None)
    TBRandom (rn_mstate ex_sh (script [DPerm [3;1;2]%positive; DPerm [1;2]%positive]))
  = rn_mres ex_sh (rn_ranking ex_sh)
      (tiebreak_set positive Pos.eqb [1;2;3]%positive None TBRandom
         (script [DPerm [3;1;2]%positive; DPerm [1;2]%positive])).
Proof.
  exact (c08_neutral_tiebreak_set_injective positive positive Pos.eqb Pos.eqb
           Pos.eqb_spec Pos.eqb_spec ex_sh c08n2_ex_sh_injective _ _ _ _).
Qed.
(* first_place on ex_tie: the tallies leave {1,2} tied, which consumes a DPerm draw; under the
   3-cycle (1->3, 2->1, 3->2) the resolution 2,1,3 becomes 1,3,2 *)
Example c08n2_ex_tiebreak_first_place :
  tiebreak_set positive Pos.eqb [1;2;3]%positive (Some ex_tie) TBFirstPlace
    (script [DPerm [2;1]%positive; DUnit 1])
  = inl ([[2]; [1]; [3]]%positive, mkM [DUnit 1] [CSample [1;2]%positive]) /\
  tiebreak_set positive Pos.eqb (rn_cset ex_cy [1;2;3]%positive)
    (option_map (rn_profile ex_cy) (Some ex_tie)) TBFirstPlace
    (rn_mstate ex_cy (script [DPerm [2;1]%positive; DUnit 1]))
  = inl ([[1]; [3]; [2]]%positive, mkM [DUnit 1] [CSample [3;1]%positive]).
Proof. vm_compute. split; reflexivity. Qed.
(* borda on ex_tie needs no draw (2 > 1 > 3 on Borda points): the script is untouched *)
Example c08n2_ex_tiebreak_borda :
  tiebreak_set positive Pos.eqb [1;2;3]%positive (Some ex_tie) TBBorda (script [DPerm [2;1]%positive])
  = inl ([[2]; [1]; [3]]%positive, script [DPerm [2;1]%positive]) /\
  tiebreak_set positive Pos.eqb (rn_cset ex_sh [1;2;3]%positive)
    (option_map (rn_profile ex_sh) (Some ex_tie)) TBBorda
    (rn_mstate ex_sh (script [DPerm [2;1]%positive]))
  = inl ([[12]; [11]; [13]]%positive, script [DPerm [12;11]%positive]).
Proof. vm_compute. split; reflexivity. Qed.
(* the error results: a draw that is not a permutation of the tied set, an empty script, no
   profile for a scoring tiebreak, the invalid kind — the same on both sides *)
Example c08n2_ex_tiebreak_errors :
  tiebreak_set positive Pos.eqb [1;2;3]%positive (Some ex_tie) TBFirstPlace
    (script [DPerm [2;3]%positive]) = inr EScript /\
  tiebreak_set positive Pos.eqb (rn_cset ex_sh [1;2;3]%positive)
    (option_map (rn_profile ex_sh) (Some ex_tie)) TBFirstPlace
    (rn_mstate ex_sh (script [DPerm [2;3]%positive])) = inr EScript /\
  tiebreak_set positive Pos.eqb [1;2]%positive None TBRandom ex_s0 = inr EScript /\
  tiebreak_set positive Pos.eqb (rn_cset ex_sh [1;2]%positive) None TBRandom (rn_mstate ex_sh ex_s0)
    = inr EScript /\
  tiebreak_set positive Pos.eqb [1;2]%positive None TBBorda ex_s0 = inr EValue /\
  tiebreak_set positive Pos.eqb (rn_cset ex_sh [1;2]%positive) None TBBorda (rn_mstate ex_sh ex_s0)
    = inr EValue /\
  tiebreak_set positive Pos.eqb [1;2]%positive (Some ex_tie) TBInvalid ex_s0 = inr EValue.
Proof. vm_compute. repeat split. Qed.

(* ---- 3 and 4. get_status, get_profile, get_step on an IRV count ---- *)
Definition ex_cfg : stv_cfg := mkStv 1 QDroop true TFractional None.
(* the recorded rounds of IRV on ex_p: 3 eliminated in round 1, 2 elected in round 2 *)
Definition ex_sts : list (estate positive) :=
  [mkState 0 [[1];[2];[3]]%positive [[]] [[]] [] [(1%positive, 4); (2%positive, 3); (3%positive, 2)];
   mkState 1 [[2];[1]]%positive [[]] [[3]]%positive [] [(1%positive, 4); (2%positive, 5)];
   mkState 2 [[1]]%positive [[2]]%positive [[]] [] [(1%positive, 4)]].
Example c08n2_ex_sts : run_rule positive Pos.eqb (RSTV ex_cfg) ex_p ex_s0 = inl (ex_sts, ex_s0).
Proof. vm_compute. reflexivity. Qed.

Example c08n2_ex_status :
  get_status positive Pos.eqb [1;2;3]%positive ex_sts 2
  = inl [(2%positive, (2, 2)%Z); (1%positive, (1, 2)%Z); (3%positive, (3, 1)%Z)] /\
  get_status positive Pos.eqb (rn_cset ex_cy [1;2;3]%positive) (rn_states ex_cy ex_sts) 2
  = inl [(1%positive, (2, 2)%Z); (3%positive, (1, 2)%Z); (2%positive, (3, 1)%Z)] /\
  get_status positive Pos.eqb [1;2;3]%positive ex_sts 5 = inr EIndex /\
  get_status positive Pos.eqb (rn_cset ex_cy [1;2;3]%positive) (rn_states ex_cy ex_sts) 5
  = inr EIndex.
Proof. vm_compute. repeat split. Qed.
Example c08n2_ex_status_by_theorem :
  get_status positive Pos.eqb (rn_cset ex_cy [1;2;3]%positive) (rn_states ex_cy ex_sts) 2
  = rn_res (rn_status ex_cy) (get_status positive Pos.eqb [1;2;3]%positive ex_sts 2).
Proof.
  exact (c08_neutral_get_status_injective positive positive Pos.eqb Pos.eqb
           Pos.eqb_spec Pos.eqb_spec ex_cy c08n2_ex_cy_injective _ _ _).
Qed.

(* the profile after round 1: candidate 3 removed, its 2 ballots now with 2 *)
Example c08n2_ex_get_profile :
  get_profile positive Pos.eqb (RSTV ex_cfg) ex_p ex_sts 1 ex_s0
  = inl (mkProfile [ex_b [1;2]%positive 4; ex_b [2;1]%positive 5] [1;2]%positive, ex_s0) /\
  get_profile positive Pos.eqb (RSTV ex_cfg) (rn_profile ex_sh ex_p) (rn_states ex_sh ex_sts) 1
    (rn_mstate ex_sh ex_s0)
  = inl (mkProfile [ex_b [11;12]%positive 4; ex_b [12;11]%positive 5] [11;12]%positive, ex_s0).
Proof. vm_compute. split; reflexivity. Qed.
Example c08n2_ex_get_step :
  get_step positive Pos.eqb (RSTV ex_cfg) ex_p ex_sts 2 ex_s0
  = inl ((mkProfile [ex_b [1]%positive 4] [1]%positive,
          mkState 2 [[1]]%positive [[2]]%positive [[]] [] [(1%positive, 4)]), ex_s0) /\
  get_step positive Pos.eqb (RSTV ex_cfg) (rn_profile ex_sh ex_p) (rn_states ex_sh ex_sts) 2
    (rn_mstate ex_sh ex_s0)
  = inl ((mkProfile [ex_b [11]%positive 4] [11]%positive,
          mkState 2 [[11]]%positive [[12]]%positive [[]] [] [(11%positive, 4)]), ex_s0).
Proof. vm_compute. split; reflexivity. Qed.
(* a replay that draws: Plurality with the random tiebreak on ex_tie re-runs the tiebreak of
   {1,2}, consuming the scripted permutation *)
Definition ex_plur_sts : list (estate positive) :=
  [mkState 0 [[1;2];[3]]%positive [[]] [[]] [] [(1%positive, 2); (2%positive, 2); (3%positive, 1)];
   mkState 1 [[1];[3]]%positive [[2]]%positive [[]] [([1;2]%positive, [[2];[1]]%positive)]
           [(1%positive, 4); (3%positive, 1)]].
Example c08n2_ex_get_profile_draws :
  run_rule positive Pos.eqb (RPlurality 1 (Some TBRandom)) ex_tie (script [DPerm [2;1]%positive])
  = inl (ex_plur_sts, mkM [] [CSample [1;2]%positive]) /\
  get_profile positive Pos.eqb (RPlurality 1 (Some TBRandom)) ex_tie ex_plur_sts 1
    (script [DPerm [2;1]%positive])
  = inl (mkProfile [ex_b [1;3]%positive 4; ex_b [3;1]%positive 1] [1;3]%positive,
         mkM [] [CSample [1;2]%positive]) /\
  get_profile positive Pos.eqb (RPlurality 1 (Some TBRandom)) (rn_profile ex_cy ex_tie)
    (rn_states ex_cy ex_plur_sts) 1 (rn_mstate ex_cy (script [DPerm [2;1]%positive]))
  = inl (mkProfile [ex_b [3;2]%positive 4; ex_b [2;3]%positive 1] [3;2]%positive,
         mkM [] [CSample [3;1]%positive]).
Proof. vm_compute. repeat split. Qed.
Example c08n2_ex_get_profile_by_theorem :
  get_profile positive Pos.eqb (RPlurality 1 (Some TBRandom)) (rn_profile ex_cy ex_tie)
    (rn_states ex_cy ex_plur_sts) 1 (rn_mstate ex_cy (script [DPerm [2;1]%positive]))
  = rn_mres ex_cy (rn_profile ex_cy)
      (get_profile positive Pos.eqb (RPlurality 1 (Some TBRandom)) ex_tie ex_plur_sts 1
         (script [DPerm [2;1]%positive])).
Proof.
  exact (c08_neutral_get_profile_injective positive positive Pos.eqb Pos.eqb
           Pos.eqb_spec Pos.eqb_spec ex_cy c08n2_ex_cy_injective _ _ _ _ _).
Qed.

(* ---- 5. PluralityVeto with veto tiebreaks ---- *)
Definition pb (r : list (list positive)) (w : Z) : ballot positive :=
  plain_ballot positive r (inject_Z w).
(* 1 > {2,3}; 3 > 2 > 1 twice; 2 > 3 > 1; one seat; random tiebreak of the tied last place;
   voter order 0,1,2,3 and two scripted permutations of {2,3} *)
Definition ex_pv : profile positive :=
  mkProfile [pb [[1];[2;3]]%positive 1; pb [[3];[2];[1]]%positive 2; pb [[2];[3];[1]]%positive 1]
            [1;2;3]%positive.
Definition ex_pv_script : mstate positive :=
  script [DIdxs [0;1;2;3]%nat; DPerm [2;3]%positive; DPerm [3;2]%positive].

(* the run: four rounds, both DPerm draws consumed by veto tiebreaks, a tiebreak recorded *)
Example c08n2_ex_pv_runs : exists s0 s1 s2 s3 lg',
  run_pv positive Pos.eqb 1 (Some TBRandom) ex_pv ex_pv_script = inl ([s0; s1; s2; s3], mkM [] lg') /\
  length lg' = 3%nat /\
  (exists t, In t (tiebreaks s1 ++ tiebreaks s2 ++ tiebreaks s3) /\ fst t = [2;3]%positive) /\
  elected s3 <> [[]].
Proof.
  eexists. eexists. eexists. eexists. eexists. split; [vm_compute; reflexivity|].
  split; [reflexivity|]. split; [|vm_compute; discriminate].
  eexists. split; [vm_compute; left; reflexivity|reflexivity].
Qed.
(* both sides of the theorem on that run, computed independently *)
Example c08n2_ex_pv_neutral :
  run_pv positive Pos.eqb 1 (Some TBRandom) (rn_profile ex_cy ex_pv) (rn_mstate ex_cy ex_pv_script)
  = rn_mres ex_cy (rn_states ex_cy)
      (run_pv positive Pos.eqb 1 (Some TBRandom) ex_pv ex_pv_script).
Proof. vm_compute. reflexivity. Qed.
Example c08n2_ex_pv_neutral_by_theorem :
  run_pv positive Pos.eqb 1 (Some TBRandom) (rn_profile ex_sh ex_pv) (rn_mstate ex_sh ex_pv_script)
  = rn_mres ex_sh (rn_states ex_sh)
      (run_pv positive Pos.eqb 1 (Some TBRandom) ex_pv ex_pv_script).
Proof.
  exact (c08_neutral_pv_injective positive positive Pos.eqb Pos.eqb
           Pos.eqb_spec Pos.eqb_spec ex_sh c08n2_ex_sh_injective _ _ _ _).
Qed.
(* the renamed run elects the renamed winner *)
Example c08n2_ex_pv_winner : exists w sts s' sts2 s2',
  run_pv positive Pos.eqb 1 (Some TBRandom) ex_pv ex_pv_script = inl (sts, s') /\
  option_map elected (nth_error sts 3) = Some [[w]] /\
  run_pv positive Pos.eqb 1 (Some TBRandom) (rn_profile ex_sh ex_pv) (rn_mstate ex_sh ex_pv_script)
  = inl (sts2, s2') /\
  option_map elected (nth_error sts2 3) = Some [[ex_sh w]].
Proof.
  eexists. eexists. eexists. eexists. eexists.
  split; [vm_compute; reflexivity|]. split; [vm_compute; reflexivity|].
  split; vm_compute; reflexivity.
Qed.
(* an error run: without a tiebreak rule the tied ballot is refused (AttributeError), on both
   sides *)
Example c08n2_ex_pv_error :
  run_pv positive Pos.eqb 1 None ex_pv ex_pv_script = inr EAttr /\
  run_pv positive Pos.eqb 1 None (rn_profile ex_sh ex_pv) (rn_mstate ex_sh ex_pv_script) = inr EAttr.
Proof. vm_compute. split; reflexivity. Qed.

(* two different candidate types: positive ids renamed to integer labels, PluralityVeto through
   the class dispatcher *)
Definition ex_label (x : positive) : Z := (Zpos x + 100)%Z.
Example c08n2_ex_label_eqb : forall x y, Z.eqb (ex_label x) (ex_label y) = Pos.eqb x y.
Proof.
  intros x y. unfold ex_label. destruct (Pos.eqb_spec x y) as [->|Hne].
  - apply Z.eqb_refl.
  - apply Z.eqb_neq. intros H. apply Hne. apply Z.add_cancel_r in H. congruence.
Qed.
Example c08n2_ex_wrule_two_types :
  run_wrule Z Z.eqb (WPV 1 (Some TBRandom)) (rn_profile ex_label ex_pv)
    (rn_mstate ex_label ex_pv_script)
  = rn_mres ex_label (rn_states ex_label)
      (run_wrule positive Pos.eqb (WPV 1 (Some TBRandom)) ex_pv ex_pv_script).
Proof. exact (c08_neutral_wrule positive Z Pos.eqb Z.eqb ex_label c08n2_ex_label_eqb _ _ _). Qed.
Example c08n2_ex_wrule_computed :
  run_wrule Z Z.eqb (WIRV QDroop None) (rn_profile ex_label ex_p) (rn_mstate ex_label ex_s0)
  = rn_mres ex_label (rn_states ex_label)
      (run_wrule positive Pos.eqb (WIRV QDroop None) ex_p ex_s0).
Proof. vm_compute. reflexivity. Qed.
