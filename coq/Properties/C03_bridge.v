(* Properties/C03_bridge.v — C03, three bridges an audit found missing.  Statements only; proofs are
   in Proofs/C03_bridge.v.

   (1) Properties/C03_law.v states the law of the random (Cambridge) transfer on the Spec object
       [usample] (positions chosen by random.sample = first k of a uniform permutation).  Here the
       MODEL's [rand_transfer] is tied to it: its output is the explicit function
       [transfer_of_sample] of the draw, i.e. [transfer_of_positions] of the selected unit positions;
       the law of the output, [law_rand_transfer], is the push-forward of [usample] /
       [law_sample_ballots]; hence the expected weight per continuing ranking of the model's output.
   (2) per-output-ballot statements for the random and the full-weight transfer, in the style of
       c03_frac_no_winner (Properties/C03.v).
   (3) the per-round losses of [round_accounting] (Properties/C03_trace.v) telescoped over the run:
       initial - final weight = quotas kept by the quota-elected + ballots with no surviving choice.

   Vocabulary (Spec/TransferLawSpec.v, all small):
     untied r                 every position of r is a single candidate
     transfer_pop w bs        [(strip [w] (rk b), wt b) | b in bs led by w, somebody left], in order
     transfer_units w bs      units (transfer_pop w bs): int(weight) copies of each continuation
     transfer_of_sample w bs l     the ballots not led by w with w struck out ++ one unit ballot per
                                   ranking of l, empty / non-positive ones dropped, then condensed
     transfer_of_positions w bs idxs = transfer_of_sample w bs (pick [] (transfer_units w bs) idxs)
     law_rand_transfer w bs k = dbind (usample (length (transfer_units w bs)) k)
                                      (fun idxs => dret (transfer_of_positions w bs idxs))
     round_split cfg t n pr pr' st' sa sb quota exh   the three cases of round_accounting with the
                                   two parts of the loss named (quota kept / exhausted weight)
   Spec/SampleSpec.v: usample, pick, units, law_sample_ballots, expect.  Model/Laws.v: dist, mass. *)
From VK Require Import Base Core STV Rules Laws EditSpec.
From VK.Spec Require Import STVSpec LawSpec SampleSpec ReplaySpec STVRunSpec TransferLawSpec.
From VK.Proofs Require Import C03_bridge STV_final.
From Coq Require Import Permutation.

Section C03_bridge.
Variable cand : Type.
Variable ceqb : cand -> cand -> bool.
Hypothesis ceqb_spec : forall a b, reflect (a = b) (ceqb a b).

Notation ranking := (ranking cand).
Notation ballot := (ballot cand).
Notation profile := (profile cand).
Notation mstate := (mstate cand).
Notation ranking_eqb := (ranking_eqb cand ceqb).
Notation flat := (flat cand).
Notation strip := (strip cand ceqb).
Notation first_is := (first_is cand ceqb).
Notation pos_wt := (pos_wt cand).
Notation total_wt := (total_wt cand).
Notation wt_where := (wt_where cand).
Notation wtof_rk := (wtof_rk cand ceqb).
Notation maps_to := (maps_to cand ceqb).
Notation score_free := (score_free cand).
Notation rand_transfer := (rand_transfer cand ceqb).
Notation full_transfer := (full_transfer cand ceqb).
Notation law_sample_ballots := (law_sample_ballots cand).
Notation untied := (untied cand).
Notation transfer_pop := (transfer_pop cand ceqb).
Notation transfer_units := (transfer_units cand ceqb).
Notation transfer_of_sample := (transfer_of_sample cand ceqb).
Notation transfer_of_positions := (transfer_of_positions cand ceqb).
Notation law_rand_transfer := (law_rand_transfer cand ceqb).
Notation wf_stv0 := (wf_stv0 cand).
Notation script_ok := (script_ok cand).
Notation stv_trace := (stv_trace cand ceqb).
Notation stv_init := (stv_init cand).
Notation run_stv := (run_stv cand ceqb).
Notation count_elected := (count_elected cand).
Notation round_accounting := (round_accounting cand ceqb).
Notation round_split := (round_split cand ceqb).

(* ---------- (1) the model's random transfer IS the function the law pushes forward ---------- *)

(* Soundness, no premise but success.  Whatever draw [DRanks l] the script provides, a successful
   call returns transfer_of_sample of l, and l is — position by position, up to the order inside a
   tied position (the model's sample test compares positions as sets) — the unit ballots standing at
   int(fpv) - int(t) DISTINCT positions idxs.  The output then carries, ranking by ranking, the
   weights of transfer_of_positions idxs; and when no position of the draw or of the ballots is a
   tie (every STV run: stv_validate + script_ok) the draw IS the picked units and the output IS
   transfer_of_positions idxs. *)
Theorem c03_rand_transfer_bridge : forall w fpv (bs : list ballot) t (s s' : mstate) out,
  rand_transfer w fpv bs t s = inl (out, s') ->
  exists l idxs,
    scr s = DRanks l :: scr s' /\
    out = transfer_of_sample w bs l /\
    NoDup idxs /\ (forall i, In i idxs -> (i < length (transfer_units w bs))%nat) /\
    Z.of_nat (length idxs) = (Qtrunc fpv - Qtrunc t)%Z /\
    Forall2 (fun r r' => ranking_eqb r r' = true) l (pick [] (transfer_units w bs) idxs) /\
    (forall r', nonempty r' = true ->
       wtof_rk r' out == wtof_rk r' (transfer_of_positions w bs idxs)) /\
    (Forall untied l -> Forall (fun b => untied (rk b)) bs ->
       l = pick [] (transfer_units w bs) idxs /\ out = transfer_of_positions w bs idxs).
Proof. exact (rand_transfer_bridge cand ceqb ceqb_spec). Qed.

(* Completeness.  With integral weights, non-empty rankings and no negative transferable weight
   (see c03_rand_complete_negative_refuted in Properties/C03_law.v), EVERY selection of
   int(fpv) - int(t) distinct unit positions is a draw on which the call succeeds, returning
   transfer_of_positions of the selection (and logging the population, consuming that one draw). *)
Theorem c03_rand_transfer_bridge_positions :
  forall w fpv (bs : list ballot) t (s : mstate) rest idxs,
  (forall b, In b bs -> is_integral (wt b) = true /\ rk b <> []) ->
  (forall b, In b bs -> first_is w b && nonempty (strip [w] (rk b)) = true -> 0 <= wt b) ->
  NoDup idxs -> (forall i, In i idxs -> (i < length (transfer_units w bs))%nat) ->
  Z.of_nat (length idxs) = (Qtrunc fpv - Qtrunc t)%Z ->
  scr s = DRanks (pick [] (transfer_units w bs) idxs) :: rest ->
  rand_transfer w fpv bs t s =
  inl (transfer_of_positions w bs idxs,
       mkM rest (CSampleBallots (transfer_pop w bs) (Qtrunc fpv - Qtrunc t) :: lg s)).
Proof. exact (rand_transfer_bridge_positions cand ceqb). Qed.

(* The law of the output is the push-forward: outcome by outcome (same order, equal weights) it is
   transfer_of_sample of the outcomes of law_sample_ballots and transfer_of_positions of the
   outcomes of usample; expectations transport; total mass 1. *)
Theorem c03_law_rand_transfer_pushforward : forall w (bs : list ballot) k,
  Forall2 (fun x y => fst x = transfer_of_sample w bs (fst y) /\ snd x == snd y)
          (law_rand_transfer w bs k) (law_sample_ballots (transfer_pop w bs) k) /\
  Forall2 (fun x y => fst x = transfer_of_positions w bs (fst y) /\ snd x == snd y)
          (law_rand_transfer w bs k) (usample (length (transfer_units w bs)) k) /\
  (forall f : list ballot -> Q,
     expect f (law_rand_transfer w bs k) ==
     expect (fun l => f (transfer_of_sample w bs l)) (law_sample_ballots (transfer_pop w bs) k)) /\
  mass (law_rand_transfer w bs k) == 1.
Proof. exact (law_rand_transfer_pushforward cand ceqb). Qed.

(* Every outcome of that law has positive probability and IS the output of the model on the
   corresponding draw (premises of c03_rand_expected_weight: the call can succeed at all). *)
Theorem c03_law_rand_transfer_support : forall w fpv (bs : list ballot) t,
  (forall b, In b bs -> is_integral (wt b) = true /\ rk b <> []) ->
  (forall b, In b bs -> first_is w b && nonempty (strip [w] (rk b)) = true -> 0 <= wt b) ->
  (0 <= Qtrunc fpv - Qtrunc t)%Z ->
  inject_Z (Qtrunc fpv - Qtrunc t) <=
    wt_where (fun b => first_is w b && nonempty (strip [w] (rk b))) bs ->
  forall out q,
  In (out, q) (law_rand_transfer w bs (Z.to_nat (Qtrunc fpv - Qtrunc t))) ->
  0 < q /\
  exists idxs, NoDup idxs /\ (forall i, In i idxs -> (i < length (transfer_units w bs))%nat) /\
    Z.of_nat (length idxs) = (Qtrunc fpv - Qtrunc t)%Z /\
    out = transfer_of_positions w bs idxs /\
    rand_transfer w fpv bs t (mkM [DRanks (pick [] (transfer_units w bs) idxs)] []) =
    inl (out, mkM [] [CSampleBallots (transfer_pop w bs) (Qtrunc fpv - Qtrunc t)]).
Proof. exact (law_rand_transfer_support cand ceqb). Qed.

(* Corollary: the expected weight of every non-empty continuation r' in the MODEL's output, the
   selected unit positions following usample: the winner's ballots continuing with r' pass on
   the fraction (int(fpv) - int(t)) / (transferable weight), on top of the other ballots mapping
   to r'. *)
Theorem c03_rand_expected_weight_model : forall w fpv (bs : list ballot) t,
  (forall b, In b bs -> is_integral (wt b) = true /\ rk b <> []) ->
  (forall b, In b bs -> first_is w b && nonempty (strip [w] (rk b)) = true -> 0 <= wt b) ->
  (0 <= Qtrunc fpv - Qtrunc t)%Z ->
  inject_Z (Qtrunc fpv - Qtrunc t) <=
    wt_where (fun b => first_is w b && nonempty (strip [w] (rk b))) bs ->
  forall r', nonempty r' = true ->
  expect (fun out => wtof_rk r' out) (law_rand_transfer w bs (Z.to_nat (Qtrunc fpv - Qtrunc t))) ==
  wt_where (fun b => first_is w b && maps_to [w] r' b) bs *
    (inject_Z (Qtrunc fpv - Qtrunc t) /
     wt_where (fun b => first_is w b && nonempty (strip [w] (rk b))) bs) +
  wt_where (fun b => negb (first_is w b) && maps_to [w] r' b && pos_wt b) bs.
Proof. exact (rand_expected_weight_model cand ceqb ceqb_spec). Qed.

(* ---------- (2) what each output ballot is ---------- *)

(* Random transfer, any script.  Each output ballot never mentions the winner, is non-empty, of
   positive weight and score-free; its ranking is either that of a positive-weight ballot NOT led
   by the winner with the winner struck out (the ballot's own ranking when it does not mention him
   and has no empty position), or one of the sampled rankings, which is — up to the order inside a
   tied position, and exactly when neither has a tied position — the winner-stripped ranking of a
   positive-weight ballot led by the winner. *)
Theorem c03_rand_no_winner : forall w fpv (bs : list ballot) t (s s' : mstate) out,
  rand_transfer w fpv bs t s = inl (out, s') ->
  forall k, In k out ->
    ~ In w (flat (rk k)) /\ rk k <> [] /\ 0 < wt k /\ sc k = [] /\
    ((exists b, In b bs /\ first_is w b = false /\ rk k = strip [w] (rk b) /\ 0 < wt b /\
                (~ In w (flat (rk b)) -> Forall (fun g => g <> []) (rk b) -> rk k = rk b))
     \/
     (exists l b, scr s = DRanks l :: scr s' /\ In (rk k) l /\
                  In b bs /\ first_is w b = true /\ 0 < wt b /\
                  ranking_eqb (rk k) (strip [w] (rk b)) = true /\
                  (untied (rk k) -> untied (rk b) -> rk k = strip [w] (rk b)))).
Proof. exact (rand_no_winner cand ceqb ceqb_spec). Qed.

(* Random transfer as a function of the selected unit positions (every genuine outcome of
   random.sample, see c03_law_rand_transfer_support): each output ranking IS the winner-stripped
   ranking of a positive-weight input ballot. *)
Theorem c03_rand_no_winner_positions : forall w (bs : list ballot) idxs,
  (forall i, In i idxs -> (i < length (transfer_units w bs))%nat) ->
  forall k, In k (transfer_of_positions w bs idxs) ->
    ~ In w (flat (rk k)) /\ rk k <> [] /\ 0 < wt k /\ sc k = [] /\
    exists b, In b bs /\ rk k = strip [w] (rk b) /\ 0 < wt b /\
              (~ In w (flat (rk b)) -> Forall (fun g => g <> []) (rk b) -> rk k = rk b).
Proof. exact (rand_no_winner_positions cand ceqb ceqb_spec). Qed.

(* Full-weight transfer (SequentialRCV; [c03_full_no_winner] of Properties/C03.v only says that the
   winner is gone).  Each output ballot never mentions the winner and has positive weight; its
   ranking IS the winner-stripped ranking of a positive-weight input ballot (that ballot's own
   ranking when it does not mention the winner and has no empty position), non-empty as soon as
   that ballot carries no scores; on score-free input every output ballot is non-empty and
   score-free.  (A ballot with scores can survive with an empty ranking:
   c03_full_nonempty_with_scores_refuted below.) *)
Theorem c03_full_no_winner_strong : forall w (bs : list ballot) out,
  full_transfer w bs = inl out ->
  forall k, In k out ->
    ~ In w (flat (rk k)) /\ 0 < wt k /\
    (exists b, In b bs /\ rk k = strip [w] (rk b) /\ 0 < wt b /\ (sc b = [] -> rk k <> []) /\
               (~ In w (flat (rk b)) -> Forall (fun g => g <> []) (rk b) -> rk k = rk b)) /\
    (score_free bs -> rk k <> [] /\ sc k = []).
Proof. exact (full_no_winner_strong cand ceqb ceqb_spec). Qed.

(* ---------- (3) the losses of a whole run, telescoped ---------- *)

(* A successful run from a valid-or-empty profile (hypotheses of c03_run_conservation), with its
   trace (profiles ps, records sts, random source ss) and threshold t.  There are, round by round,
   a quota part and an exhausted part (lists quotas, exhs, one entry per round after the initial
   one), such that
   - each round obeys round_accounting, its loss is quota + exhausted with both parts >= 0, and the
     parts are what round_split spells out: an election on quota keeps t per elected candidate
     (nothing with the full-weight rule) and loses the (transferred) weight of the ballots left with
     no surviving choice / one unit per dead sampled ranking; a default election or an elimination
     keeps no quota and loses exactly the ballots with no surviving choice;
   - the per-round losses sum to initial - final total weight (telescoping);
   - hence initial - final = (sum of the quotas kept) + (sum of the exhausted weights). *)
Theorem c03_run_loss_telescoped : forall cfg (p : profile) (s s' : mstate) sts,
  wf_stv0 p -> (s_transfer cfg = TRandom -> script_ok s) ->
  run_stv cfg p s = inl (sts, s') ->
  exists t ps ss (quotas exhs : list Q),
    stv_init cfg p = inl t /\ stv_trace cfg t p sts ps ss /\
    nth_error ps 0 = Some p /\ nth_error ss 0 = Some s /\ last ss s = s' /\
    length quotas = (length ps - 1)%nat /\ length exhs = (length ps - 1)%nat /\
    (forall r pr pr' st' sa sb,
       nth_error ps r = Some pr -> nth_error ps (S r) = Some pr' ->
       nth_error sts (S r) = Some st' ->
       nth_error ss r = Some sa -> nth_error ss (S r) = Some sb ->
       round_accounting cfg t (count_elected (firstn (S r) sts)) pr pr' st' sa sb /\
       round_split cfg t (count_elected (firstn (S r) sts)) pr pr' st' sa sb
                   (nth r quotas 0) (nth r exhs 0) /\
       total_wt (ballots pr) - total_wt (ballots pr') == nth r quotas 0 + nth r exhs 0 /\
       0 <= nth r quotas 0 /\ 0 <= nth r exhs 0) /\
    qsum (map (fun r => total_wt (ballots (nth r ps p)) - total_wt (ballots (nth (S r) ps p)))
              (seq 0 (length ps - 1)))
      == total_wt (ballots p) - total_wt (ballots (last ps p)) /\
    total_wt (ballots p) - total_wt (ballots (last ps p)) == qsum quotas + qsum exhs.
Proof. exact (run_loss_telescoped cand ceqb ceqb_spec). Qed.

End C03_bridge.

Print Assumptions c03_rand_transfer_bridge.
Print Assumptions c03_rand_transfer_bridge_positions.
Print Assumptions c03_law_rand_transfer_pushforward.
Print Assumptions c03_law_rand_transfer_support.
Print Assumptions c03_rand_expected_weight_model.
Print Assumptions c03_rand_no_winner.
Print Assumptions c03_rand_no_winner_positions.
Print Assumptions c03_full_no_winner_strong.
Print Assumptions c03_run_loss_telescoped.

Module C03BridgeExamples.
Open Scope positive_scope.

Definition bal (r : list positive) (w : Q) : ballot positive :=
  mkBallot (map (fun c => [c]) r) w [] None None.

(* ---------- the premises that cannot be dropped ---------- *)

(* a tied position: winner 1, one ballot 1 > {2,3}; the script may answer {3,2}, which the model's
   sample test accepts (positions are compared as sets); the output ranking then is the script's
   spelling, not the stripped ranking: the exact equalities of c03_rand_transfer_bridge and
   c03_rand_no_winner need "untied" *)
Theorem c03_rand_bridge_exact_tied_refuted :
  exists (w : positive) fpv (bs : list (ballot positive)) t (s s' : mstate positive) out,
    STV.rand_transfer positive Pos.eqb w fpv bs t s = inl (out, s') /\
    (forall idxs, Z.of_nat (length idxs) = (Qtrunc fpv - Qtrunc t)%Z ->
       (forall i, In i idxs -> (i < length (transfer_units positive Pos.eqb w bs))%nat) ->
       out <> transfer_of_positions positive Pos.eqb w bs idxs) /\
    (exists k, In k out /\ forall b, In b bs -> rk k <> Core.strip positive Pos.eqb [w] (rk b)).
Proof.
  exists 1, 1%Q, [mkBallot [[1]; [2; 3]] 1 [] None None], 0%Q, (mkM [DRanks [[[3; 2]]]] []).
  eexists. eexists. split; [vm_compute; reflexivity|]. split.
  - intros idxs Hlen Hr. change (Qtrunc 1 - Qtrunc 0)%Z with (Z.of_nat 1) in Hlen.
    apply Nat2Z.inj in Hlen.
    destruct idxs as [|i [|j idxs]]; try discriminate Hlen.
    assert (Hi : (i < 1)%nat) by (apply (Hr i); left; reflexivity).
    destruct i as [|i]; [|exfalso; apply (Nat.nlt_0_r i), Nat.succ_lt_mono; exact Hi].
    vm_compute. discriminate.
  - eexists. split; [left; reflexivity|]. intros b [<-|[]]. vm_compute. discriminate.
Qed.

(* a ballot carrying scores survives the full-weight transfer with an empty ranking *)
Theorem c03_full_nonempty_with_scores_refuted :
  exists (w : positive) (bs : list (ballot positive)) out k,
    STV.full_transfer positive Pos.eqb w bs = inl out /\ In k out /\ rk k = [] /\ (0 < wt k)%Q.
Proof.
  exists 1, [mkBallot [[1]] 1 [(2, 1%Q)] None None]. eexists. eexists.
  split; [vm_compute; reflexivity|]. split; [left; reflexivity|]. split; reflexivity.
Qed.

(* ---------- non-vacuity ---------- *)

(* winner 1 with tally 6, threshold 4 (the pile of Properties/C03.v and C03_law.v): transferable
   population [2>3 x3; 2 x2], five unit ballots, two are drawn *)
Definition pile1 : list (ballot positive) :=
  [bal [1; 2; 3] 3; bal [1] 1; bal [1; 2] 2; bal [2; 1; 3] 5].

Example ex_vocabulary :
  transfer_pop positive Pos.eqb 1 pile1 = [([[2]; [3]], 3%Q); ([[2]], 2%Q)] /\
  transfer_units positive Pos.eqb 1 pile1 = [[[2]; [3]]; [[2]; [3]]; [[2]; [3]]; [[2]]; [[2]]] /\
  pick [] (transfer_units positive Pos.eqb 1 pile1) [4; 1]%nat = [[[2]]; [[2]; [3]]] /\
  transfer_of_positions positive Pos.eqb 1 pile1 [4; 1]%nat
    = [mkBallot [[2]; [3]] 6 [] None None; mkBallot [[2]] 1 [] None None] /\
  Forall (untied positive) [[[2]]; [[2]; [3]]] /\
  Forall (fun b => untied positive (rk b)) pile1.
Proof.
  split; [reflexivity|]. split; [reflexivity|]. split; [reflexivity|].
  split; [vm_compute; reflexivity|]. split; repeat constructor.
Qed.

(* the hypotheses of the completeness / support / expectation theorems hold on this pile *)
Example ex_hyps :
  (forall b, In b pile1 -> is_integral (wt b) = true /\ rk b <> []) /\
  (forall b, In b pile1 ->
     Core.first_is positive Pos.eqb 1 b && nonempty (Core.strip positive Pos.eqb [1] (rk b)) = true ->
     (0 <= wt b)%Q) /\
  (0 <= Qtrunc 6 - Qtrunc 4)%Z /\
  Qle (inject_Z (Qtrunc 6 - Qtrunc 4))
      (EditSpec.wt_where positive
         (fun b => Core.first_is positive Pos.eqb 1 b &&
                   nonempty (Core.strip positive Pos.eqb [1] (rk b))) pile1) /\
  NoDup [4; 1]%nat /\
  (forall i, In i [4; 1]%nat -> Nat.lt i (length (transfer_units positive Pos.eqb 1 pile1))) /\
  Z.of_nat (length [4; 1]%nat) = (Qtrunc 6 - Qtrunc 4)%Z.
Proof.
  split.
  { intros b [<-|[<-|[<-|[<-|[]]]]]; split; try reflexivity; discriminate. }
  split.
  { intros b [<-|[<-|[<-|[<-|[]]]]] _; vm_compute; discriminate. }
  split; [vm_compute; discriminate|]. split; [vm_compute; discriminate|].
  split; [repeat constructor; cbn [In]; intuition discriminate|].
  split; [|reflexivity].
  intros i [<-|[<-|[]]]; vm_compute; repeat constructor.
Qed.

(* the model on the draw "positions 4 and 1" returns transfer_of_positions [4; 1] *)
Example ex_bridge :
  STV.rand_transfer positive Pos.eqb 1 6 pile1 4
      (mkM [DRanks (pick [] (transfer_units positive Pos.eqb 1 pile1) [4; 1]%nat)] [])
  = inl (transfer_of_positions positive Pos.eqb 1 pile1 [4; 1]%nat,
         mkM [] [CSampleBallots (transfer_pop positive Pos.eqb 1 pile1) 2%Z]).
Proof. vm_compute. reflexivity. Qed.

(* the law: one outcome per permutation of the 5 positions (120; the 20 ordered selections of 2
   positions, 6 times each); the expected weight of 2>3 in the model's output is 3 * (2/5) + 5 and
   that of 2 is 2 * (2/5) *)
Example ex_law :
  length (law_rand_transfer positive Pos.eqb 1 pile1 2) = 120%nat /\
  mass (law_rand_transfer positive Pos.eqb 1 pile1 2) == 1 /\
  expect (fun out => EditSpec.wtof_rk positive Pos.eqb [[2]; [3]] out)
         (law_rand_transfer positive Pos.eqb 1 pile1 2) == (31 # 5)%Q /\
  expect (fun out => EditSpec.wtof_rk positive Pos.eqb [[2]] out)
         (law_rand_transfer positive Pos.eqb 1 pile1 2) == (4 # 5)%Q /\
  In (transfer_of_positions positive Pos.eqb 1 pile1 [4; 1]%nat)
     (map fst (law_rand_transfer positive Pos.eqb 1 pile1 2)).
Proof.
  split; [vm_compute; reflexivity|]. split; [vm_compute; reflexivity|].
  split; [vm_compute; reflexivity|]. split; [vm_compute; reflexivity|].
  vm_compute. tauto.
Qed.

(* the full-weight transfer on the same pile: two output ballots *)
Example ex_full :
  EditSpec.score_free positive pile1 /\
  STV.full_transfer positive Pos.eqb 1 pile1
    = inl [mkBallot [[2]; [3]] 8 [] None None; mkBallot [[2]] 2 [] None None].
Proof. split; [repeat constructor|vm_compute; reflexivity]. Qed.

(* whole runs (those of Properties/C03_trace.v): hypotheses of c03_run_loss_telescoped *)
Ltac valid := apply (wf_stv_profile_b_ok positive Pos.eqb Pos.eqb_spec); vm_compute; reflexivity.

(* random transfer, two seats, quota 4: weights 11 -> 7 -> 3, loss 8 = two quotas + nothing *)
Definition exa_p : profile positive :=
  mkProfile [bal [1; 2; 3] 4; bal [1] 2; bal [2; 3] 3; bal [3] 2] [1; 2; 3].
Definition exa_cfg : stv_cfg := mkStv 2%Z QDroop true TRandom None.
Definition exa_s : mstate positive := mkM [DRanks [[[2]; [3]]; [[2]; [3]]]; DRanks [[[3]]]] [].

Example exa_run :
  wf_stv0 positive exa_p /\ (s_transfer exa_cfg = TRandom -> script_ok positive exa_s) /\
  match run_stv positive Pos.eqb exa_cfg exa_p exa_s with
  | inl (sts, s') =>
      map (fun st => (elected st, eliminated st)) sts
        = [([[]], [[]]); ([[1]], [[]]); ([[2]], [[]])] /\ scr s' = [] /\
      stv_init positive exa_cfg exa_p = inl 4%Q /\ total_wt positive (ballots exa_p) == 11
  | inr _ => False
  end.
Proof.
  split; [assert (H : wf_stv_profile positive exa_p) by valid; apply H|].
  split; [intros _; repeat constructor|]. vm_compute. repeat split.
Qed.

(* fractional transfer with an elimination and a default election, three seats, quota 4: weights
   13 -> 5 -> 5 -> 0; loss 13 = two quotas (8) + the 5 votes exhausted at the default election *)
Definition exb_p : profile positive :=
  mkProfile [bal [1; 3] 6; bal [2] 4; bal [3] 1; bal [4; 3] 2] [1; 2; 3; 4].
Definition exb_cfg : stv_cfg := mkStv 3%Z QDroop true TFractional None.

Example exb_run :
  wf_stv0 positive exb_p /\
  match run_stv positive Pos.eqb exb_cfg exb_p (mkM [] []) with
  | inl (sts, s') =>
      map (fun st => (elected st, eliminated st)) sts
        = [([[]], [[]]); ([[1]; [2]], [[]]); ([[]], [[4]]); ([[3]], [[]])] /\
      stv_init positive exb_cfg exb_p = inl 4%Q /\ total_wt positive (ballots exb_p) == 13
  | inr _ => False
  end.
Proof.
  split; [assert (H : wf_stv_profile positive exb_p) by valid; apply H|].
  vm_compute. repeat split.
Qed.

End C03BridgeExamples.
